"""Generate the Lean hypotheses (a structure of equations) from pymablock/algorithms.py.

For every series T of the algorithm and every part p in {up, lo, kc, kn, ed} one field
    eq_T_p : P p T = P p (<start> + tl (<expression for that part>))
is emitted (a single field eq_T when the definition has neither conditions nor markers), where
  * a clause without condition contributes to all parts, `diagonal` to kc and kn, `offdiagonal`
    to up, lo and ed (the latter through the `offdiag` wrapper),
  * a hermitian / antihermitian marker replaces the lo equation by  P lo T = +- star (P up T),
  * `zero if commuting_blocks[index[0]] else e` contributes 0 to kc and e to kn,
  * `zero if two_block_optimized else e` is resolved by the variant being generated,
  * "S".adj is star S, e / k is ((1:Q)/k) . e, solve_sylvester(e) is u.Sy e.
Products "A @ B": field prod_<name> : <name> = A * B, or for products declared `hermitian`
    hprod_<name> : forall n, A - star B in I n -> <name> - A * B in I (n+1)
(the pairing precondition of cauchy_dot_product(hermitian=True), DESIGN.md C18).
Summands are emitted in source order; the proof scripts use order-insensitive tactics.
"""
from __future__ import annotations

import os
import sys

from . import extract

PARTS = ["up", "lo", "kc", "kn", "ed"]


def mangle(name):
    out = name.replace(" @ ", "_x_").replace("'", "p").replace("†", "d")
    if not out.replace("_", "").isalnum():
        raise extract.DSLError(f"cannot mangle series name {name!r}")
    return out


class Unsupported(Exception):
    pass


def lean_expr(e, part, two_block, sylv):
    k = e[0]
    if k == "term":
        n = mangle(e[1])
        return f"star {n}" if e[2] else n
    if k == "zero":
        return "0"
    if k == "neg":
        return f"-({lean_expr(e[1], part, two_block, sylv)})"
    if k == "add":
        return f"({lean_expr(e[1], part, two_block, sylv)} + {lean_expr(e[2], part, two_block, sylv)})"
    if k == "sub":
        return f"({lean_expr(e[1], part, two_block, sylv)} - {lean_expr(e[2], part, two_block, sylv)})"
    if k == "div":
        return f"(((1:ℚ)/({e[2]})) • ({lean_expr(e[1], part, two_block, sylv)}))"
    if k == "call":
        if e[1] != "solve_sylvester":
            raise Unsupported(f"scope function {e[1]} has no algebraic contract")
        return f"{sylv} ({lean_expr(e[2], part, two_block, sylv)})"
    if k == "ifflag":
        flag = e[1]
        if flag == ("name", "two_block_optimized"):
            cond = two_block
        elif flag == ("indexed", "commuting_blocks"):
            if part not in ("kc", "kn"):
                raise Unsupported("commuting_blocks flag outside a diagonal clause")
            cond = part == "kc"
        else:
            raise Unsupported(f"flag {flag}")
        return lean_expr(e[2] if cond else e[3], part, two_block, sylv)
    raise Unsupported(f"expression {k}")


def part_expr(sdef, part, two_block, sylv):
    terms = []
    for cond, e in sdef.clauses:
        if cond is None:
            terms.append(lean_expr(e, part, two_block, sylv))
        elif cond == "diagonal":
            if part in ("kc", "kn"):
                terms.append(lean_expr(e, part, two_block, sylv))
        elif cond == "offdiagonal":
            if part in ("up", "lo", "ed"):
                terms.append(lean_expr(e, part, two_block, sylv))
        else:
            raise Unsupported(f"condition {cond}")
    terms = [t for t in terms if t != "0"] or ["0"]
    return " + ".join(terms)


def start_wrap(sdef, body, inputs):
    if sdef.start is None:
        return body
    if sdef.start == 0:
        return f"tl ({body})"
    if sdef.start == 1:
        return f"1 + tl ({body})"
    if isinstance(sdef.start, str) and sdef.start.endswith("_0") and sdef.start[:-2] in inputs:
        h = mangle(sdef.start[:-2])
        return f"({h} - tl {h}) + tl ({body})"
    raise Unsupported(f"start value {sdef.start!r}")


def generate(alg_name, struct_name, two_block, hermitian_input):
    alg = extract.read_algorithm(alg_name)
    computed = [s.name for s in alg.series]
    used = set()
    for s in alg.series:
        for _c, e in s.clauses:
            for nm, _adj in extract.terms_of(e):
                used.add(nm)
    prods = {p.name: p for p in alg.products}
    inputs = sorted(n for n in used if n not in computed and n not in prods)
    lines = []
    A = "(A : Type*) [Ring A] [StarRing A] [Algebra ℚ A] [StarModule ℚ A] [Filtered A] [Blocks A]"
    lines.append(f"/-- Equations of `pymablock.algorithms.{alg_name}`"
                 f" (two_block_optimized = {str(two_block).lower()}), extracted mechanically. -/")
    utype = "Unperturbed" if hermitian_input else "UnperturbedNH"
    lines.append(f"structure {struct_name} {A} (u : {utype} A) where")
    names = [mangle(n) for n in inputs + computed + [p.name for p in alg.products]]
    lines.append("  (" + " ".join(names) + " : A)")
    nhead = len(lines)
    for h in inputs:
        hm = mangle(h)
        lines.append(f"  in_{hm}_zeroth : {hm} - tl {hm} = u.H0")
        if hermitian_input:
            lines.append(f"  in_{hm}_star : star {hm} = {hm}")
    for p in alg.products:
        pm = mangle(p.name)
        fac = " * ".join(mangle(t) for t in p.terms)
        if p.hermitian:
            if len(p.terms) != 2:
                raise Unsupported("hermitian product with more than two factors")
            a, b = (mangle(t) for t in p.terms)
            lines.append(f"  hprod_{pm} : ∀ n : ℕ, {a} - star {b} ∈ I (A := A) n → {pm} - {fac} ∈ I (A := A) (n + 1)")
        else:
            lines.append(f"  prod_{pm} : {pm} = {fac}")
    for s in alg.series:
        sm = mangle(s.name)
        simple = s.marker is None and all(c is None for c, _ in s.clauses)
        if simple:
            body = part_expr(s, "up", two_block, "u.Sy")
            lines.append(f"  eq_{sm} : {sm} = {start_wrap(s, body, inputs)}")
            continue
        for part in PARTS:
            if part == "lo" and s.marker is not None:
                sign = "-" if s.marker == "antihermitian" else ""
                lines.append(f"  eq_{sm}_lo : P Part.lo {sm} = {sign}star (P Part.up {sm})")
                continue
            body = part_expr(s, part, two_block, "u.Sy")
            lines.append(f"  eq_{sm}_{part} : P Part.{part} {sm} = P Part.{part} ({start_wrap(s, body, inputs)})")
    fields = [tuple(x.strip() for x in ln.strip().split(" : ", 1)) for ln in lines[nhead:]]
    triv = {}
    for h in inputs:
        triv[mangle(h)] = "q"
    for s_ in alg.series:
        st = s_.start
        triv[mangle(s_.name)] = "1" if st == 1 else ("q" if isinstance(st, str) and st.endswith("_0") else "0")
    for p in alg.products:
        triv[mangle(p.name)] = "0"
    return "\n".join(lines) + "\n", {"inputs": inputs, "computed": computed, "products": [p.name for p in alg.products], "outputs": alg.outputs,
                                     "data_fields": names, "prop_fields": fields, "triv": triv}


def to_main(gen, tb):
    """`MainEqs2b.toMain`: a solution of the two-block equations is a solution of the general equations, provided the
    equations whose text differs between the two variants are supplied as hypotheses `h_<field>`."""
    import re
    if gen["data_fields"] != tb["data_fields"]:
        raise Unsupported("the two variants of main define different series")
    names = sorted(gen["data_fields"], key=len, reverse=True)
    pat = re.compile(r"(?<![\w.])(" + "|".join(re.escape(n) for n in names) + r")(?![\w])")
    tbf = dict(tb["prop_fields"])
    differing = [(f, t) for f, t in gen["prop_fields"] if tbf.get(f) != t]
    A = "{A : Type*} [Ring A] [StarRing A] [Algebra ℚ A] [StarModule ℚ A] [Filtered A] [Blocks A]"
    out = ["/-- A solution of the two-block-optimised equations solves the general equations once the differing equations are proved. -/",
           f"def MainEqs2b.toMain {A} {{u : Unperturbed A}} (e : MainEqs2b A u)"]
    for f, t in differing:
        out.append(f"    (h_{f} : {pat.sub(lambda m: 'e.' + m.group(1), t)})")
    out.append("    : MainEqs A u where")
    for n in gen["data_fields"]:
        out.append(f"  {n} := e.{n}")
    dn = {f for f, _ in differing}
    for f, _t in gen["prop_fields"]:
        out.append(f"  {f} := " + (f"h_{f}" if f in dn else f"e.{f}"))
    return "\n".join(out) + "\n"


INST_HEADER = """/- GENERATED by leanalg/genlean.py on every run: do not edit.  Vacuity guard for the generated structures. -/
import PV.Instance

namespace PV.Inst
open Filtered Blocks

"""

HEADER = """/- GENERATED by leanalg/genlean.py from pymablock/algorithms.py on every run: do not edit. -/
import PV.Setting

namespace PV
open Filtered Blocks

"""


def write_all(outdir):
    os.makedirs(outdir, exist_ok=True)
    text = HEADER
    meta = {}
    for alg, struct, tb, herm in (("main", "MainEqs", False, True), ("main", "MainEqs2b", True, True),
                                  ("nonhermitian", "NonHermEqs", False, False)):
        t, m = generate(alg, struct, tb, herm)
        text += t + "\n"
        meta[struct] = m
    text += to_main(meta["MainEqs"], meta["MainEqs2b"]) + "\n"
    inst = INST_HEADER
    for struct, m in meta.items():
        inst += f"/-- the degenerate solution (no perturbation): consistency of the equations of `{struct}` -/\n"
        uarg = "(unperturbed q)" if struct != "NonHermEqs" else "(unperturbed q).toUnperturbedNH"
        inst += f"noncomputable def triv{struct} (q : ℚ) : {struct} ℚ {uarg} where\n"
        for n in m["data_fields"]:
            inst += f"  {n} := {m['triv'][n]}\n"
        for f, _t in m["prop_fields"]:
            if f.startswith("hprod_"):
                inst += f"  {f} := by intro n _; simp\n"
            else:
                inst += f"  {f} := by simp [unperturbed, Blocks.P, Blocks.tl]\n"
        inst += "\n"
    inst += "end PV.Inst\n"
    ipath = os.path.join(outdir, "GeneratedInst.lean")
    if (open(ipath).read() if os.path.exists(ipath) else None) != inst:
        with open(ipath, "w") as f:
            f.write(inst)
    for m in meta.values():
        m.pop("triv", None)
        m.pop("prop_fields", None)
        m.pop("data_fields", None)
    text += "end PV\n"
    path = os.path.join(outdir, "Generated.lean")
    old = open(path).read() if os.path.exists(path) else None
    if old != text:
        with open(path, "w") as f:
            f.write(text)
    return path, meta, text


if __name__ == "__main__":
    p, m, t = write_all(sys.argv[1] if len(sys.argv) > 1 else os.path.join(os.path.dirname(__file__), "lean", "PV"))
    print(t)
