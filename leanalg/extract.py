"""Independent reader of the algorithm mini-language (pymablock/algorithms.py).

This does NOT use the repository's compiler: it reads the `with "name":` blocks with its own
small AST walker and produces the *equations* the documentation of `series_computation`
says they mean.  The result is used (a) as the specification against which the repository's
generated evaluators are validated (C09) and (b) to generate the hypotheses of the Lean
development (C01-C05).

Expression language (nested tuples):
  ("term", name, adj)            series element / its adjoint
  ("neg", e) ("add", e1, e2) ("sub", e1, e2) ("div", e, k) with k a non-zero int, ("scale", e, k) integer literal times expression
  ("call", fname, e)             scope function applied to an expression (index appended by the DSL)
  ("callseries", fname, name)    scope function applied to a series name
  ("ifflag", flag, e_true, e_false)   flag = ("name", id) | ("indexed", id)  (id[index[0]])
  ("zero",)                      the literal `zero`
"""
from __future__ import annotations

import ast
import os

REPO = os.environ.get("PYVC_REPO", "/repo")


class DSLError(Exception):
    pass


class SeriesDef:
    def __init__(self, name):
        self.name = name
        self.start = None      # None | 0 | 1 | "<name>"
        self.marker = None     # None | "hermitian" | "antihermitian"
        self.clauses = []      # (cond, expr) cond in {None, "diagonal", "offdiagonal"}

    def __repr__(self):
        return f"SeriesDef({self.name!r}, start={self.start!r}, marker={self.marker}, clauses={self.clauses})"


class ProductDef:
    def __init__(self, name, hermitian):
        self.name = name
        self.terms = name.split(" @ ")
        self.hermitian = hermitian


class Algorithm:
    def __init__(self, name):
        self.name = name
        self.series = []
        self.products = []
        self.outputs = []

    def series_by_name(self):
        return {s.name: s for s in self.series}


def _expr(e):
    if isinstance(e, ast.Constant):
        if isinstance(e.value, str):
            return ("term", e.value, False)
        raise DSLError(f"unexpected constant {e.value!r}")
    if isinstance(e, ast.Attribute):
        if e.attr != "adj" or not (isinstance(e.value, ast.Constant) and isinstance(e.value.value, str)):
            raise DSLError("only <series>.adj attributes are allowed")
        return ("term", e.value.value, True)
    if isinstance(e, ast.Name):
        if e.id == "zero":
            return ("zero",)
        raise DSLError(f"unexpected name {e.id}")
    if isinstance(e, ast.UnaryOp) and isinstance(e.op, ast.USub):
        return ("neg", _expr(e.operand))
    if isinstance(e, ast.BinOp):
        if isinstance(e.op, ast.Add):
            return ("add", _expr(e.left), _expr(e.right))
        if isinstance(e.op, ast.Sub):
            return ("sub", _expr(e.left), _expr(e.right))
        if isinstance(e.op, ast.Div):
            k = e.right
            if isinstance(k, ast.UnaryOp) and isinstance(k.op, ast.USub) and isinstance(k.operand, ast.Constant):
                kv = -k.operand.value
            elif isinstance(k, ast.Constant):
                kv = k.value
            else:
                raise DSLError("division by a non-literal")
            if not isinstance(kv, int) or kv == 0:
                raise DSLError("division by a non-integer or zero")
            return ("div", _expr(e.left), kv)
        if isinstance(e.op, ast.Mult):
            # integer literal times an expression, on either side
            def lit(k):
                if isinstance(k, ast.UnaryOp) and isinstance(k.op, ast.USub) and isinstance(k.operand, ast.Constant) and isinstance(k.operand.value, int) and not isinstance(k.operand.value, bool):
                    return -k.operand.value
                if isinstance(k, ast.Constant) and isinstance(k.value, int) and not isinstance(k.value, bool):
                    return k.value
                return None
            kl, kr = lit(e.left), lit(e.right)
            if kl is not None and kr is None:
                return ("scale", _expr(e.right), kl)
            if kr is not None and kl is None:
                return ("scale", _expr(e.left), kr)
            raise DSLError("multiplication is only defined between an integer literal and an expression")
        raise DSLError(f"operator {type(e.op).__name__}")
    if isinstance(e, ast.Call):
        if not isinstance(e.func, ast.Name) or len(e.args) != 1 or e.keywords:
            raise DSLError("scope functions take one positional argument")
        a = e.args[0]
        if isinstance(a, ast.Constant) and isinstance(a.value, str):
            return ("callseries", e.func.id, a.value)
        return ("call", e.func.id, _expr(a))
    if isinstance(e, ast.IfExp):
        t = e.test
        if isinstance(t, ast.Name):
            flag = ("name", t.id)
        elif (isinstance(t, ast.Subscript) and isinstance(t.value, ast.Name) and isinstance(t.slice, ast.Subscript)
              and isinstance(t.slice.value, ast.Name) and t.slice.value.id == "index"
              and isinstance(t.slice.slice, ast.Constant) and t.slice.slice.value == 0):
            flag = ("indexed", t.value.id)
        else:
            raise DSLError("unsupported flag expression")
        return ("ifflag", flag, _expr(e.body), _expr(e.orelse))
    raise DSLError(f"expression {type(e).__name__}")


def read_algorithm(func_name, path=None):
    path = path or os.path.join(REPO, "pymablock", "algorithms.py")
    with open(path, encoding="utf8") as f:
        tree = ast.parse(f.read())
    fn = next((n for n in tree.body if isinstance(n, ast.FunctionDef) and n.name == func_name), None)
    if fn is None:
        raise DSLError(f"no algorithm {func_name}")
    alg = Algorithm(func_name)
    for node in fn.body:
        if isinstance(node, ast.With):
            name = node.items[0].context_expr.value
            if "@" in name:
                herm = any(isinstance(s, ast.Expr) and isinstance(s.value, ast.Name) and s.value.id == "hermitian" for s in node.body)
                alg.products.append(ProductDef(name, herm))
                continue
            sd = SeriesDef(name)
            for st in node.body:
                if isinstance(st, ast.Assign):
                    if len(st.targets) == 1 and isinstance(st.targets[0], ast.Name) and st.targets[0].id == "start":
                        sd.start = st.value.value
                    else:
                        raise DSLError("only `start = ...` assignments are allowed")
                elif isinstance(st, ast.Expr):
                    if isinstance(st.value, ast.Name) and st.value.id in ("hermitian", "antihermitian"):
                        sd.marker = st.value.id
                    elif isinstance(st.value, ast.Constant) and st.value.value is Ellipsis:
                        pass
                    else:
                        sd.clauses.append((None, _expr(st.value)))
                elif isinstance(st, ast.If):
                    if not isinstance(st.test, ast.Name) or st.test.id not in ("diagonal", "offdiagonal", "lower"):
                        raise DSLError("unsupported condition")
                    if len(st.body) != 1 or st.orelse or not isinstance(st.body[0], ast.Expr):
                        raise DSLError("a condition holds exactly one expression")
                    sd.clauses.append((st.test.id, _expr(st.body[0].value)))
                elif isinstance(st, ast.Pass):
                    pass
                else:
                    raise DSLError(f"statement {type(st).__name__} in series definition")
            alg.series.append(sd)
        elif isinstance(node, ast.Return):
            v = node.value
            alg.outputs = [v.value] if isinstance(v, ast.Constant) else [e.value for e in v.elts]
    return alg


def terms_of(e, acc=None):
    acc = [] if acc is None else acc
    if e[0] == "term":
        acc.append((e[1], e[2]))
    elif e[0] == "callseries":
        acc.append((e[2], False))
    elif e[0] in ("neg", "call"):
        terms_of(e[-1], acc)
    elif e[0] in ("add", "sub"):
        terms_of(e[1], acc)
        terms_of(e[2], acc)
    elif e[0] in ("div", "scale"):
        terms_of(e[1], acc)
    elif e[0] == "ifflag":
        terms_of(e[2], acc)
        terms_of(e[3], acc)
    return acc


def show(e):
    k = e[0]
    if k == "term":
        return f'"{e[1]}"' + (".adj" if e[2] else "")
    if k == "zero":
        return "zero"
    if k == "neg":
        return f"-({show(e[1])})"
    if k == "add":
        return f"({show(e[1])} + {show(e[2])})"
    if k == "sub":
        return f"({show(e[1])} - {show(e[2])})"
    if k == "div":
        return f"({show(e[1])} / {e[2]})"
    if k == "scale":
        return f"({e[2]} * {show(e[1])})"
    if k == "call":
        return f"{e[1]}({show(e[2])})"
    if k == "callseries":
        return f'{e[1]}("{e[2]}")'
    if k == "ifflag":
        f = e[1][1] if e[1][0] == "name" else f"{e[1][1]}[index[0]]"
        return f"({show(e[2])} if {f} else {show(e[3])})"
    return str(e)


if __name__ == "__main__":
    import sys
    for n in sys.argv[1:] or ["main", "nonhermitian"]:
        a = read_algorithm(n)
        print("#", n, "outputs", a.outputs)
        for s in a.series:
            print(f"  {s.name!r}: start={s.start!r} marker={s.marker}")
            for c, ex in s.clauses:
                print(f"      [{c}] {show(ex)}")
        for p in a.products:
            print(f"  product {p.name!r} hermitian={p.hermitian}")
