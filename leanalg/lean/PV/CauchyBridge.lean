/-
  The bridge between the loop of `series.product_by_order` and the ring multiplication used in the Lean development (C18).
  The real loop runs over `product(range(n_blocks), range(n_1 + 1), ..., range(n_k + 1))` and adds
  `first[start, middle, m] @ second[middle, end, n - m]`; the PyVC fold rule proves that the value returned is the sum of these
  contributions over that iteration set.  Here: that sum IS the coefficient of the product in the ring of matrices of multivariate
  power series (finite-sum lemma: antidiagonal = box of the first index; block product = sum over the middle block).
-/
import Mathlib.Data.Finsupp.Interval
import Mathlib.Data.Matrix.Mul
import Mathlib.Data.Matrix.Basic
import Mathlib.Algebra.BigOperators.GroupWithZero.Action
import PV.Model

namespace PV.Bridge
open MvPowerSeries Finset

variable {σ : Type*} [DecidableEq σ] {R : Type*} [Semiring R]

/-- the antidiagonal of a multi-order is the box `0 ≤ m ≤ n` of its first component -/
theorem sum_antidiagonal_eq_sum_box (n : σ →₀ ℕ) (g : (σ →₀ ℕ) → (σ →₀ ℕ) → R) :
    ∑ p ∈ antidiagonal n, g p.1 p.2 = ∑ m ∈ Finset.Icc 0 n, g m (n - m) := by
  refine Finset.sum_bij' (fun p _ => p.1) (fun m _ => (m, n - m)) ?_ ?_ ?_ ?_ ?_
  · intro p hp
    rw [mem_antidiagonal] at hp
    rw [Finset.mem_Icc]
    exact ⟨zero_le, by rw [← hp]; exact le_self_add⟩
  · intro m hm
    rw [Finset.mem_Icc] at hm
    rw [mem_antidiagonal]
    exact add_tsub_cancel_of_le hm.2
  · intro p hp
    rw [mem_antidiagonal] at hp
    ext : 1
    · rfl
    · show n - p.1 = p.2
      rw [← hp, add_tsub_cancel_left]
  · intro m _
    rfl
  · intro p hp
    rw [mem_antidiagonal] at hp
    show g p.1 p.2 = g p.1 (n - p.1)
    rw [← hp, add_tsub_cancel_left]

/-- scalar-shaped series: the coefficient of a product is the sum over the box (the loop of `product_by_order` for one block) -/
theorem coeff_mul_box (f g : MvPowerSeries σ R) (n : σ →₀ ℕ) :
    coeff n (f * g) = ∑ m ∈ Finset.Icc 0 n, coeff m f * coeff (n - m) g := by
  rw [coeff_mul]
  exact sum_antidiagonal_eq_sum_box n (fun a b => coeff a f * coeff b g)

/-- block series = series of block matrices: element `(s, e)` of the coefficient of a product is the double sum over the middle
    block and the box of first orders - literally the iteration set of `product_by_order(index = (s, e, *n))` -/
theorem coeff_mul_blocks {b : Type*} [Fintype b] [DecidableEq b] (F G : MvPowerSeries σ (Matrix b b R)) (n : σ →₀ ℕ) (s e : b) :
    (coeff n (F * G)) s e = ∑ middle : b, ∑ m ∈ Finset.Icc 0 n, (coeff m F) s middle * (coeff (n - m) G) middle e := by
  rw [coeff_mul_box, Matrix.sum_apply, Finset.sum_comm]
  apply Finset.sum_congr rfl
  intro m _
  rw [Matrix.mul_apply]

end PV.Bridge
