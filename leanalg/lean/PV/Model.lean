/-
  Concrete model of the setting (discharges the "A-MATH" assumption at the level of series): for ANY coefficient star algebra M
  (e.g. matrices) and ANY set σ of perturbation parameters, the multivariate formal power series over M with the Cauchy product,
  coefficient-wise adjoint and the filtration by total order form a `Filtered` star ring; coefficient-level block projections and a
  coefficient-level Sylvester solver lift to `Blocks` and `Unperturbed`.
-/
import Mathlib.RingTheory.MvPowerSeries.Basic
import Mathlib.Data.Finsupp.Weight
import Mathlib.Algebra.Star.BigOperators
import PV.Setting

namespace PV.Model
open MvPowerSeries Finset

variable {σ : Type*} {M : Type*} [Ring M] [StarRing M] [Algebra ℚ M] [StarModule ℚ M]

noncomputable instance : Star (MvPowerSeries σ M) := ⟨fun f n => star (f n)⟩

theorem coeff_star (f : MvPowerSeries σ M) (n : σ →₀ ℕ) : coeff n (star f) = star (coeff n f) := rfl

noncomputable instance : StarRing (MvPowerSeries σ M) where
  star_involutive f := by
    ext n; simp [coeff_star]
  star_mul f g := by
    classical
    ext n
    simp only [coeff_star, coeff_mul, star_sum, star_mul]
    exact Finsupp.sum_antidiagonal_swap n (fun a b => star (coeff b g) * star (coeff a f))
  star_add f g := by
    ext n; simp [coeff_star]

instance : StarModule ℚ (MvPowerSeries σ M) where
  star_smul q f := by
    ext n
    simp [coeff_star]


/-! ### filtration by total order -/

open PV Filtered

/-- series all of whose terms of total order `< n` vanish -/
def ordSub (σ M : Type*) [Ring M] [StarRing M] [Algebra ℚ M] [StarModule ℚ M] (n : ℕ) : Submodule ℚ (MvPowerSeries σ M) where
  carrier := {f | ∀ m : σ →₀ ℕ, m.degree < n → coeff m f = 0}
  add_mem' := by
    intro f g hf hg m hm
    rw [map_add, hf m hm, hg m hm, add_zero]
  zero_mem' := by intro m _; simp
  smul_mem' := by
    intro q f hf m hm
    rw [LinearMap.map_smul_of_tower, hf m hm, smul_zero]

theorem mem_ordSub {n : ℕ} {f : MvPowerSeries σ M} : f ∈ ordSub σ M n ↔ ∀ m : σ →₀ ℕ, m.degree < n → coeff m f = 0 := Iff.rfl

noncomputable instance filtered : Filtered (MvPowerSeries σ M) where
  I := ordSub σ M
  I_zero := by
    ext f
    simp [mem_ordSub]
  I_anti := by
    intro n f hf m hm
    exact hf m (Nat.lt_succ_of_lt hm)
  I_mul := by
    classical
    intro a b f g hf hg m hm
    rw [coeff_mul]
    apply Finset.sum_eq_zero
    intro p hp
    have hp' : p.1 + p.2 = m := by simpa using hp
    have hd : p.1.degree + p.2.degree = m.degree := by rw [← hp', map_add]
    by_cases h1 : p.1.degree < a
    · rw [hf p.1 h1, zero_mul]
    · have h2 : p.2.degree < b := by omega
      rw [hg p.2 h2, mul_zero]
  I_star := by
    intro n f hf m hm
    rw [coeff_star, hf m hm, star_zero]
  I_sep := by
    intro f h
    ext m
    exact h (m.degree + 1) m (Nat.lt_succ_self _)


/-! ### block structure and solver lifted from the coefficient algebra -/

open Part Blocks

/-- block structure on the coefficient algebra (for matrices: entry masks; see PV/MatrixModel.lean) -/
class CoeffBlocks (M : Type*) [Ring M] [StarRing M] [Algebra ℚ M] [StarModule ℚ M] where
  Q : Part → M →ₗ[ℚ] M
  Q_sum : ∀ a : M, Q up a + Q lo a + Q kc a + Q kn a + Q ed a = a
  Q_comp : ∀ (i j : Part) (a : M), Q i (Q j a) = if i = j then Q j a else 0
  Q_star : ∀ (i : Part) (a : M), star (Q i a) = Q i.sw (star a)
  comm_left : ∀ a b : M, Q kc ((Q up a + Q lo a + Q ed a) * (Q kc b + Q kn b)) = 0
  comm_right : ∀ a b : M, Q kc ((Q kc b + Q kn b) * (Q up a + Q lo a + Q ed a)) = 0

open CoeffBlocks

variable [CoeffBlocks M]

attribute [local instance] Classical.propDecidable

/-- coefficient-wise application of a linear map -/
noncomputable def cw (L : M →ₗ[ℚ] M) : MvPowerSeries σ M →ₗ[ℚ] MvPowerSeries σ M where
  toFun f := fun n => L (f n)
  map_add' f g := by
    funext n
    show L (coeff n (f + g)) = L (coeff n f) + L (coeff n g)
    rw [map_add, map_add]
  map_smul' q f := by
    funext n
    show L (coeff n (q • f)) = q • L (coeff n f)
    rw [LinearMap.map_smul_of_tower, map_smul]

theorem coeff_cw (L : M →ₗ[ℚ] M) (f : MvPowerSeries σ M) (n : σ →₀ ℕ) : coeff n (cw L f) = L (coeff n f) := rfl

/-- removal of the zeroth-order term -/
noncomputable def tl0 : MvPowerSeries σ M →ₗ[ℚ] MvPowerSeries σ M where
  toFun f := fun n => if n = 0 then 0 else f n
  map_add' f g := by
    funext n
    show (if n = 0 then (0 : M) else coeff n (f + g)) = (if n = 0 then 0 else coeff n f) + (if n = 0 then 0 else coeff n g)
    by_cases h : n = 0 <;> simp [h]
  map_smul' q f := by
    funext n
    show (if n = 0 then (0 : M) else coeff n (q • f)) = q • (if n = 0 then 0 else coeff n f)
    by_cases h : n = 0 <;> simp [h, LinearMap.map_smul_of_tower]

theorem coeff_tl0 (f : MvPowerSeries σ M) (n : σ →₀ ℕ) : coeff n (tl0 f) = if n = 0 then 0 else coeff n f := rfl

noncomputable instance blocks : Blocks (MvPowerSeries σ M) where
  P p := cw (Q p)
  P_sum a := by
    ext n
    simp only [map_add, coeff_cw]
    exact Q_sum _
  P_comp i j a := by
    ext n
    by_cases h : i = j
    · simp [coeff_cw, Q_comp, h]
    · simp [coeff_cw, Q_comp, h]
  P_star i a := by
    ext n
    simp [coeff_cw, coeff_star, Q_star]
  P_mem i {n} {a} ha := by
    intro m hm
    rw [coeff_cw, ha m hm, map_zero]
  tl := tl0
  tl_mem a := by
    intro m hm
    have : m = 0 := by
      have : m.degree = 0 := by omega
      exact (Finsupp.degree_eq_zero_iff m).mp this
    simp [coeff_tl0, this]
  tl_of_mem {a} ha := by
    ext m
    by_cases h : m = 0
    · subst h
      have : coeff (0 : σ →₀ ℕ) a = 0 := ha 0 (by simp)
      simp [coeff_tl0, this]
    · simp [coeff_tl0, h]
  tl_P i a := by
    ext m
    by_cases h : m = 0 <;> simp [coeff_tl0, coeff_cw, h]
  tl_star a := by
    ext m
    by_cases h : m = 0 <;> simp [coeff_tl0, coeff_star, h]
  comm_left a b := by
    classical
    ext m
    simp only [coeff_cw, coeff_mul, map_add, map_sum, map_zero]
    apply Finset.sum_eq_zero
    intro p _
    exact CoeffBlocks.comm_left _ _
  comm_right a b := by
    classical
    ext m
    simp only [coeff_cw, coeff_mul, map_add, map_sum, map_zero]
    apply Finset.sum_eq_zero
    intro p _
    exact CoeffBlocks.comm_right _ _


/-- unperturbed Hamiltonian and Sylvester solver at the level of coefficients, without adjoint facts (non-Hermitian case) -/
structure CoeffUnperturbedNH (M : Type*) [Ring M] [StarRing M] [Algebra ℚ M] [StarModule ℚ M] [CoeffBlocks M] where
  H0 : M
  H0_up : Q up H0 = 0
  H0_lo : Q lo H0 = 0
  H0_ed : Q ed H0 = 0
  H0_left : ∀ (i : Part) (a : M), Q i (H0 * a) = H0 * Q i a
  H0_right : ∀ (i : Part) (a : M), Q i (a * H0) = Q i a * H0
  Sy : M → M
  Sy_zero : Sy 0 = 0
  Sy_up : ∀ z : M, Q up (H0 * Sy z - Sy z * H0) = Q up z
  Sy_ed : ∀ z : M, Q ed (H0 * Sy z - Sy z * H0) = Q ed z
  Sy_lo : ∀ z : M, Q lo (H0 * Sy z - Sy z * H0) = Q lo z

/-- Hermitian case (for matrices: a diagonal matrix of real energies and entry-wise division by energy differences,
    see PV/MatrixModel.lean) -/
structure CoeffUnperturbed (M : Type*) [Ring M] [StarRing M] [Algebra ℚ M] [StarModule ℚ M] [CoeffBlocks M]
    extends CoeffUnperturbedNH M where
  H0_star : star H0 = H0
  Sy_ed_star : ∀ z : M, Q ed (star (Sy z)) = - Q ed (Sy (star z))

theorem star_C (a : M) : star (C (σ := σ) a) = C (star a) := by
  ext n
  rw [coeff_star, coeff_C, coeff_C]
  split <;> simp

theorem coeff_P (p : Part) (f : MvPowerSeries σ M) (n : σ →₀ ℕ) : coeff n (P p f) = Q p (coeff n f) := rfl

/-- the solver applied order by order -/
noncomputable def sySeries (c : CoeffUnperturbedNH M) (f : MvPowerSeries σ M) : MvPowerSeries σ M := fun n => c.Sy (coeff n f)

theorem coeff_sySeries (c : CoeffUnperturbedNH M) (f : MvPowerSeries σ M) (n : σ →₀ ℕ) : coeff n (sySeries c f) = c.Sy (coeff n f) := rfl

/-- the series-level data of `block_diagonalize`: constant series `H0`, solver applied order by order -/
noncomputable def liftNH (c : CoeffUnperturbedNH M) : UnperturbedNH (MvPowerSeries σ M) where
  H0 := C c.H0
  H0_up := by ext n; rw [coeff_P, coeff_C]; split <;> simp [c.H0_up]
  H0_lo := by ext n; rw [coeff_P, coeff_C]; split <;> simp [c.H0_lo]
  H0_ed := by ext n; rw [coeff_P, coeff_C]; split <;> simp [c.H0_ed]
  H0_left i a := by ext n; rw [coeff_P, coeff_C_mul, coeff_C_mul, coeff_P, c.H0_left]
  H0_right i a := by ext n; rw [coeff_P, coeff_mul_C, coeff_mul_C, coeff_P, c.H0_right]
  Sy f := sySeries c f
  Sy_mem {n} {z} hz := by
    intro m hm
    rw [coeff_sySeries, hz m hm, c.Sy_zero]
  Sy_up z := by
    ext n
    rw [coeff_P, map_sub, coeff_C_mul, coeff_mul_C, coeff_P, coeff_sySeries]
    exact c.Sy_up _
  Sy_ed z := by
    ext n
    rw [coeff_P, map_sub, coeff_C_mul, coeff_mul_C, coeff_P, coeff_sySeries]
    exact c.Sy_ed _
  Sy_lo z := by
    ext n
    rw [coeff_P, map_sub, coeff_C_mul, coeff_mul_C, coeff_P, coeff_sySeries]
    exact c.Sy_lo _

noncomputable def lift (c : CoeffUnperturbed M) : Unperturbed (MvPowerSeries σ M) where
  toUnperturbedNH := liftNH c.toCoeffUnperturbedNH
  H0_star := by
    show star (C c.H0) = C c.H0
    rw [star_C, c.H0_star]
  Sy_ed_star z := by
    ext n
    show coeff n (P ed (star (sySeries c.toCoeffUnperturbedNH z))) = coeff n (- P ed (sySeries c.toCoeffUnperturbedNH (star z)))
    rw [coeff_P, map_neg, coeff_P, coeff_star, coeff_sySeries, coeff_sySeries, coeff_star]
    exact c.Sy_ed_star _

/-- the gap condition of the uniqueness theorem follows from its coefficient-level form -/
theorem gapped_lift (c : CoeffUnperturbedNH M)
    (gap : ∀ x : M, Q kc x + Q kn x = 0 → c.H0 * x - x * c.H0 = 0 → x = 0) :
    ∀ (n : ℕ) (v : MvPowerSeries σ M), v ∈ I (A := MvPowerSeries σ M) n → P kc v + P kn v = 0 →
      (liftNH (σ := σ) c).H0 * v - v * (liftNH (σ := σ) c).H0 ∈ I (A := MvPowerSeries σ M) (n + 1) → v ∈ I (A := MvPowerSeries σ M) (n + 1) := by
  intro n v hv hs hc m hm
  by_cases h : m.degree < n
  · exact hv m h
  · apply gap
    · have := congrArg (coeff m) hs
      rw [map_add, coeff_P, coeff_P, map_zero] at this
      exact this
    · have := hc m hm
      show c.H0 * coeff m v - coeff m v * c.H0 = 0
      rw [← this]
      show _ = coeff m (C c.H0 * v - v * C c.H0)
      rw [map_sub, coeff_C_mul, coeff_mul_C]

end PV.Model
