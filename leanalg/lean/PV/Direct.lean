/-
  The constrained sparse solve of `linalg.direct_greens_function` (C16, C06).

  `M = E - H` is singular at an explicit eigenvalue: `M K = 0`, `L† M = 0` with the biorthonormal kernel bases `K`, `L`
  (`L† K = 1`).  The code replaces the equations (rows) `R` by the constraints `x[C] = 0`, solves
  `((1 - D) M + S) y = (1 - D) (P v)` with `D` the diagonal projection on the rows `R`, `S` the selector of the unknowns `C`
  placed on the rows `R`, `P = 1 - K L†`, and returns `P y`.  Written with linear maps on a module:

    `P P = P`                       (from `L† K = 1`)
    `P M = M`,  `M P = M`           (from `L† M = 0`,  `M K = 0`)
    `D D = D`,  `D S = S`           (`S` writes to the rows `R` only)
    `row_gauge`: a vector supported on the rows `R` and annihilated by `L†` (i.e. fixed by `P`) is zero   (`L[R, :]` invertible)
    `col_gauge`: a kernel vector (`P x = 0`) with `x[C] = 0` (`S x = 0`) is zero                            (`K[C, :]` invertible)
    `ker`     : `M x = 0 → P x = 0`                                         (`K` spans the whole kernel of `M`)

  `greens_solves`: the value returned solves `M x = P v` and lies in the range of `P`.
  `constrained_injective`: the constrained matrix is injective (so the factorisation exists for finite dimension).
  With the rows chosen from the RIGHT kernel basis (`K[R, :]` invertible instead of `L[R, :]`) `row_gauge` is not available and the
  statement is false (found defect, fixed in /repo: the redundant equations are determined by the left kernel).
-/
import Mathlib.Algebra.Module.LinearMap.Basic
import Mathlib.Algebra.Module.LinearMap.End
import Mathlib.Tactic.Abel
import Mathlib.Tactic.Module

namespace PV.Direct

variable {R V : Type*} [CommRing R] [AddCommGroup V] [Module R V]
variable (M P D S : V →ₗ[R] V)

/-- the solution of the constrained system, projected, solves the singular system on the complement of the kernel -/
theorem greens_solves
    (hPP : ∀ x, P (P x) = P x) (hPM : ∀ x, P (M x) = M x) (hMP : ∀ x, M (P x) = M x)
    (hDD : ∀ x, D (D x) = D x) (hDS : ∀ x, D (S x) = S x)
    (row_gauge : ∀ w, D w = w → P w = w → w = 0)
    (y v : V) (hy : (M y - D (M y)) + S y = P v - D (P v)) :
    M (P y) = P v ∧ P (P y) = P y := by
  refine ⟨?_, hPP y⟩
  -- apply 1 - D to the constrained system
  have h1 : M y - D (M y) = P v - D (P v) := by
    have := congrArg (fun z => z - D z) hy
    simp only [map_add, map_sub, hDD, hDS] at this
    have e1 : (M y - D (M y) + S y) - (D (M y) - D (M y) + S y) = M y - D (M y) := by abel
    have e2 : (P v - D (P v)) - (D (P v) - D (P v)) = P v - D (P v) := by abel
    rw [e1, e2] at this
    exact this
  set w := M y - P v with hw
  have hDw : D w = w := by
    have : w - D w = 0 := by
      rw [hw, map_sub]
      have : M y - P v - (D (M y) - D (P v)) = (M y - D (M y)) - (P v - D (P v)) := by abel
      rw [this, h1, sub_self]
    exact (sub_eq_zero.mp this).symm
  have hPw : P w = w := by rw [hw, map_sub, hPM, hPP]
  have hw0 : w = 0 := row_gauge w hDw hPw
  rw [hMP]
  exact sub_eq_zero.mp hw0

/-- the constrained matrix is injective -/
theorem constrained_injective
    (hPM : ∀ x, P (M x) = M x)
    (hDD : ∀ x, D (D x) = D x) (hDS : ∀ x, D (S x) = S x)
    (row_gauge : ∀ w, D w = w → P w = w → w = 0)
    (col_gauge : ∀ x, P x = 0 → S x = 0 → x = 0)
    (ker : ∀ x, M x = 0 → P x = 0)
    (x : V) (hx : (M x - D (M x)) + S x = 0) : x = 0 := by
  have hS : S x = 0 := by
    have := congrArg D hx
    simp only [map_add, map_sub, hDD, hDS, sub_self, zero_add, map_zero] at this
    exact this
  have hD : D (M x) = M x := by
    rw [hS, add_zero] at hx
    exact (sub_eq_zero.mp hx).symm
  have hM : M x = 0 := row_gauge (M x) hD (hPM x)
  exact col_gauge x (ker x hM) hS

end PV.Direct
