/-
  Coefficient-level instance for matrices: entries of an ι x ι matrix over a field K with conjugation are classified by
  `cls : ι → ι → Part` (the masks of `block_diagonalize`); H0 is the diagonal matrix of real energies E; the solver divides
  eliminated entries by energy differences.  Hypotheses on `cls`, `E` are exactly what the PyVC obligations on the mask
  fragment and on `solve_sylvester_diagonal` establish for the real code:
    * cls_sw    the classification is symmetric under transposition (up <-> lo, others fixed)           [mask:symmetric, block order]
    * cls_diag  diagonal entries are kept                                                              [mask:diagonal-kept]
    * comm      in blocks flagged as commuting, eliminated x kept and kept x eliminated have no kept entry  [mask:commuting-implies-transitive]
    * gapE      energies of an eliminated pair differ                                                  [mask:eliminated-implies-solver-divides]
-/
import Mathlib.LinearAlgebra.Matrix.ConjTranspose
import Mathlib.Data.Matrix.Mul
import Mathlib.Algebra.Field.Basic
import Mathlib.Tactic.FieldSimp
import Mathlib.Tactic.Ring
import PV.Model
import PV.Lemmas

namespace PV.MatrixModel
open PV PV.Model Part Matrix

variable {ι : Type*} [Fintype ι] [DecidableEq ι]
variable {K : Type*} [Field K] [StarRing K] [Algebra ℚ K] [StarModule ℚ K]

/-- an entry is eliminated -/
def isRem (p : Part) : Prop := p = up ∨ p = lo ∨ p = ed
/-- an entry is kept -/
def isSel (p : Part) : Prop := p = kc ∨ p = kn

instance (p : Part) : Decidable (isRem p) := by unfold isRem; infer_instance
instance (p : Part) : Decidable (isSel p) := by unfold isSel; infer_instance

structure Masks (ι : Type*) where
  cls : ι → ι → Part
  cls_sw : ∀ i j, cls j i = (cls i j).sw
  cls_diag : ∀ i, isSel (cls i i)
  comm_l : ∀ i j k, cls i k = kc → isRem (cls i j) → isSel (cls j k) → False
  comm_r : ∀ i j k, cls i k = kc → isSel (cls i j) → isRem (cls j k) → False

variable (μ : Masks ι)

/-- entry mask as a ℚ-linear map -/
def maskMap (p : Part) : Matrix ι ι K →ₗ[ℚ] Matrix ι ι K where
  toFun A := Matrix.of fun i j => if μ.cls i j = p then A i j else 0
  map_add' A B := by
    ext i j
    by_cases h : μ.cls i j = p <;> simp [h]
  map_smul' q A := by
    ext i j
    by_cases h : μ.cls i j = p <;> simp [h]

theorem maskMap_apply (p : Part) (A : Matrix ι ι K) (i j : ι) : maskMap μ p A i j = if μ.cls i j = p then A i j else 0 := rfl

theorem sel_rem (p : Part) : isSel p ∨ isRem p := by cases p <;> simp [isSel, isRem]
theorem not_sel_rem (p : Part) : isSel p → isRem p → False := by cases p <;> simp [isSel, isRem]

/-- the block structure on matrices defined by an entry classification -/
@[reducible] noncomputable def coeffBlocks : CoeffBlocks (Matrix ι ι K) where
  Q := maskMap μ
  Q_sum A := by
    ext i j
    simp only [Matrix.add_apply, maskMap_apply]
    cases h : μ.cls i j <;> simp
  Q_comp p q A := by
    ext i j
    by_cases hpq : p = q
    · subst hpq; by_cases h : μ.cls i j = p <;> simp [maskMap_apply, h]
    · by_cases h1 : μ.cls i j = p
      · have : ¬ μ.cls i j = q := fun h2 => hpq (h1.symm.trans h2)
        simp [maskMap_apply, h1, this, hpq]
      · simp [maskMap_apply, h1, hpq]
  Q_star p A := by
    ext i j
    rw [Matrix.star_apply, maskMap_apply, maskMap_apply, Matrix.star_apply, μ.cls_sw i j]
    by_cases h : μ.cls i j = p.sw
    · have h' : (μ.cls i j).sw = p := by rw [h, PV.sw_sw]
      rw [if_pos h', if_pos h]
    · have h' : ¬ (μ.cls i j).sw = p := by
        intro h2; apply h; rw [← h2, PV.sw_sw]
      rw [if_neg h', if_neg h, star_zero]
  comm_left A B := by
    ext i k
    rw [maskMap_apply]
    by_cases hk : μ.cls i k = kc
    · simp only [hk, if_true, Matrix.mul_apply, Matrix.zero_apply]
      apply Finset.sum_eq_zero
      intro j _
      simp only [Matrix.add_apply, maskMap_apply]
      by_cases hr : isRem (μ.cls i j)
      · by_cases hs : isSel (μ.cls j k)
        · exact (μ.comm_l i j k hk hr hs).elim
        · have h1 : ¬ μ.cls j k = kc := fun h => hs (Or.inl h)
          have h2 : ¬ μ.cls j k = kn := fun h => hs (Or.inr h)
          simp [h1, h2]
      · have h1 : ¬ μ.cls i j = up := fun h => hr (Or.inl h)
        have h2 : ¬ μ.cls i j = lo := fun h => hr (Or.inr (Or.inl h))
        have h3 : ¬ μ.cls i j = ed := fun h => hr (Or.inr (Or.inr h))
        simp [h1, h2, h3]
    · simp [hk]
  comm_right A B := by
    ext i k
    rw [maskMap_apply]
    by_cases hk : μ.cls i k = kc
    · simp only [hk, if_true, Matrix.mul_apply, Matrix.zero_apply]
      apply Finset.sum_eq_zero
      intro j _
      simp only [Matrix.add_apply, maskMap_apply]
      by_cases hs : isSel (μ.cls i j)
      · by_cases hr : isRem (μ.cls j k)
        · exact (μ.comm_r i j k hk hs hr).elim
        · have h1 : ¬ μ.cls j k = up := fun h => hr (Or.inl h)
          have h2 : ¬ μ.cls j k = lo := fun h => hr (Or.inr (Or.inl h))
          have h3 : ¬ μ.cls j k = ed := fun h => hr (Or.inr (Or.inr h))
          simp [h1, h2, h3]
      · have h1 : ¬ μ.cls i j = kc := fun h => hs (Or.inl h)
        have h2 : ¬ μ.cls i j = kn := fun h => hs (Or.inr h)
        simp [h1, h2]
    · simp [hk]


/-- (possibly complex) energies; the energies of every eliminated pair differ -/
structure EnergiesNH (K : Type*) [Field K] [StarRing K] where
  E : ι → K
  gapE : ∀ i j, isRem (μ.cls i j) → E i ≠ E j

/-- real energies (Hermitian case) -/
structure Energies (K : Type*) [Field K] [StarRing K] extends EnergiesNH μ K where
  E_real : ∀ i, star (E i) = E i

variable {μ}

theorem not_rem_diag (i : ι) : ¬ isRem (μ.cls i i) := fun h => not_sel_rem _ (μ.cls_diag i) h

theorem diag_entry (en : EnergiesNH μ K) (p : Part) (hp : isRem p) (i j : ι) :
    (if μ.cls i j = p then (Matrix.diagonal en.E : Matrix ι ι K) i j else 0) = 0 := by
  by_cases h : μ.cls i j = p
  · rw [if_pos h]
    by_cases hij : i = j
    · subst hij; rw [← h] at hp; exact (not_rem_diag i hp).elim
    · exact Matrix.diagonal_apply_ne _ hij
  · rw [if_neg h]

/-- H0 = diag(E) and the entry-wise solver of `solve_sylvester_diagonal` -/
noncomputable def coeffUnperturbedNH (en : EnergiesNH μ K) :
    @CoeffUnperturbedNH (Matrix ι ι K) _ _ _ _ (coeffBlocks μ) :=
  letI := coeffBlocks (K := K) μ
  { H0 := Matrix.diagonal en.E
    H0_up := by ext i j; exact diag_entry en up (Or.inl rfl) i j
    H0_lo := by ext i j; exact diag_entry en lo (Or.inr (Or.inl rfl)) i j
    H0_ed := by ext i j; exact diag_entry en ed (Or.inr (Or.inr rfl)) i j
    H0_left := by
      intro p A
      ext i j
      show (if μ.cls i j = p then (Matrix.diagonal en.E * A) i j else 0) = (Matrix.diagonal en.E * maskMap μ p A) i j
      rw [Matrix.diagonal_mul, Matrix.diagonal_mul, maskMap_apply]
      by_cases h : μ.cls i j = p <;> simp [h]
    H0_right := by
      intro p A
      ext i j
      show (if μ.cls i j = p then (A * Matrix.diagonal en.E) i j else 0) = (maskMap μ p A * Matrix.diagonal en.E) i j
      rw [Matrix.mul_diagonal, Matrix.mul_diagonal, maskMap_apply]
      by_cases h : μ.cls i j = p <;> simp [h]
    Sy := fun z => Matrix.of fun i j => if isRem (μ.cls i j) then z i j / (en.E i - en.E j) else 0
    Sy_zero := by ext i j; simp
    Sy_up := by
      intro z
      ext i j
      show (if μ.cls i j = up then _ else 0) = (if μ.cls i j = up then z i j else 0)
      by_cases h : μ.cls i j = up
      · have hr : isRem (μ.cls i j) := Or.inl h
        have hne : en.E i - en.E j ≠ 0 := sub_ne_zero.mpr (en.gapE i j hr)
        rw [if_pos h, if_pos h, Matrix.sub_apply, Matrix.diagonal_mul, Matrix.mul_diagonal]
        simp only [Matrix.of_apply, if_pos hr]
        field_simp
      · rw [if_neg h, if_neg h]
    Sy_ed := by
      intro z
      ext i j
      show (if μ.cls i j = ed then _ else 0) = (if μ.cls i j = ed then z i j else 0)
      by_cases h : μ.cls i j = ed
      · have hr : isRem (μ.cls i j) := Or.inr (Or.inr h)
        have hne : en.E i - en.E j ≠ 0 := sub_ne_zero.mpr (en.gapE i j hr)
        rw [if_pos h, if_pos h, Matrix.sub_apply, Matrix.diagonal_mul, Matrix.mul_diagonal]
        simp only [Matrix.of_apply, if_pos hr]
        field_simp
      · rw [if_neg h, if_neg h]
    Sy_lo := by
      intro z
      ext i j
      show (if μ.cls i j = lo then _ else 0) = (if μ.cls i j = lo then z i j else 0)
      by_cases h : μ.cls i j = lo
      · have hr : isRem (μ.cls i j) := Or.inr (Or.inl h)
        have hne : en.E i - en.E j ≠ 0 := sub_ne_zero.mpr (en.gapE i j hr)
        rw [if_pos h, if_pos h, Matrix.sub_apply, Matrix.diagonal_mul, Matrix.mul_diagonal]
        simp only [Matrix.of_apply, if_pos hr]
        field_simp
      · rw [if_neg h, if_neg h] }

theorem Sy_apply (en : EnergiesNH μ K) (z : Matrix ι ι K) (i j : ι) :
    (@CoeffUnperturbedNH.Sy (Matrix ι ι K) _ _ _ _ (coeffBlocks μ) (coeffUnperturbedNH en)) z i j
      = if isRem (μ.cls i j) then z i j / (en.E i - en.E j) else 0 := rfl

/-- Hermitian case: real energies -/
noncomputable def coeffUnperturbed (en : Energies μ K) :
    @CoeffUnperturbed (Matrix ι ι K) _ _ _ _ (coeffBlocks μ) :=
  letI := coeffBlocks (K := K) μ
  { toCoeffUnperturbedNH := coeffUnperturbedNH en.toEnergiesNH
    H0_star := by
      show star (Matrix.diagonal en.E) = Matrix.diagonal en.E
      ext i j
      rw [Matrix.star_apply]
      by_cases h : i = j
      · subst h; rw [Matrix.diagonal_apply_eq, en.E_real]
      · rw [Matrix.diagonal_apply_ne _ h, Matrix.diagonal_apply_ne _ (Ne.symm h), star_zero]
    Sy_ed_star := by
      intro z
      ext i j
      show (if μ.cls i j = ed then _ else 0) = - (if μ.cls i j = ed then _ else 0)
      by_cases h : μ.cls i j = ed
      · have hji : μ.cls j i = ed := by rw [μ.cls_sw i j, h]; rfl
        have hr : isRem (μ.cls i j) := Or.inr (Or.inr h)
        have hr' : isRem (μ.cls j i) := Or.inr (Or.inr hji)
        have hne : en.E i - en.E j ≠ 0 := sub_ne_zero.mpr (en.gapE i j hr)
        have hne' : en.E j - en.E i ≠ 0 := sub_ne_zero.mpr (en.gapE j i hr')
        rw [if_pos h, if_pos h, Matrix.star_apply, Sy_apply, Sy_apply, if_pos hr', if_pos hr, Matrix.star_apply]
        rw [star_div₀, star_sub, en.E_real, en.E_real]
        field_simp
        ring
      · rw [if_neg h, if_neg h, neg_zero] }

/-- coefficient-level gap: a matrix without kept entries that commutes with diag(E) vanishes -/
theorem coeff_gap (en : EnergiesNH μ K) (x : Matrix ι ι K)
    (hs : maskMap μ kc x + maskMap μ kn x = 0) (hc : Matrix.diagonal en.E * x - x * Matrix.diagonal en.E = 0) : x = 0 := by
  ext i j
  rcases sel_rem (μ.cls i j) with h | h
  · have := congrFun (congrFun hs i) j
    simp only [Matrix.add_apply, maskMap_apply, Matrix.zero_apply] at this
    rcases h with h | h
    · have hn : ¬ μ.cls i j = kn := by rw [h]; decide
      simpa [h, hn] using this
    · have hn : ¬ μ.cls i j = kc := by rw [h]; decide
      simpa [h, hn] using this
  · have := congrFun (congrFun hc i) j
    rw [Matrix.sub_apply, Matrix.diagonal_mul, Matrix.mul_diagonal, Matrix.zero_apply] at this
    have hne : en.E i - en.E j ≠ 0 := sub_ne_zero.mpr (en.gapE i j h)
    have h2 : (en.E i - en.E j) * x i j = 0 := by rw [← this]; ring
    rcases mul_eq_zero.mp h2 with h3 | h3
    · exact (hne h3).elim
    · simpa using h3

end PV.MatrixModel
