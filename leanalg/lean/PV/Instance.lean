/-
  Vacuity guard: the hypotheses classes of the development (Filtered, Blocks, TwoBlocks, Unperturbed, Gapped) are jointly
  satisfiable.  The witness is the degenerate one-level system: A = ℚ, everything of order zero, a single kept part.
  (It says nothing about perturbation theory; it only shows that no theorem of this development is vacuous because of
  contradictory class axioms.)
-/
import PV.TwoBlockCor
import PV.UniqueNH

namespace PV.Inst
open Filtered Blocks Part

noncomputable instance filt : Filtered ℚ where
  I := fun n => if n = 0 then ⊤ else ⊥
  I_zero := by simp
  I_anti := by
    intro n
    by_cases h : n = 0 <;> simp [h]
  I_mul := by
    intro m n a b ha hb
    by_cases hm : m = 0
    · by_cases hn : n = 0
      · simp [hm, hn]
      · have : b = 0 := by simpa [hn] using hb
        simp [hm, hn, this]
    · have : a = 0 := by simpa [hm] using ha
      simp [this]
  I_star := by
    intro n a ha
    simpa using ha
  I_sep := by
    intro a h
    have := h 1
    simpa using this

theorem mem_I_succ {n : ℕ} {a : ℚ} : a ∈ I (A := ℚ) (n + 1) ↔ a = 0 := by
  show a ∈ (if n + 1 = 0 then (⊤ : Submodule ℚ ℚ) else ⊥) ↔ a = 0
  simp

noncomputable instance blocks : Blocks ℚ where
  P := fun p => if p = kc then LinearMap.id else 0
  P_sum := by intro a; simp
  P_comp := by
    intro i j a
    by_cases hi : i = kc <;> by_cases hj : j = kc <;> simp [hi, hj]
  P_star := by
    intro i a
    cases i <;> simp [Part.sw]
  P_mem := by
    intro i n a ha
    by_cases hi : i = kc <;> simp [hi, ha]
  tl := 0
  tl_mem := by intro a; simp
  tl_of_mem := by
    intro a ha
    have : a = 0 := mem_I_succ.mp ha
    simp [this]
  tl_P := by intro i a; simp
  tl_star := by intro a; simp
  comm_left := by intro a b; simp
  comm_right := by intro a b; simp

instance twoBlocks : TwoBlocks ℚ where
  ed_zero := by intro a; simp [Blocks.P]
  kn_zero := by intro a; simp [Blocks.P]
  DD := by intro a b; simp [Blocks.P]
  DO := by intro a b; simp [Blocks.P]
  OD := by intro a b; simp [Blocks.P]
  OO := by intro a b; simp [Blocks.P]

/-- an unperturbed Hamiltonian with any rational energy and the zero solver (nothing is eliminated) -/
noncomputable def unperturbed (q : ℚ) : Unperturbed ℚ where
  H0 := q
  H0_star := by simp
  H0_up := by simp [Blocks.P]
  H0_lo := by simp [Blocks.P]
  H0_ed := by simp [Blocks.P]
  H0_left := by intro i a; by_cases hi : i = kc <;> simp [Blocks.P, hi]
  H0_right := by intro i a; by_cases hi : i = kc <;> simp [Blocks.P, hi]
  Sy := fun _ => 0
  Sy_mem := by intro n z hz; simp
  Sy_up := by intro z; simp [Blocks.P]
  Sy_ed := by intro z; simp [Blocks.P]
  Sy_lo := by intro z; simp [Blocks.P]
  Sy_ed_star := by intro z; simp [Blocks.P]

theorem gapped (q : ℚ) : Gapped (unperturbed q).H0 := by
  intro n v hv hs _
  have : v = 0 := by
    have h : Sel v = v := by simp [Sel, Blocks.P]
    rw [h] at hs; exact hs
  rw [this]; exact Submodule.zero_mem _

end PV.Inst
