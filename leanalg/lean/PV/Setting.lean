/-
  Block structure on the filtered ring: five complementary parts of an element
    up  : blocks above the block diagonal
    lo  : blocks below the block diagonal
    kc  : kept (selected) part of diagonal blocks whose `commuting_blocks` flag is set
    kn  : kept part of the other diagonal blocks
    ed  : part of diagonal blocks selected for elimination
  plus the zeroth-order truncation `tl`, the unperturbed Hamiltonian and the Sylvester solver.
  Every field is either an algebraic fact about block series (C18 bridge) or a call-site
  obligation discharged on the real code by PyVC (listed in DESIGN.md, C01).
-/
import PV.Basic

namespace PV

inductive Part | up | lo | kc | kn | ed
  deriving DecidableEq, Repr

namespace Part
/-- adjoint exchanges upper and lower blocks -/
def sw : Part → Part
  | up => lo
  | lo => up
  | p => p
end Part

open Filtered Part

class Blocks (A : Type*) [Ring A] [StarRing A] [Algebra ℚ A] [StarModule ℚ A] [Filtered A] where
  P : Part → A →ₗ[ℚ] A
  P_sum : ∀ a : A, P up a + P lo a + P kc a + P kn a + P ed a = a
  P_comp : ∀ (i j : Part) (a : A), P i (P j a) = if i = j then P j a else 0
  P_star : ∀ (i : Part) (a : A), star (P i a) = P i.sw (star a)
  P_mem : ∀ (i : Part) {n : ℕ} {a : A}, a ∈ I (A := A) n → P i a ∈ I (A := A) n
  /-- zeroth-order truncation: removes the order-0 term -/
  tl : A →ₗ[ℚ] A
  tl_mem : ∀ a : A, tl a ∈ I (A := A) 1
  tl_of_mem : ∀ {a : A}, a ∈ I (A := A) 1 → tl a = a
  tl_P : ∀ (i : Part) (a : A), tl (P i a) = P i (tl a)
  tl_star : ∀ a : A, tl (star a) = star (tl a)
  /-- products of an eliminated/off-diagonal part with a kept part have no kept element inside
      blocks whose commuting flag is set (call-site obligation of `commuting_blocks`) -/
  comm_left : ∀ a b : A, P kc ((P up a + P lo a + P ed a) * (P kc b + P kn b)) = 0
  comm_right : ∀ a b : A, P kc ((P kc b + P kn b) * (P up a + P lo a + P ed a)) = 0

variable {A : Type*} [Ring A] [StarRing A] [Algebra ℚ A] [StarModule ℚ A] [Filtered A] [Blocks A]

open Blocks

/-- kept (selected) part -/
def Sel (a : A) : A := P kc a + P kn a
/-- remaining (eliminated) part -/
def Rem (a : A) : A := P up a + P lo a + P ed a

theorem Sel_add_Rem (a : A) : Sel a + Rem a = a := by
  unfold Sel Rem
  have h := P_sum a
  calc P kc a + P kn a + (P up a + P lo a + P ed a)
      = P up a + P lo a + P kc a + P kn a + P ed a := by abel
    _ = a := h

theorem parts_ext {a b : A} (h : ∀ i : Part, P i a = P i b) : a = b := by
  rw [← P_sum a, ← P_sum b, h up, h lo, h kc, h kn, h ed]

theorem P_idem (i : Part) (a : A) : P i (P i a) = P i a := by
  rw [P_comp]; simp

theorem P_orth {i j : Part} (h : i ≠ j) (a : A) : P i (P j a) = 0 := by
  rw [P_comp]; simp [h]

/-- The unperturbed Hamiltonian and the Sylvester solver supplied by `block_diagonalize` (no adjoint facts:
    enough for the non-Hermitian algorithm, complex energies allowed). -/
structure UnperturbedNH (A : Type*) [Ring A] [StarRing A] [Algebra ℚ A] [StarModule ℚ A] [Filtered A] [Blocks A] where
  H0 : A
  /-- `H0` has only kept (selected) elements: it is block diagonal (checked by block_diagonalize)
      and diagonal inside blocks that carry an elimination mask -/
  H0_up : P Part.up H0 = 0
  H0_lo : P Part.lo H0 = 0
  H0_ed : P Part.ed H0 = 0
  /-- `H0` is block diagonal and diagonal inside masked blocks: it commutes with taking parts -/
  H0_left : ∀ (i : Part) (a : A), P i (H0 * a) = H0 * P i a
  H0_right : ∀ (i : Part) (a : A), P i (a * H0) = P i a * H0
  Sy : A → A
  Sy_mem : ∀ {n : ℕ} {z : A}, z ∈ I (A := A) n → Sy z ∈ I (A := A) n
  /-- the solver solves `H0 V - V H0 = z` on upper blocks and on eliminated diagonal elements -/
  Sy_up : ∀ z : A, P up (H0 * Sy z - Sy z * H0) = P up z
  Sy_ed : ∀ z : A, P ed (H0 * Sy z - Sy z * H0) = P ed z
  /-- lower blocks are solved directly only by the non-Hermitian algorithm -/
  Sy_lo : ∀ z : A, P lo (H0 * Sy z - Sy z * H0) = P lo z

/-- Hermitian case: `H0` is self-adjoint and the solver is adjoint-compatible on diagonal blocks. -/
structure Unperturbed (A : Type*) [Ring A] [StarRing A] [Algebra ℚ A] [StarModule ℚ A] [Filtered A] [Blocks A]
    extends UnperturbedNH A where
  H0_star : star H0 = H0
  /-- on diagonal blocks the solution of an adjoint right-hand side is minus the adjoint -/
  Sy_ed_star : ∀ z : A, P ed (star (Sy z)) = - P ed (Sy (star z))

end PV
