/- Corollaries for the two-block-optimised variant: least-action characterisation, uniqueness, naturality. -/
import PV.TwoBlock
import PV.Unique

namespace PV
open Filtered Blocks Part

namespace TB
section
variable {A : Type*} [Ring A] [StarRing A] [Algebra ℚ A] [StarModule ℚ A] [Filtered A] [Blocks A] [TwoBlocks A]
variable {u : Unperturbed A} (e : MainEqs2b A u)

theorem code_least_action : LeastAction e.H e.U e.H_tilde := PV.code_least_action (toMain e)

theorem C03_unique (hg : Gapped u.H0) {U Ht : A} (h : LeastAction e.H U Ht) : U = e.U ∧ Ht = e.H_tilde :=
  PV.C03_unique hg (toMain e) h

/-- the optimised and the general variant compute the same series -/
theorem same_as_general (hg : Gapped u.H0) (m : MainEqs A u) (hH : m.H = e.H) :
    m.U = e.U ∧ m.H_tilde = e.H_tilde := by
  have h := PV.code_least_action m
  rw [hH] at h
  exact C03_unique e hg h
end

section
variable {A : Type*} [Ring A] [StarRing A] [Algebra ℚ A] [StarModule ℚ A] [Filtered A] [Blocks A] [TwoBlocks A]
variable {A' : Type*} [Ring A'] [StarRing A'] [Algebra ℚ A'] [StarModule ℚ A'] [Filtered A'] [Blocks A'] [TwoBlocks A']

theorem natural {u : Unperturbed A} {u' : Unperturbed A'} (φ : A →+* A')
    (hstar : ∀ a : A, φ (star a) = star (φ a)) (hSel : ∀ a : A, φ (Sel a) = Sel (φ a))
    (hI : ∀ a : A, a ∈ I (A := A) 1 → φ a ∈ I (A := A') 1)
    (hg : Gapped u'.H0) (e : MainEqs2b A u) (e' : MainEqs2b A' u') (hH : e'.H = φ e.H) :
    e'.U = φ e.U ∧ e'.H_tilde = φ e.H_tilde ∧ e'.Ud = φ e.Ud :=
  PV.natural φ hstar hSel hI hg (toMain e) (toMain e') hH
end
end TB

end PV
