/-
  Uniqueness of the least-action block-diagonalising unitary and naturality of the algorithm's
  output (T-uniq, T-nat of DESIGN.md).  The characterisation refers only to the split
  kept / eliminated (`Sel` / `Rem`), not to upper / lower blocks or to the solver, so every
  structure-preserving map of the setting (relabelling of blocks, change of eigenbasis,
  conjugation, rescaling or merging of perturbation parameters, embedding into a larger
  space, restriction to a direct summand) carries outputs to outputs.
-/
import PV.MainProof

namespace PV
open Filtered Blocks Part

section Char
variable {A : Type*} [Ring A] [StarRing A] [Algebra ℚ A] [StarModule ℚ A] [Filtered A] [Blocks A]

/-- `U` is a least-action block-diagonalising unitary of `H`, with transformed Hamiltonian `Ht`. -/
structure LeastAction (H U Ht : A) : Prop where
  U_mem : U - 1 ∈ I (A := A) 1
  unit_left : star U * U = 1
  sim : star U * H * U = Ht
  elim : Rem Ht = 0
  gauge : Sel (U - star U) = 0

/-- Gap condition on `H0`: order by order, the Sylvester operator `v ↦ H0 v - v H0` is injective on
    elements without kept part.  For a diagonal `H0` this says that the energies of every eliminated
    pair differ; it is what the mask obligations of `block_diagonalize` establish
    (`mask:eliminated-implies-solver-divides`). -/
def Gapped (H0 : A) : Prop :=
  ∀ (n : ℕ) (v : A), v ∈ I (A := A) n → Sel v = 0 → H0 * v - v * H0 ∈ I (A := A) (n + 1) → v ∈ I (A := A) (n + 1)

theorem Rem_eq (a : A) : Rem a = a - Sel a := by
  have h := Sel_add_Rem a
  rw [eq_sub_iff_add_eq, add_comm]; exact h

theorem Sel_mem {n : ℕ} {a : A} (h : a ∈ I (A := A) n) : Sel a ∈ I (A := A) n :=
  Submodule.add_mem _ (P_mem _ h) (P_mem _ h)

theorem Rem_mem {n : ℕ} {a : A} (h : a ∈ I (A := A) n) : Rem a ∈ I (A := A) n :=
  Submodule.add_mem _ (Submodule.add_mem _ (P_mem _ h) (P_mem _ h)) (P_mem _ h)

theorem Sel_Rem (a : A) : Sel (Rem a) = 0 := by
  unfold Sel Rem
  simp only [map_add, P_comp]
  simp

theorem Sel_sub (a b : A) : Sel (a - b) = Sel a - Sel b := by
  unfold Sel; rw [map_sub, map_sub]; abel

theorem Rem_sub (a b : A) : Rem (a - b) = Rem a - Rem b := by
  unfold Rem; rw [map_sub, map_sub, map_sub]; abel

theorem Sel_add (a b : A) : Sel (a + b) = Sel a + Sel b := by
  unfold Sel; rw [map_add, map_add]; abel

theorem Sel_smul (q : ℚ) (a : A) : Sel (q • a) = q • Sel a := by
  unfold Sel; rw [map_smul, map_smul, smul_add]

theorem Rem_comm (u : UnperturbedNH A) (a : A) : Rem (u.H0 * a - a * u.H0) = u.H0 * Rem a - Rem a * u.H0 := by
  unfold Rem
  simp only [map_sub, u.H0_left, u.H0_right]
  noncomm_ring

theorem mem_zero (a : A) : a ∈ I (A := A) 0 := by rw [I_zero]; trivial

theorem mul_mem_left' {n : ℕ} (c : A) {d : A} (hd : d ∈ I (A := A) n) : c * d ∈ I (A := A) n := by
  have := I_mul (A := A) (mem_zero c) hd
  rwa [Nat.zero_add] at this

theorem mul_mem_right' {n : ℕ} (c : A) {d : A} (hd : d ∈ I (A := A) n) : d * c ∈ I (A := A) n := by
  have := I_mul (A := A) hd (mem_zero c)
  rwa [Nat.add_zero] at this

/-- one step of the contraction: if two least-action unitaries of the same `H` agree below order `n`,
    they agree below order `n + 1` -/
theorem lsa_step (u : UnperturbedNH A) (hg : Gapped u.H0) {H U1 U2 Ht1 Ht2 : A} (hH : H - u.H0 ∈ I (A := A) 1)
    (h1 : LeastAction H U1 Ht1) (h2 : LeastAction H U2 Ht2) (n : ℕ) (hn : U1 - U2 ∈ I (A := A) n) :
    U1 - U2 ∈ I (A := A) (n + 1) := by
  set δ := U1 - U2 with hδ
  set a := U1 - 1 with ha
  set b := U2 - 1 with hb
  set h := H - u.H0 with hh
  have hU1 : U1 = 1 + a := by rw [ha]; abel
  have hU2 : U2 = 1 + b := by rw [hb]; abel
  have hHs : H = u.H0 + h := by rw [hh]; abel
  have ham : a ∈ I (A := A) 1 := h1.U_mem
  have hbm : b ∈ I (A := A) 1 := h2.U_mem
  have hsδ : star δ ∈ I (A := A) n := I_star hn
  -- unitarity: the Hermitian part of δ is of higher order
  have hr : star δ + δ ∈ I (A := A) (n + 1) := by
    have e0 : star δ * U1 + star U2 * δ = 0 := by
      have : star δ * U1 + star U2 * δ = star U1 * U1 - star U2 * U2 := by
        rw [hδ, star_sub]; noncomm_ring
      rw [this, h1.unit_left, h2.unit_left, sub_self]
    have e1 : star δ + δ = - (star δ * a + star b * δ) := by
      have : star δ * U1 + star U2 * δ = (star δ + δ) + (star δ * a + star b * δ) := by
        rw [hU1, hU2, star_add, star_one]; noncomm_ring
      rw [this] at e0
      exact eq_neg_of_add_eq_zero_left e0
    rw [e1]
    exact Submodule.neg_mem _ (Submodule.add_mem _ (mul_mem_succ_right ham hsδ) (mul_mem_succ_left (I_star hbm) hn))
  set r := star δ + δ with hrdef
  have hsd : star δ = r - δ := by rw [hrdef]; abel
  -- the transformed Hamiltonians differ by the commutator with H0, up to higher order
  have hc : (Ht1 - Ht2) - (u.H0 * δ - δ * u.H0) ∈ I (A := A) (n + 1) := by
    have e2 : Ht1 - Ht2 = star δ * H * U1 + star U2 * H * δ := by
      rw [← h1.sim, ← h2.sim, hδ, star_sub]; noncomm_ring
    have e3 : (Ht1 - Ht2) - (u.H0 * δ - δ * u.H0)
        = r * u.H0 + star δ * u.H0 * a + star δ * h * U1 + star b * u.H0 * δ + star U2 * h * δ := by
      rw [e2, hHs]
      have : star δ * (u.H0 + h) * U1 + star U2 * (u.H0 + h) * δ - (u.H0 * δ - δ * u.H0)
          = (star δ + δ) * u.H0 + star δ * u.H0 * (U1 - 1) + star δ * h * U1 + (star U2 - 1) * u.H0 * δ + star U2 * h * δ := by
        noncomm_ring
      rw [this, ← hrdef, ← ha]
      have : star U2 - 1 = star b := by rw [hb, star_sub, star_one]
      rw [this]
    rw [e3]
    have t1 : r * u.H0 ∈ I (A := A) (n + 1) := mul_mem_right' _ hr
    have t2 : star δ * u.H0 * a ∈ I (A := A) (n + 1) := mul_mem_succ_right ham (mul_mem_right' _ hsδ)
    have t3 : star δ * h * U1 ∈ I (A := A) (n + 1) := mul_mem_right' _ (mul_mem_succ_right hH hsδ)
    have t4 : star b * u.H0 * δ ∈ I (A := A) (n + 1) := by
      rw [mul_assoc]; exact mul_mem_succ_left (I_star hbm) (mul_mem_left' _ hn)
    have t5 : star U2 * h * δ ∈ I (A := A) (n + 1) := by
      rw [mul_assoc]; exact mul_mem_left' _ (mul_mem_succ_left hH hn)
    exact Submodule.add_mem _ (Submodule.add_mem _ (Submodule.add_mem _ (Submodule.add_mem _ t1 t2) t3) t4) t5
  -- eliminated part of δ
  have hrem : Rem δ ∈ I (A := A) (n + 1) := by
    apply hg n (Rem δ) (Rem_mem hn) (Sel_Rem δ)
    have := Rem_mem hc
    rw [Rem_sub, Rem_sub, h1.elim, h2.elim, sub_self, zero_sub, Rem_comm] at this
    have h3 := Submodule.neg_mem _ this
    rwa [neg_neg] at h3
  -- kept part of δ
  have hsel : Sel δ ∈ I (A := A) (n + 1) := by
    have g : Sel (δ - star δ) = 0 := by
      have : δ - star δ = (U1 - star U1) - (U2 - star U2) := by rw [hδ, star_sub]; abel
      rw [this, Sel_sub, h1.gauge, h2.gauge, sub_self]
    have e4 : δ - star δ = (2:ℚ) • δ - r := by rw [hsd]; module
    rw [e4, Sel_sub, Sel_smul] at g
    have e5 : Sel δ = ((1:ℚ)/2) • Sel r := by
      have : (2:ℚ) • Sel δ = Sel r := sub_eq_zero.mp g
      rw [← this, smul_smul]; norm_num
    rw [e5]
    exact Submodule.smul_mem _ _ (Sel_mem hr)
  rw [← Sel_add_Rem δ]
  exact Submodule.add_mem _ hsel hrem

/-- T-uniq: the least-action block-diagonalising unitary of `H` is unique -/
theorem lsa_unique (u : UnperturbedNH A) (hg : Gapped u.H0) {H U1 U2 Ht1 Ht2 : A} (hH : H - u.H0 ∈ I (A := A) 1)
    (h1 : LeastAction H U1 Ht1) (h2 : LeastAction H U2 Ht2) : U1 = U2 ∧ Ht1 = Ht2 := by
  have hU : U1 = U2 := by
    have : U1 - U2 = 0 := eq_zero_of_contraction _ (lsa_step u hg hH h1 h2)
    exact sub_eq_zero.mp this
  refine ⟨hU, ?_⟩
  rw [← h1.sim, ← h2.sim, hU]

/-- the output of `pymablock.algorithms.main` is a least-action block-diagonalising unitary (C01 + C02 + C03) -/
theorem code_least_action {u : Unperturbed A} (e : MainEqs A u) : LeastAction e.H e.U e.H_tilde where
  U_mem := by
    rw [U_eq]
    have : 1 + e.Up - 1 = e.Up := by abel
    rw [this]; exact Up_mem e
  unit_left := by rw [← C02_adjoint]; exact C02_unit_left e
  sim := by rw [← C02_adjoint]; exact C01_similarity e
  elim := by
    unfold Rem
    have h := C01_similarity e
    rw [← h, C01_eliminated e up (Or.inl rfl), C01_eliminated e lo (Or.inr (Or.inl rfl)),
      C01_eliminated e ed (Or.inr (Or.inr rfl))]
    simp
  gauge := by
    unfold Sel
    rw [C03_gauge e kc (Or.inl rfl), C03_gauge e kn (Or.inr rfl), add_zero]

theorem H_sub_H0_mem {u : Unperturbed A} (e : MainEqs A u) : e.H - u.H0 ∈ I (A := A) 1 := by
  have h := H_split e
  have : e.H - u.H0 = tl e.H := by rw [sub_eq_iff_eq_add]; rw [add_comm]; exact h
  rw [this]; exact tl_mem _

/-- C03 (uniqueness clause): any least-action unitary of `H` is the one the code computes -/
theorem C03_unique {u : Unperturbed A} (hg : Gapped u.H0) (e : MainEqs A u) {U Ht : A}
    (h : LeastAction e.H U Ht) : U = e.U ∧ Ht = e.H_tilde :=
  lsa_unique u.toUnperturbedNH hg (H_sub_H0_mem e) h (code_least_action e)

/-- shift covariance: adding a central self-adjoint kept element `z` (a multiple of the identity)
    to `H0` leaves `U` unchanged and shifts `H_tilde` by `z` -/
theorem shift_cov {u u' : Unperturbed A} (hg : Gapped u'.H0) (e : MainEqs A u) (e' : MainEqs A u') (z : A)
    (hz : ∀ a : A, z * a = a * z) (hzr : Rem z = 0)
    (hH : e'.H = e.H + z) : e'.U = e.U ∧ e'.H_tilde = e.H_tilde + z := by
  have hl := code_least_action e
  have hl' : LeastAction e'.H e.U (e.H_tilde + z) :=
    { U_mem := hl.U_mem
      unit_left := hl.unit_left
      sim := by
        rw [hH, mul_add, add_mul, hl.sim, ← hz, mul_assoc, hl.unit_left, mul_one]
      elim := by
        have : Rem (e.H_tilde + z) = Rem e.H_tilde + Rem z := by unfold Rem; simp only [map_add]; abel
        rw [this, hl.elim, hzr, add_zero]
      gauge := hl.gauge }
  have := lsa_unique u'.toUnperturbedNH hg (H_sub_H0_mem e') (code_least_action e') hl'
  exact this

/-- scale covariance: multiplying the whole Hamiltonian by a non-zero rational `s` leaves `U`
    unchanged and multiplies `H_tilde` by `s` -/
theorem scale_cov {u u' : Unperturbed A} (hg : Gapped u'.H0) (e : MainEqs A u) (e' : MainEqs A u') (s : ℚ)
    (hH : e'.H = s • e.H) : e'.U = e.U ∧ e'.H_tilde = s • e.H_tilde := by
  have hl := code_least_action e
  have hl' : LeastAction e'.H e.U (s • e.H_tilde) :=
    { U_mem := hl.U_mem
      unit_left := hl.unit_left
      sim := by rw [hH, mul_smul_comm, smul_mul_assoc, hl.sim]
      elim := by
        have : Rem (s • e.H_tilde) = s • Rem e.H_tilde := by unfold Rem; simp only [map_smul, smul_add]
        rw [this, hl.elim, smul_zero]
      gauge := hl.gauge }
  exact lsa_unique u'.toUnperturbedNH hg (H_sub_H0_mem e') (code_least_action e') hl'

end Char

section Nat
variable {A : Type*} [Ring A] [StarRing A] [Algebra ℚ A] [StarModule ℚ A] [Filtered A] [Blocks A]
variable {A' : Type*} [Ring A'] [StarRing A'] [Algebra ℚ A'] [StarModule ℚ A'] [Filtered A'] [Blocks A']

/-- T-nat: a star ring homomorphism that respects the kept / eliminated split and the order filtration
    (at level one) carries the outputs for `H` to the outputs for `φ H`. -/
theorem natural {u : Unperturbed A} {u' : Unperturbed A'} (φ : A →+* A')
    (hstar : ∀ a : A, φ (star a) = star (φ a)) (hSel : ∀ a : A, φ (Sel a) = Sel (φ a))
    (hI : ∀ a : A, a ∈ I (A := A) 1 → φ a ∈ I (A := A') 1)
    (hg : Gapped u'.H0) (e : MainEqs A u) (e' : MainEqs A' u') (hH : e'.H = φ e.H) :
    e'.U = φ e.U ∧ e'.H_tilde = φ e.H_tilde ∧ e'.Ud = φ e.Ud := by
  have hl := code_least_action e
  have hRem : ∀ a : A, φ (Rem a) = Rem (φ a) := by
    intro a; rw [Rem_eq, Rem_eq, map_sub, hSel]
  have hl' : LeastAction e'.H (φ e.U) (φ e.H_tilde) :=
    { U_mem := by
        have := hI _ hl.U_mem
        rwa [map_sub, map_one] at this
      unit_left := by rw [← hstar, ← map_mul, hl.unit_left, map_one]
      sim := by rw [hH, ← hstar, ← map_mul, ← map_mul, hl.sim]
      elim := by rw [← hRem, hl.elim, map_zero]
      gauge := by rw [← hstar, ← map_sub, ← hSel, hl.gauge, map_zero] }
  have h := lsa_unique u'.toUnperturbedNH hg (H_sub_H0_mem e') (code_least_action e') hl'
  refine ⟨h.1, h.2, ?_⟩
  rw [C02_adjoint e', C02_adjoint e, h.1, hstar]

end Nat

end PV
