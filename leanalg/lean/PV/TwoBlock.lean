/-
  The two-block-optimised variant of `pymablock.algorithms.main` (`two_block_optimized = True`: exactly two blocks and no
  `fully_diagonalize`).  Its equations differ from the general ones in `W` (upper part declared zero) and `Yadj`
  (upper part taken from `star X` alone).  We prove, for two blocks without masks (class `TwoBlocks`), that a solution of the
  optimised equations satisfies the general equations (`TB.toMain`), so every theorem about `MainEqs` applies to it.
  The first part of this file repeats the lemmas of PV/MainProof.lean that do not depend on the differing equations.
-/
import PV.MainProof

namespace PV
open Filtered Blocks Part

/-- two blocks, no elimination inside blocks, all blocks commuting: diagonal part `kc`, off-diagonal part `up + lo` -/
class TwoBlocks (A : Type*) [Ring A] [StarRing A] [Algebra ℚ A] [StarModule ℚ A] [Filtered A] [Blocks A] : Prop where
  ed_zero : ∀ a : A, P ed a = 0
  kn_zero : ∀ a : A, P kn a = 0
  /-- block-diagonal times block-diagonal is block-diagonal, etc. (2 x 2 block matrix multiplication) -/
  DD : ∀ a b : A, P kc (P kc a * P kc b) = P kc a * P kc b
  DO : ∀ a b : A, P kc (P kc a * (P up b + P lo b)) = 0
  OD : ∀ a b : A, P kc ((P up a + P lo a) * P kc b) = 0
  OO : ∀ a b : A, P kc ((P up a + P lo a) * (P up b + P lo b)) = (P up a + P lo a) * (P up b + P lo b)

namespace TB

variable {A : Type*} [Ring A] [StarRing A] [Algebra ℚ A] [StarModule ℚ A] [Filtered A] [Blocks A] [TwoBlocks A]
variable {u : Unperturbed A} (e : MainEqs2b A u)

open TwoBlocks


/-- perturbation `H' = H - H0` -/
abbrev Hp (e : MainEqs2b A u) : A := tl e.H

theorem H_split : e.H = u.H0 + tl e.H := by
  rw [← e.in_H_zeroth]; abel

theorem Hp_star : star (tl e.H) = tl e.H := by
  rw [← tl_star, e.in_H_star]

theorem Hd_eq : e.Hp_diag = P kc (tl e.H) + P kn (tl e.H) := by
  have h := P_sum e.Hp_diag
  rw [e.eq_Hp_diag_up, e.eq_Hp_diag_lo, e.eq_Hp_diag_kc, e.eq_Hp_diag_kn, e.eq_Hp_diag_ed] at h
  simp only [map_zero, zero_add, add_zero] at h
  exact h.symm

theorem Ho_eq : e.Hp_offdiag = P up (tl e.H) + P lo (tl e.H) + P ed (tl e.H) := by
  have h := P_sum e.Hp_offdiag
  rw [e.eq_Hp_offdiag_up, e.eq_Hp_offdiag_lo, e.eq_Hp_offdiag_kc, e.eq_Hp_offdiag_kn, e.eq_Hp_offdiag_ed] at h
  simp only [map_zero, zero_add, add_zero] at h
  exact h.symm

theorem Hd_add_Ho : e.Hp_diag + e.Hp_offdiag = tl e.H := by
  rw [Hd_eq, Ho_eq]
  have h := P_sum (tl e.H)
  calc P kc (tl e.H) + P kn (tl e.H) + (P up (tl e.H) + P lo (tl e.H) + P ed (tl e.H))
      = P up (tl e.H) + P lo (tl e.H) + P kc (tl e.H) + P kn (tl e.H) + P ed (tl e.H) := by abel
    _ = tl e.H := h

theorem Hd_mem : e.Hp_diag ∈ I (A := A) 1 := by
  rw [Hd_eq]; exact Submodule.add_mem _ (P_mem _ (tl_mem _)) (P_mem _ (tl_mem _))

theorem Ho_mem : e.Hp_offdiag ∈ I (A := A) 1 := by
  rw [Ho_eq]
  exact Submodule.add_mem _ (Submodule.add_mem _ (P_mem _ (tl_mem _)) (P_mem _ (tl_mem _))) (P_mem _ (tl_mem _))

theorem Hd_star : star e.Hp_diag = e.Hp_diag := by
  rw [Hd_eq, star_add, P_star, P_star, Hp_star]; rfl

theorem Ho_star : star e.Hp_offdiag = e.Hp_offdiag := by
  rw [Ho_eq, star_add, star_add, P_star, P_star, P_star, Hp_star]
  simp only [sw_up, sw_lo, sw_ed]
  abel


/-! memberships in `I 1` (all auxiliary series start at zero) -/

theorem Ptl_mem (p : Part) (a : A) : P p (tl a) ∈ I (A := A) 1 := P_mem _ (tl_mem _)

theorem Y_mem : e.Yadj ∈ I (A := A) 1 := by
  apply mem_of_parts; intro p
  cases p
  · rw [e.eq_Yadj_up]; exact Ptl_mem _ _
  · rw [e.eq_Yadj_lo, e.eq_Yadj_up]; exact I_star (Ptl_mem _ _)
  · rw [e.eq_Yadj_kc]; exact Ptl_mem _ _
  · rw [e.eq_Yadj_kn]; exact Ptl_mem _ _
  · rw [e.eq_Yadj_ed]; exact Ptl_mem _ _

theorem V_mem : e.V ∈ I (A := A) 1 := by
  apply mem_of_parts; intro p
  cases p
  · rw [e.eq_V_up]; exact Ptl_mem _ _
  · rw [e.eq_V_lo, e.eq_V_up]; exact Submodule.neg_mem _ (I_star (Ptl_mem _ _))
  · rw [e.eq_V_kc]; exact Ptl_mem _ _
  · rw [e.eq_V_kn]; exact Ptl_mem _ _
  · rw [e.eq_V_ed]; exact Ptl_mem _ _

theorem W_mem : e.W ∈ I (A := A) 1 := by
  apply mem_of_parts; intro p
  cases p
  · rw [e.eq_W_up]; exact Ptl_mem _ _
  · rw [e.eq_W_lo, e.eq_W_up]; exact I_star (Ptl_mem _ _)
  · rw [e.eq_W_kc]; exact Ptl_mem _ _
  · rw [e.eq_W_kn]; exact Ptl_mem _ _
  · rw [e.eq_W_ed]; exact Ptl_mem _ _

theorem B_mem : e.B ∈ I (A := A) 1 := by
  apply mem_of_parts; intro p
  cases p
  · rw [e.eq_B_up]; exact Ptl_mem _ _
  · rw [e.eq_B_lo]; exact Ptl_mem _ _
  · rw [e.eq_B_kc]; exact Ptl_mem _ _
  · rw [e.eq_B_kn]; exact Ptl_mem _ _
  · rw [e.eq_B_ed]; exact Ptl_mem _ _

theorem Up_eq : e.Up = e.W + e.V := by
  have hW := W_mem e
  have hV := V_mem e
  have h := e.eq_Up
  rw [tl_of_mem (by mem_one)] at h
  exact h.trans (by first | rfl | abel)

theorem Up_mem : e.Up ∈ I (A := A) 1 := by
  rw [Up_eq]; exact Submodule.add_mem _ (W_mem e) (V_mem e)

theorem Upd_eq : e.Upd = e.W - e.V := e.eq_Upd.trans (by first | rfl | abel)

theorem Upd_mem : e.Upd ∈ I (A := A) 1 := by
  rw [Upd_eq]; exact Submodule.sub_mem _ (W_mem e) (V_mem e)

theorem X_mem : e.X ∈ I (A := A) 1 := by
  rw [e.eq_X]; exact tl_mem _

/-! `Yadj` is Hermitian, `V` anti-Hermitian (unconditionally) -/

theorem Y_star : star e.Yadj = e.Yadj := by
  apply parts_ext; intro p
  rw [P_of_star]
  cases p
  · simp only [sw_up]; rw [e.eq_Yadj_lo, star_star]
  · simp only [sw_lo]; rw [e.eq_Yadj_lo]
  · simp only [sw_kc]; rw [e.eq_Yadj_kc]; simp
  · simp only [sw_kn]; rw [e.eq_Yadj_kn, P_star, ← tl_star]
    refine P_congr _ (tl_congr ?_)
    simp only [star_add, star_smulq, star_star]; first | rfl | module
  · simp only [sw_ed]; rw [ed_zero, star_zero]

/-- right-hand side of the Sylvester equation for `V` -/
def Zr (e : MainEqs2b A u) : A := (star e.Yadj - e.V_x_Hp_diag) - star e.V_x_Hp_diag

theorem Zr_star : star (Zr e) = Zr e := by
  unfold Zr
  rw [star_sub, star_sub, star_star, star_star, Y_star e]
  abel

theorem VH_eq : e.V_x_Hp_diag = e.V * e.Hp_diag := e.prod_V_x_Hp_diag

theorem VH_mem : e.V_x_Hp_diag ∈ I (A := A) 1 := by rw [VH_eq]; exact mul_mem_one (V_mem e) (Hd_mem e)

theorem Zr_mem : Zr e ∈ I (A := A) 1 := by
  unfold Zr
  exact Submodule.sub_mem _ (Submodule.sub_mem _ (I_star (Y_mem e)) (VH_mem e)) (I_star (VH_mem e))

theorem V_part (p : Part) {F : A} (h : P p e.V = P p (tl F)) (hF : F = -(u.Sy (Zr e))) :
    P p e.V = - P p (u.Sy (Zr e)) := by
  have hs := u.Sy_mem (Zr_mem e)
  rw [h, hF, tl_of_mem (by mem_one), map_neg]

theorem Zr_gen {z : A} (h : z = Zr e) : -(u.Sy z) = -(u.Sy (Zr e)) := by rw [h]

theorem V_up : P up e.V = - P up (u.Sy (Zr e)) :=
  V_part e up e.eq_V_up (Zr_gen e (by unfold Zr; first | rfl | abel))

theorem V_ed : P ed e.V = - P ed (u.Sy (Zr e)) :=
  V_part e ed e.eq_V_ed (Zr_gen e (by unfold Zr; first | rfl | abel))

theorem V_star : star e.V = - e.V := by
  apply parts_ext; intro p
  rw [P_of_star, map_neg]
  cases p
  · simp only [sw_up]; rw [e.eq_V_lo, star_neg, star_star]
  · simp only [sw_lo]; rw [e.eq_V_lo, neg_neg]
  · simp only [sw_kc]; rw [e.eq_V_kc]; simp
  · simp only [sw_kn]; rw [e.eq_V_kn]; simp
  · simp only [sw_ed]
    rw [V_ed, star_neg, P_star, sw_ed, u.Sy_ed_star, Zr_star]

/-! ### T-adj: the series `U'†` is the adjoint of `U'` (contraction on the pairing defect) -/

theorem delta_eq : e.Upd - star e.Up = e.W - star e.W := by
  rw [Upd_eq, Up_eq, star_add, V_star]; abel

theorem W_sub_star : e.W - star e.W
    = P kc (tl (((1:ℚ)/(-2)) • (e.Upd_x_Up - star e.Upd_x_Up)))
    + P kn (tl (((1:ℚ)/(-2)) • (e.Upd_x_Up - star e.Upd_x_Up)))
    + P ed (tl (((1:ℚ)/(-2)) • (e.Upd_x_Up - star e.Upd_x_Up))) := by
  have hup : P up (e.W - star e.W) = 0 := by
    rw [map_sub, P_of_star]; simp only [sw_up]; rw [e.eq_W_lo, star_star, sub_self]
  have hlo : P lo (e.W - star e.W) = 0 := by
    rw [map_sub, P_of_star]; simp only [sw_lo]; rw [e.eq_W_lo, sub_self]
  have hk : ∀ (p : Part) (F : A), p.sw = p → P p e.W = P p (tl F) → F = ((1:ℚ)/(-2)) • e.Upd_x_Up →
      P p (e.W - star e.W) = P p (tl (((1:ℚ)/(-2)) • (e.Upd_x_Up - star e.Upd_x_Up))) := by
    intro p F hp h hF
    rw [map_sub, P_of_star, hp, h, hF, P_star, hp, ← tl_star, star_smulq, ← map_sub, ← map_sub, ← smul_sub]
  have h := P_sum (e.W - star e.W)
  rw [hup, hlo, hk kc _ rfl e.eq_W_kc (by first | rfl | module), kn_zero (e.W - star e.W), ed_zero (e.W - star e.W), zero_add, zero_add] at h
  rw [kn_zero, ed_zero]
  exact h.symm

theorem delta_mem_one : e.Upd - star e.Up ∈ I (A := A) 1 :=
  Submodule.sub_mem _ (Upd_mem e) (I_star (Up_mem e))

theorem herm_defect_step (n : ℕ) (h : e.Upd - star e.Up ∈ I (A := A) n) :
    e.Upd_x_Up - star e.Upd_x_Up ∈ I (A := A) (n + 1) := by
  set δ := e.Upd - star e.Up with hδ
  have hQ := e.hprod_Upd_x_Up n h
  have hsU : star e.Up = e.Upd - δ := by rw [hδ]; abel
  have hsUd : star e.Upd = e.Up + star δ := by rw [hδ, star_sub, star_star]; abel
  have key : e.Upd_x_Up - star e.Upd_x_Up
      = (e.Upd_x_Up - e.Upd * e.Up) - star (e.Upd_x_Up - e.Upd * e.Up)
        + (- (e.Upd * star δ) + δ * e.Up + δ * star δ) := by
    rw [star_sub, star_mul, hsU, hsUd]
    noncomm_ring
  rw [key]
  have h1 : e.Upd * star δ ∈ I (A := A) (n + 1) := mul_mem_succ_left (Upd_mem e) (I_star h)
  have h2 : δ * e.Up ∈ I (A := A) (n + 1) := mul_mem_succ_right (Up_mem e) h
  have h3 : δ * star δ ∈ I (A := A) (n + 1) := I_mul h (I_star (delta_mem_one e))
  exact Submodule.add_mem _ (Submodule.sub_mem _ hQ (I_star hQ))
    (Submodule.add_mem _ (Submodule.add_mem _ (Submodule.neg_mem _ h1) h2) h3)

theorem pairing : e.Upd = star e.Up := by
  have : e.Upd - star e.Up = 0 := by
    apply eq_zero_of_contraction
    intro n hn
    have hm := herm_defect_step e n hn
    have hm1 : ((1:ℚ)/(-2)) • (e.Upd_x_Up - star e.Upd_x_Up) ∈ I (A := A) (n + 1) := Submodule.smul_mem _ _ hm
    rw [delta_eq, W_sub_star, tl_of_mem (mem_one_of_succ hm1)]
    exact Submodule.add_mem _ (Submodule.add_mem _ (P_mem _ hm1) (P_mem _ hm1)) (P_mem _ hm1)
  exact sub_eq_zero.mp this

theorem W_star : star e.W = e.W := by
  have h := delta_eq e
  rw [pairing e, sub_self] at h
  exact (sub_eq_zero.mp h.symm).symm

theorem Up_star : star e.Up = e.Upd := (pairing e).symm

theorem Upd_star : star e.Upd = e.Up := by rw [pairing e, star_star]

/-- the Hermitian-flagged product is the plain product -/
theorem Pr_eq : e.Upd_x_Up = e.Upd * e.Up := by
  have : e.Upd_x_Up - e.Upd * e.Up = 0 := by
    apply I_sep; intro n
    have h0 : e.Upd - star e.Up ∈ I (A := A) n := by rw [pairing e, sub_self]; exact Submodule.zero_mem _
    exact I_anti _ (e.hprod_Upd_x_Up n h0)
  exact sub_eq_zero.mp this


/-! ### T-unit: `U† U = U U† = 1` -/

theorem Pr_mem : e.Upd_x_Up ∈ I (A := A) 1 := by
  rw [Pr_eq]; exact mem_I_of_le (by norm_num) (I_mul (Upd_mem e) (Up_mem e))

theorem Pr_star : star e.Upd_x_Up = e.Upd_x_Up := by
  rw [Pr_eq, star_mul, Up_star, Upd_star]

/-! #### grading: diagonal (`kc`) and off-diagonal (`up + lo`) elements -/

theorem three_parts (a : A) : P up a + P lo a + P kc a = a := by
  have h := P_sum a
  rw [kn_zero, ed_zero, add_zero, add_zero] at h
  exact h

/-- `a` is block diagonal -/
def IsD (a : A) : Prop := P kc a = a
/-- `a` is block off-diagonal -/
def IsO (a : A) : Prop := P up a + P lo a = a

theorem IsD.up {a : A} (h : IsD a) : P up a = 0 := by rw [← h, P_orth (by decide)]
theorem IsD.lo {a : A} (h : IsD a) : P lo a = 0 := by rw [← h, P_orth (by decide)]
theorem IsO.kc {a : A} (h : IsO a) : P kc a = 0 := by
  rw [← h, map_add, P_orth (by decide), P_orth (by decide), add_zero]

theorem isD_of (a : A) (hu : P up a = 0) (hl : P lo a = 0) : IsD a := by
  have h := three_parts a
  rw [hu, hl, zero_add, zero_add] at h
  exact h

theorem isO_of (a : A) (hk : P kc a = 0) : IsO a := by
  have h := three_parts a
  rw [hk, add_zero] at h
  exact h

theorem IsD.mul {a b : A} (ha : IsD a) (hb : IsD b) : IsD (a * b) := by
  unfold IsD at *; rw [← ha, ← hb]; exact DD a b
theorem IsD.mulO {a b : A} (ha : IsD a) (hb : IsO b) : IsO (a * b) := by
  apply isO_of; unfold IsD IsO at *; rw [← ha, ← hb]; exact DO a b
theorem IsO.mulD {a b : A} (ha : IsO a) (hb : IsD b) : IsO (a * b) := by
  apply isO_of; unfold IsD IsO at *; rw [← ha, ← hb]; exact OD a b
theorem IsO.mul {a b : A} (ha : IsO a) (hb : IsO b) : IsD (a * b) := by
  unfold IsD IsO at *; rw [← ha, ← hb]; exact OO a b

theorem IsD.add {a b : A} (ha : IsD a) (hb : IsD b) : IsD (a + b) := by
  unfold IsD at *; rw [map_add, ha, hb]
theorem IsD.sub {a b : A} (ha : IsD a) (hb : IsD b) : IsD (a - b) := by
  unfold IsD at *; rw [map_sub, ha, hb]
theorem IsO.sub {a b : A} (ha : IsO a) (hb : IsO b) : IsO (a - b) := by
  unfold IsO at *; rw [map_sub, map_sub]
  calc P up a - P up b + (P lo a - P lo b) = (P up a + P lo a) - (P up b + P lo b) := by abel
    _ = a - b := by rw [ha, hb]
theorem IsO.add {a b : A} (ha : IsO a) (hb : IsO b) : IsO (a + b) := by
  unfold IsO at *; rw [map_add, map_add]
  calc P up a + P up b + (P lo a + P lo b) = (P up a + P lo a) + (P up b + P lo b) := by abel
    _ = a + b := by rw [ha, hb]

theorem W_up0 : P up e.W = 0 := by rw [e.eq_W_up]; simp
theorem W_lo0 : P lo e.W = 0 := by rw [e.eq_W_lo, W_up0, star_zero]
theorem W_isD : IsD e.W := isD_of _ (W_up0 e) (W_lo0 e)
theorem V_isO : IsO e.V := isO_of _ (by rw [e.eq_V_kc]; simp)

/-- `W = -(W^2 - V^2)/2` (diagonal part of the unitarity condition) -/
theorem W_quad : e.W = ((1:ℚ)/(-2)) • (e.W * e.W - e.V * e.V) := by
  have hP := Pr_mem e
  have hW := W_isD e
  have hV := V_isO e
  have h1 : P kc e.W = P kc (((1:ℚ)/(-2)) • e.Upd_x_Up) := by
    rw [e.eq_W_kc]
    refine P_congr _ ((tl_of_mem (by mem_one)).trans ?_)
    first | rfl | module
  have hc : IsO (e.W * e.V - e.V * e.W) := IsO.sub (IsD.mulO hW hV) (IsO.mulD hV hW)
  have hd : IsD (e.W * e.W - e.V * e.V) := IsD.sub (IsD.mul hW hW) (IsO.mul hV hV)
  have hQ : e.Upd_x_Up = (e.W * e.W - e.V * e.V) + (e.W * e.V - e.V * e.W) := by
    rw [Pr_eq, Upd_eq, Up_eq]; noncomm_ring
  rw [hQ, map_smul, map_add, hd, IsO.kc hc, add_zero, hW] at h1
  exact h1

/-- `[W, V] = 0` (contraction) -/
theorem comm_WV : e.W * e.V - e.V * e.W = 0 := by
  apply eq_zero_of_contraction
  intro n hn
  have hq := W_quad e
  have h2 : (e.W * e.W - e.V * e.V) * e.V - e.V * (e.W * e.W - e.V * e.V)
      = e.W * (e.W * e.V - e.V * e.W) + (e.W * e.V - e.V * e.W) * e.W := by noncomm_ring
  have key : e.W * e.V - e.V * e.W = ((1:ℚ)/(-2)) • (e.W * (e.W * e.V - e.V * e.W) + (e.W * e.V - e.V * e.W) * e.W) := by
    calc e.W * e.V - e.V * e.W
        = (((1:ℚ)/(-2)) • (e.W * e.W - e.V * e.V)) * e.V - e.V * (((1:ℚ)/(-2)) • (e.W * e.W - e.V * e.V)) := by rw [← hq]
      _ = ((1:ℚ)/(-2)) • ((e.W * e.W - e.V * e.V) * e.V - e.V * (e.W * e.W - e.V * e.V)) := by
          rw [smul_mul_assoc, mul_smul_comm, ← smul_sub]
      _ = ((1:ℚ)/(-2)) • (e.W * (e.W * e.V - e.V * e.W) + (e.W * e.V - e.V * e.W) * e.W) := by rw [h2]
  rw [key]
  exact Submodule.smul_mem _ _ (Submodule.add_mem _ (mul_mem_succ_left (W_mem e) hn) (mul_mem_succ_right (W_mem e) hn))

/-- (A): the Hermitian-flagged product `U'† U'` is block diagonal -/
theorem Pr_isD : IsD e.Upd_x_Up := by
  have hQ : e.Upd_x_Up = (e.W * e.W - e.V * e.V) + (e.W * e.V - e.V * e.W) := by
    rw [Pr_eq, Upd_eq, Up_eq]; noncomm_ring
  rw [hQ, comm_WV, add_zero]
  exact IsD.sub (IsD.mul (W_isD e) (W_isD e)) (IsO.mul (V_isO e) (V_isO e))

theorem W_eq : e.W = ((1:ℚ)/(-2)) • e.Upd_x_Up := by
  have hP := Pr_mem e
  have hD := Pr_isD e
  apply parts_ext; intro p
  cases p
  · rw [W_up0, map_smul, IsD.up hD, smul_zero]
  · rw [W_lo0, map_smul, IsD.lo hD, smul_zero]
  · rw [e.eq_W_kc]
    refine P_congr _ ((tl_of_mem (by mem_one)).trans ?_)
    first | rfl | module
  · rw [kn_zero, kn_zero]
  · rw [ed_zero, ed_zero]

/-- left unitarity in expanded form -/
theorem unit_left : e.Upd + e.Up + e.Upd * e.Up = 0 := by
  have hW := W_eq e
  rw [Pr_eq] at hW
  have h2 : e.Upd + e.Up = (2:ℚ) • e.W := by rw [Upd_eq, Up_eq]; module
  rw [h2, hW]; module

theorem unit_right : e.Up + e.Upd + e.Up * e.Upd = 0 := by
  apply eq_zero_of_contraction
  intro n hn
  have hL := unit_left e
  have key : e.Up + e.Upd + e.Up * e.Upd = - (e.Upd * (e.Up + e.Upd + e.Up * e.Upd)) := by
    have : (1 + e.Upd) * (e.Up + e.Upd + e.Up * e.Upd) = 0 := by
      have h1 : (1 + e.Upd) * (1 + e.Up) = 1 := by
        calc (1 + e.Upd) * (1 + e.Up) = 1 + (e.Upd + e.Up + e.Upd * e.Up) := by noncomm_ring
          _ = 1 := by rw [hL, add_zero]
      calc (1 + e.Upd) * (e.Up + e.Upd + e.Up * e.Upd)
          = ((1 + e.Upd) * (1 + e.Up)) * (1 + e.Upd) - (1 + e.Upd) := by noncomm_ring
        _ = 0 := by rw [h1, one_mul, sub_self]
    have h2 : (1 + e.Upd) * (e.Up + e.Upd + e.Up * e.Upd)
        = (e.Up + e.Upd + e.Up * e.Upd) + e.Upd * (e.Up + e.Upd + e.Up * e.Upd) := by noncomm_ring
    rw [h2] at this
    exact eq_neg_of_add_eq_zero_left this
  rw [key]
  exact Submodule.neg_mem _ (mul_mem_succ_left (Upd_mem e) hn)


/-! ### auxiliary facts for T-X / T-main -/

/-- `H_S = H_0 + H'_S` -/
def HS (e : MainEqs2b A u) : A := u.H0 + e.Hp_diag

theorem HS_star : star (HS e) = HS e := by
  unfold HS; rw [star_add, u.H0_star, Hd_star]

theorem H_eq : e.H = HS e + e.Hp_offdiag := by
  unfold HS; rw [add_assoc, Hd_add_Ho]; exact H_split e

theorem V_kc : P kc e.V = 0 := by rw [e.eq_V_kc]; simp
theorem V_kn : P kn e.V = 0 := by rw [e.eq_V_kn]; simp

theorem V_rem : e.V = P up e.V + P lo e.V + P ed e.V := by
  have h := P_sum e.V
  rw [V_kc, V_kn, add_zero, add_zero] at h
  exact h.symm

theorem Ho_kc : P kc e.Hp_offdiag = 0 := by rw [e.eq_Hp_offdiag_kc]; simp
theorem Ho_kn : P kn e.Hp_offdiag = 0 := by rw [e.eq_Hp_offdiag_kn]; simp

theorem VH_star : star e.V_x_Hp_diag = - (e.Hp_diag * e.V) := by
  rw [VH_eq, star_mul, V_star, Hd_star]; noncomm_ring

theorem VH_kc : P kc e.V_x_Hp_diag = 0 := by
  rw [VH_eq, V_rem e, Hd_eq]; exact comm_left _ _

theorem VHs_kc : P kc (star e.V_x_Hp_diag) = 0 := by
  rw [VH_star, map_neg, V_rem e, Hd_eq, comm_right, neg_zero]

theorem C_mem : e.Upd_x_B ∈ I (A := A) 1 := by rw [e.prod_Upd_x_B]; exact mul_mem_one (Upd_mem e) (B_mem e)
theorem Ac_mem : e.Hp_offdiag_x_Up ∈ I (A := A) 1 := by
  rw [e.prod_Hp_offdiag_x_Up]; exact mul_mem_one (Ho_mem e) (Up_mem e)

theorem X_eq : e.X = e.B + e.Hp_offdiag + e.Hp_offdiag_x_Up := by
  have h1 := B_mem e
  have h2 := Ho_mem e
  have h3 := Ac_mem e
  have h := e.eq_X
  rw [tl_of_mem (by mem_one)] at h
  exact h.trans (by first | rfl | abel)

/-- kept part of `B` (formula of the non-commuting blocks; valid for all kept parts) -/
def Gk (e : MainEqs2b A u) : A :=
  ((1:ℚ)/(-2)) • (((e.Upd_x_B - star e.Upd_x_B) + e.Hp_offdiag_x_Up) + star e.Hp_offdiag_x_Up)
    + (e.V_x_Hp_diag + star e.V_x_Hp_diag)

theorem Gk_mem : Gk e ∈ I (A := A) 1 := by
  unfold Gk
  refine Submodule.add_mem _ (Submodule.smul_mem _ _ ?_) (Submodule.add_mem _ (VH_mem e) (I_star (VH_mem e)))
  exact Submodule.add_mem _ (Submodule.add_mem _ (Submodule.sub_mem _ (C_mem e) (I_star (C_mem e))) (Ac_mem e)) (I_star (Ac_mem e))

theorem B_kn : P kn e.B = P kn (Gk e) := by
  have h1 := C_mem e
  have h2 := Ac_mem e
  have h3 := VH_mem e
  rw [e.eq_B_kn]
  refine P_congr _ ((tl_of_mem (by mem_one)).trans ?_)
  unfold Gk; first | rfl | module

theorem B_kc : P kc e.B = P kc (Gk e) := by
  have h1 := C_mem e
  have h2 := Ac_mem e
  have h3 := VH_mem e
  have hz : P kc (e.V_x_Hp_diag + star e.V_x_Hp_diag) = 0 := by rw [map_add, VH_kc, VHs_kc, add_zero]
  rw [e.eq_B_kc, tl_of_mem (by mem_one)]
  have : Gk e = (Gk e - (e.V_x_Hp_diag + star e.V_x_Hp_diag)) + (e.V_x_Hp_diag + star e.V_x_Hp_diag) := by abel
  rw [this, map_add (P kc) _ (e.V_x_Hp_diag + star e.V_x_Hp_diag), hz, add_zero]
  refine P_congr _ ?_
  unfold Gk; first | rfl | module

theorem negC_mem : -e.Upd_x_B ∈ I (A := A) 1 := Submodule.neg_mem _ (C_mem e)

theorem B_up : P up e.B = - P up e.Upd_x_B := by
  have h1 := C_mem e
  rw [e.eq_B_up, ← map_neg]
  refine P_congr _ ((tl_of_mem (by mem_one)).trans ?_)
  first | rfl | abel
theorem B_lo : P lo e.B = - P lo e.Upd_x_B := by
  have h1 := C_mem e
  rw [e.eq_B_lo, ← map_neg]
  refine P_congr _ ((tl_of_mem (by mem_one)).trans ?_)
  first | rfl | abel
theorem B_ed : P ed e.B = - P ed e.Upd_x_B := by
  have h1 := C_mem e
  rw [e.eq_B_ed, ← map_neg]
  refine P_congr _ ((tl_of_mem (by mem_one)).trans ?_)
  first | rfl | abel

/-- `B + U'† B` is the kept part of a self-adjoint element -/
theorem BC_eq : e.B + e.Upd_x_B = P kc (Gk e + e.Upd_x_B) + P kn (Gk e + e.Upd_x_B) := by
  have h := P_sum (e.B + e.Upd_x_B)
  have hup : P up (e.B + e.Upd_x_B) = 0 := by rw [map_add, B_up, neg_add_cancel]
  have hlo : P lo (e.B + e.Upd_x_B) = 0 := by rw [map_add, B_lo, neg_add_cancel]
  have hed : P ed (e.B + e.Upd_x_B) = 0 := by rw [map_add, B_ed, neg_add_cancel]
  have hkc : P kc (e.B + e.Upd_x_B) = P kc (Gk e + e.Upd_x_B) := by rw [map_add, B_kc, ← map_add]
  have hkn : P kn (e.B + e.Upd_x_B) = P kn (Gk e + e.Upd_x_B) := by rw [map_add, B_kn, ← map_add]
  rw [hup, hlo, hed, hkc, hkn, zero_add, zero_add, add_zero] at h
  exact h.symm

theorem GC_star : star (Gk e + e.Upd_x_B) = Gk e + e.Upd_x_B := by
  unfold Gk
  simp only [star_add, star_sub, star_smulq, star_star]
  module

theorem BC_star : star (e.B + e.Upd_x_B) = e.B + e.Upd_x_B := by
  rw [BC_eq, star_add, P_star, P_star, GC_star]; rfl


/-! ### Hermitian part of `X` equals the Hermitian part of `[U', H_S]` -/

/-- `[V, H_S]` -/
abbrev Kc (e : MainEqs2b A u) : A := e.V * HS e - HS e * e.V

theorem Kc_star : star (Kc e) = Kc e := by
  unfold Kc; rw [star_sub, star_mul, star_mul, HS_star, V_star]; noncomm_ring

theorem Kc_eq : Kc e = (e.V * u.H0 - u.H0 * e.V) + (e.V_x_Hp_diag + star e.V_x_Hp_diag) := by
  unfold Kc HS; rw [VH_star, VH_eq]; noncomm_ring

theorem Zr_eq : Zr e = e.Yadj - (e.V_x_Hp_diag + star e.V_x_Hp_diag) := by
  unfold Zr; rw [Y_star]; abel

theorem Kc_up : P up (Kc e) = P up e.Yadj := by
  rw [Kc_eq, map_add, map_sub, u.H0_right, u.H0_left, V_up]
  have h := u.Sy_up (Zr e)
  rw [map_sub, u.H0_right, u.H0_left] at h
  have h2 : -(P up) (u.Sy (Zr e)) * u.H0 - u.H0 * -(P up) (u.Sy (Zr e)) = P up (Zr e) := by
    rw [← h]; noncomm_ring
  rw [h2, Zr_eq, map_sub]; abel

theorem Kc_ed : P ed (Kc e) = P ed e.Yadj := by
  rw [Kc_eq, map_add, map_sub, u.H0_right, u.H0_left, V_ed]
  have h := u.Sy_ed (Zr e)
  rw [map_sub, u.H0_right, u.H0_left] at h
  have h2 : -(P ed) (u.Sy (Zr e)) * u.H0 - u.H0 * -(P ed) (u.Sy (Zr e)) = P ed (Zr e) := by
    rw [← h]; noncomm_ring
  rw [h2, Zr_eq, map_sub]; abel

theorem Kc_sel (p : Part) (hV : P p e.V = 0) : P p (Kc e) = P p (e.V_x_Hp_diag + star e.V_x_Hp_diag) := by
  rw [Kc_eq, map_add, map_sub, u.H0_right, u.H0_left, hV]; noncomm_ring

theorem XX_mem : ((1:ℚ)/2) • (star e.X + e.X) ∈ I (A := A) 1 :=
  Submodule.smul_mem _ _ (Submodule.add_mem _ (I_star (X_mem e)) (X_mem e))

theorem Y_part (p : Part) {F : A} (h : P p e.Yadj = P p (tl F)) (hF : F = ((1:ℚ)/2) • (e.X + star e.X)) :
    P p (e.X + star e.X) = (2:ℚ) • P p e.Yadj := by
  have hX := X_mem e
  rw [h, hF, tl_of_mem (by mem_one), map_smul, smul_smul]; norm_num

theorem Gk_add_star : Gk e + star (Gk e)
    = - (e.Hp_offdiag_x_Up + star e.Hp_offdiag_x_Up) + (2:ℚ) • (e.V_x_Hp_diag + star e.V_x_Hp_diag) := by
  unfold Gk
  simp only [star_add, star_sub, star_smulq, star_star]
  module

theorem XX_sel (p : Part) (hp : p.sw = p) (hB : P p e.B = P p (Gk e)) (hHo : P p e.Hp_offdiag = 0) :
    P p (e.X + star e.X) = (2:ℚ) • P p (e.V_x_Hp_diag + star e.V_x_Hp_diag) := by
  have hX : P p e.X = P p (Gk e) + P p e.Hp_offdiag_x_Up := by
    rw [X_eq, map_add, map_add, hB, hHo, add_zero]
  have hXs : P p (star e.X) = P p (star (Gk e)) + P p (star e.Hp_offdiag_x_Up) := by
    rw [P_of_star, hp, hX, star_add, P_star, P_star, hp]
  have h1 : P p (e.X + star e.X) = P p (Gk e + star (Gk e)) + P p (e.Hp_offdiag_x_Up + star e.Hp_offdiag_x_Up) := by
    rw [map_add, hX, hXs, map_add, map_add]; abel
  rw [h1, Gk_add_star, map_add, map_neg, map_smul]; abel


/-! ### T-X: `X = [U', H_S]` (contraction), and T-main -/

/-- `[U', H_S]` -/
def Tc (e : MainEqs2b A u) : A := e.Up * HS e - HS e * e.Up
/-- defect of the commutator relation -/
def Dx (e : MainEqs2b A u) : A := e.X - Tc e
/-- the value `B` would have if the commutator relation held -/
def Bt (e : MainEqs2b A u) : A := Tc e - e.Hp_offdiag - e.Hp_offdiag_x_Up

theorem Up_sub_Upd : e.Up - e.Upd = (2:ℚ) • e.V := by
  rw [Up_eq, Upd_eq]; module

theorem Tc_add_star : Tc e + star (Tc e) = (2:ℚ) • Kc e := by
  unfold Tc Kc
  rw [star_sub, star_mul, star_mul, HS_star, Up_star]
  have h := Up_sub_Upd e
  have : e.Up * HS e - HS e * e.Up + (HS e * e.Upd - e.Upd * HS e)
      = (e.Up - e.Upd) * HS e - HS e * (e.Up - e.Upd) := by noncomm_ring
  rw [this, h]
  simp only [smul_mul_assoc, mul_smul_comm, smul_sub]

theorem B_sub_Bt : e.B - Bt e = Dx e := by
  unfold Bt Dx; rw [X_eq]; abel

theorem unit_left' : (1 + e.Upd) * e.Up = - e.Upd := by
  have h := unit_left e
  calc (1 + e.Upd) * e.Up = (e.Upd + e.Up + e.Upd * e.Up) - e.Upd := by noncomm_ring
    _ = - e.Upd := by rw [h, zero_sub]

/-- pure algebra: the transformed Hamiltonian in terms of `Bt` -/
theorem similarity_alg : (1 + e.Upd) * e.H * (1 + e.Up) = HS e - Bt e - e.Upd * Bt e := by
  have hk := unit_left' e
  rw [H_eq]
  unfold Bt Tc
  rw [e.prod_Hp_offdiag_x_Up]
  generalize HS e = hs at *
  have : hs - (e.Up * hs - hs * e.Up - e.Hp_offdiag - e.Hp_offdiag * e.Up)
        - e.Upd * (e.Up * hs - hs * e.Up - e.Hp_offdiag - e.Hp_offdiag * e.Up)
      = hs - ((1 + e.Upd) * e.Up) * hs + (1 + e.Upd) * hs * e.Up
        + (1 + e.Upd) * e.Hp_offdiag * (1 + e.Up) := by noncomm_ring
  rw [this, hk]
  noncomm_ring

theorem M_star : star ((1 + e.Upd) * e.H * (1 + e.Up)) = (1 + e.Upd) * e.H * (1 + e.Up) := by
  rw [star_mul, star_mul, star_add, star_add, star_one, Up_star, Upd_star, e.in_H_star, mul_assoc]

theorem BtC_star : star (Bt e + e.Upd * Bt e) = Bt e + e.Upd * Bt e := by
  have h := M_star e
  rw [similarity_alg] at h
  have h2 : Bt e + e.Upd * Bt e = HS e - (HS e - Bt e - e.Upd * Bt e) := by abel
  rw [h2, star_sub, h, HS_star]

/-! two-block argument: the lower part of the defect vanishes by the equation of `Yadj`, its diagonal part is
    anti-Hermitian, and `Dx + U'† Dx` is Hermitian; contraction gives `Dx = 0`. -/

/-- the equation of `Yadj` fixes one off-diagonal triangle of `X` (which one is an optimisation choice of the code) -/
theorem X_side : P lo e.X = P lo (Kc e) ∨ P up e.X = P up (Kc e) := by
  have hX := X_mem e
  first
  | (left
     have h1 : P up e.Yadj = P up (star e.X) := by
       rw [e.eq_Yadj_up]
       refine P_congr _ ((tl_of_mem (by mem_one)).trans ?_)
       first | rfl | module
     have h2 : P up (star e.X) = P up (Kc e) := by rw [← h1, Kc_up]
     have h3 := congrArg star h2
     rw [P_star, P_star, star_star, Kc_star] at h3
     exact h3)
  | (right
     have h1 : P up e.Yadj = P up e.X := by
       rw [e.eq_Yadj_up]
       refine P_congr _ ((tl_of_mem (by mem_one)).trans ?_)
       first | rfl | module
     rw [← h1, Kc_up])

theorem HS_isD : IsD (HS e) := by
  apply isD_of
  · unfold HS; rw [map_add, u.H0_up, e.eq_Hp_diag_up]; simp
  · unfold HS; rw [map_add, u.H0_lo, e.eq_Hp_diag_lo]; simp

theorem Tc_split : Tc e = (e.W * HS e - HS e * e.W) + (e.V * HS e - HS e * e.V) := by
  unfold Tc; rw [Up_eq]; noncomm_ring

theorem Tc_off (p : Part) (hp : p = up ∨ p = lo) : P p (Tc e) = P p (Kc e) := by
  have hd : IsD (e.W * HS e - HS e * e.W) := IsD.sub (IsD.mul (W_isD e) (HS_isD e)) (IsD.mul (HS_isD e) (W_isD e))
  rcases hp with h | h <;> subst h
  · rw [Tc_split, map_add, IsD.up hd, zero_add]
  · rw [Tc_split, map_add, IsD.lo hd, zero_add]

theorem Dx_side : P lo (Dx e) = 0 ∨ P up (Dx e) = 0 := by
  rcases X_side e with h | h
  · left; unfold Dx; rw [map_sub, h, Tc_off e lo (Or.inr rfl), sub_self]
  · right; unfold Dx; rw [map_sub, h, Tc_off e up (Or.inl rfl), sub_self]

theorem Dx_kc : P kc (Dx e + star (Dx e)) = 0 := by
  have h1 : Dx e + star (Dx e) = (e.X + star e.X) - (Tc e + star (Tc e)) := by
    unfold Dx; rw [star_sub]; abel
  rw [h1, map_sub, XX_sel e kc rfl (B_kc e) (Ho_kc e), Tc_add_star, map_smul, Kc_sel e kc (V_kc e), sub_self]

theorem E_herm : star (Dx e + e.Upd * Dx e) = Dx e + e.Upd * Dx e := by
  have hBC := BC_star e
  rw [e.prod_Upd_x_B] at hBC
  have hBt := BtC_star e
  have hB : e.B = Bt e + Dx e := by rw [← B_sub_Bt]; abel
  have : Dx e + e.Upd * Dx e = (e.B + e.Upd * e.B) - (Bt e + e.Upd * Bt e) := by rw [hB]; noncomm_ring
  rw [this, star_sub, hBC, hBt]

theorem Dx_zero : Dx e = 0 := by
  apply eq_zero_of_contraction
  intro n hn
  have hE := E_herm e
  rw [star_add, star_mul, Upd_star] at hE
  -- hE : star D + star D * Up = D + Upd * D
  have hs : Dx e - star (Dx e) ∈ I (A := A) (n + 1) := by
    have : Dx e - star (Dx e) = star (Dx e) * e.Up - e.Upd * Dx e := by
      have h' : Dx e - star (Dx e) = (star (Dx e) + star (Dx e) * e.Up) - (Dx e + e.Upd * Dx e) + (Dx e - star (Dx e)) := by
        rw [hE, sub_self, zero_add]
      calc Dx e - star (Dx e)
          = (Dx e + e.Upd * Dx e) - (star (Dx e) + star (Dx e) * e.Up) + (star (Dx e) * e.Up - e.Upd * Dx e) := by noncomm_ring
        _ = star (Dx e) * e.Up - e.Upd * Dx e := by rw [← hE, sub_self, zero_add]
    rw [this]
    exact Submodule.sub_mem _ (mul_mem_succ_right (Up_mem e) (I_star hn)) (mul_mem_succ_left (Upd_mem e) hn)
  have hoff : P up (Dx e) ∈ I (A := A) (n + 1) ∧ P lo (Dx e) ∈ I (A := A) (n + 1) := by
    rcases Dx_side e with h | h
    · refine ⟨?_, by rw [h]; exact Submodule.zero_mem _⟩
      have h1 : P up (Dx e) = P up (Dx e - star (Dx e)) := by
        rw [map_sub, P_of_star, sw_up, h, star_zero, sub_zero]
      rw [h1]; exact P_mem _ hs
    · refine ⟨by rw [h]; exact Submodule.zero_mem _, ?_⟩
      have h1 : P lo (Dx e) = P lo (Dx e - star (Dx e)) := by
        rw [map_sub, P_of_star, sw_lo, h, star_zero, sub_zero]
      rw [h1]; exact P_mem _ hs
  apply mem_of_parts; intro p
  cases p
  · exact hoff.1
  · exact hoff.2
  · have h1 : (2:ℚ) • P kc (Dx e) = P kc (Dx e - star (Dx e)) := by
      have hk := Dx_kc e
      rw [map_add] at hk
      have : P kc (star (Dx e)) = - P kc (Dx e) := eq_neg_of_add_eq_zero_right hk
      rw [map_sub, this]; module
    have h2 : P kc (Dx e) = ((1:ℚ)/2) • ((2:ℚ) • P kc (Dx e)) := by rw [smul_smul]; norm_num
    rw [h2, h1]; exact Submodule.smul_mem _ _ (P_mem _ hs)
  · rw [kn_zero]; exact Submodule.zero_mem _
  · rw [ed_zero]; exact Submodule.zero_mem _

/-- T-X -/
theorem X_comm : e.X = e.Up * HS e - HS e * e.Up := by
  have h := Dx_zero e
  unfold Dx Tc at h
  exact sub_eq_zero.mp h

theorem B_eq_Bt : e.B = Bt e := by
  have h := B_sub_Bt e
  rw [Dx_zero] at h
  exact sub_eq_zero.mp h

/-- the transformed Hamiltonian -/
theorem similarity : (1 + e.Upd) * e.H * (1 + e.Up) = HS e - e.B - e.Upd_x_B := by
  rw [similarity_alg, ← B_eq_Bt, e.prod_Upd_x_B]


/-! ### the optimised equations imply the general ones -/

theorem XX_eq : e.X + star e.X = (2:ℚ) • Kc e := by
  have hx := X_comm e
  have := Tc_add_star e
  unfold Tc at this
  rw [← hx] at this
  exact this

/-- (B): the off-diagonal part of `X` is Hermitian: upper parts of `X` and `star X` agree (and equal that of `[V, H_S]`) -/
theorem X_up_Kc : P up e.X = P up (Kc e) ∧ P up (star e.X) = P up (Kc e) := by
  have h1 := congrArg (P up) (XX_eq e)
  rw [map_add, map_smul] at h1
  have hx := X_comm e
  have hT := Tc_off e up (Or.inl rfl)
  unfold Tc at hT
  rw [← hx] at hT
  refine ⟨hT, ?_⟩
  rw [hT] at h1
  have : P up (star e.X) = (2:ℚ) • P up (Kc e) - P up (Kc e) := by rw [← h1]; abel
  rw [this]; module

/-- a solution of the two-block-optimised equations is a solution of the general equations -/
def toMain : MainEqs A u :=
  MainEqs2b.toMain e
    (by
      have hP := Pr_mem e
      rw [W_up0, tl_of_mem (by mem_one), map_smul, IsD.up (Pr_isD e), smul_zero])
    (by rw [ed_zero, ed_zero])
    (by
      have hX := X_mem e
      rw [← Kc_up, tl_of_mem (by mem_one), map_smul, map_add, (X_up_Kc e).1, (X_up_Kc e).2]
      module)
    (by rw [ed_zero, ed_zero])

/-- C01 for the two-block-optimised variant -/
theorem C01_similarity : e.Ud * e.H * e.U = e.H_tilde := PV.C01_similarity (toMain e)

theorem C01_eliminated (p : Part) (hp : p = up ∨ p = lo ∨ p = ed) : P p (e.Ud * e.H * e.U) = 0 :=
  PV.C01_eliminated (toMain e) p hp

/-- C02 for the two-block-optimised variant -/
theorem C02_unit_left : e.Ud * e.U = 1 := PV.C02_unit_left (toMain e)
theorem C02_unit_right : e.U * e.Ud = 1 := PV.C02_unit_right (toMain e)
theorem C02_adjoint : e.Ud = star e.U := PV.C02_adjoint (toMain e)
theorem C02_Htilde_star : star e.H_tilde = e.H_tilde := PV.C02_Htilde_star (toMain e)

/-- C03 for the two-block-optimised variant -/
theorem C03_gauge (p : Part) (hp : p = kc ∨ p = kn) : P p (e.U - star e.U) = 0 := PV.C03_gauge (toMain e) p hp

end TB
end PV
