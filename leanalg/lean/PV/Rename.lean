/-
  C13: merging / permuting / adding perturbation parameters, mechanised in the concrete model.
  A map `φ : σ → τ` between parameter sets with finite fibres induces the ring homomorphism `renameHom φ` on block series
  (coefficient of `m` = sum of the coefficients of all `n` with `mapDomain φ n = m`), for ANY (non-commutative) coefficient ring.
  The multiplicativity proof follows Mathlib's `MvPowerSeries.renameFun_mul` (private there; `rename` itself is only available for commutative
  coefficients).  `rename_law`: the outputs for the renamed Hamiltonian are the renamed outputs - identifying two parameters gives at order `m` the sum
  over `n1 + n2 = m`, a permutation permutes the order indices, an added parameter that does not occur only relabels.
-/
import Mathlib.RingTheory.MvPowerSeries.Rename
import PV.ModelTheorems
import PV.Unique

namespace PV.Rename
open Finsupp Filter MvPowerSeries

variable {σ τ : Type*} (f : σ → τ) [TendstoCofinite f]

section Semiring
variable {R : Type*} [Semiring R]

/-- the fibre of a multi-order under `mapDomain f` (finite) -/
noncomputable def fibre (x : τ →₀ ℕ) : Finset (σ →₀ ℕ) :=
  (TendstoCofinite.finite_preimage_singleton (Finsupp.mapDomain f) x).toFinset

theorem mem_fibre {x : τ →₀ ℕ} {n : σ →₀ ℕ} : n ∈ fibre f x ↔ Finsupp.mapDomain f n = x := by
  simp [fibre]

theorem coeff_renameFun (p : MvPowerSeries σ R) (x : τ →₀ ℕ) :
    coeff x (renameFun f p) = (fibre f x).sum (fun n => coeff n p) := rfl

private theorem aux [DecidableEq σ] (x : τ →₀ ℕ) :
    {p : (σ →₀ ℕ) × (σ →₀ ℕ) × (σ →₀ ℕ) | (p.1).mapDomain f = x ∧ p.2 ∈ Finset.antidiagonal p.1}.Finite := by
  apply Set.Finite.subset
    (s := ↑((fibre f x).sup (fun y ↦ Finset.product {y} (Finset.antidiagonal y))))
  · exact Finset.finite_toSet ..
  · intro; simp [mem_fibre]
    grind

private theorem aux' [DecidableEq τ] (x : τ →₀ ℕ) :
    {p : ((τ →₀ ℕ) × (τ →₀ ℕ)) × (σ →₀ ℕ) × (σ →₀ ℕ) | p.1 ∈ Finset.antidiagonal x
      ∧ p.2 ∈ (fibre f p.1.1) ×ˢ (fibre f p.1.2)}.Finite := by
  classical
  apply Set.Finite.subset (s := ↑((Finset.antidiagonal x).sup (fun q ↦ Finset.product {q}
    ((fibre f q.1) ×ˢ (fibre f q.2)))))
  · exact Finset.finite_toSet ..
  · intro; simp
    grind

private theorem auxImage [DecidableEq σ] [DecidableEq τ] (x : τ →₀ ℕ) :
    (aux' f x).toFinset.image (fun (_, b) ↦ (b.1 + b.2, b)) = (aux f x).toFinset := by
  ext ⟨_, _, _⟩
  simp [mem_fibre]; grind [Finsupp.mapDomain_add]

open Finset in
theorem renameFun_mul (p q : MvPowerSeries σ R) :
    renameFun f (p * q) = renameFun f p * renameFun f q := by
  classical
  ext x
  simp only [coeff_renameFun, coeff_mul, sum_mul_sum, ← sum_product']
  rw [← sum_finset_product' (aux f x).toFinset _ _ (by simp [mem_fibre]),
    ← sum_finset_product' (aux' f x).toFinset _ _ (by simp),
    ← auxImage f x, sum_image fun _ ↦ by simp [mem_fibre]; grind]

omit [TendstoCofinite f] in
theorem mapDomain_eq_zero {n : σ →₀ ℕ} (h : Finsupp.mapDomain f n = 0) : n = 0 := by
  have hd : (Finsupp.mapDomain f n).degree = n.degree := Finsupp.degree_mapDomain f n
  rw [h] at hd
  exact (Finsupp.degree_eq_zero_iff n).mp (by simpa using hd.symm)

theorem renameFun_one : renameFun f (1 : MvPowerSeries σ R) = 1 := by
  classical
  ext x
  rw [coeff_renameFun, coeff_one]
  by_cases hx : x = 0
  · subst hx
    rw [if_pos rfl, Finset.sum_eq_single 0]
    · simp
    · intro n hn h0
      rw [mem_fibre] at hn
      exact absurd (mapDomain_eq_zero f hn) h0
    · intro h; exact absurd ((mem_fibre f).mpr Finsupp.mapDomain_zero) h
  · rw [if_neg hx]
    apply Finset.sum_eq_zero
    intro n hn
    rw [mem_fibre] at hn
    rw [coeff_one, if_neg]
    rintro rfl
    exact hx (by rw [← hn, Finsupp.mapDomain_zero])

/-- renaming of the perturbation parameters as a ring homomorphism, for any coefficient semiring -/
noncomputable def renameHom : MvPowerSeries σ R →+* MvPowerSeries τ R where
  toFun := renameFun f
  map_one' := renameFun_one f
  map_mul' := renameFun_mul f
  map_zero' := by ext; simp [coeff_renameFun]
  map_add' _ _ := by ext; simp [coeff_renameFun, Finset.sum_add_distrib]

theorem coeff_renameHom (p : MvPowerSeries σ R) (x : τ →₀ ℕ) :
    coeff x (renameHom f p) = (fibre f x).sum (fun n => coeff n p) := rfl

end Semiring


section Law
open PV PV.Model Filtered Blocks _root_.PV.Part CoeffBlocks
variable {M : Type*} [Ring M] [StarRing M] [Algebra ℚ M] [StarModule ℚ M] [CoeffBlocks M]

attribute [local instance] Classical.propDecidable

/-- C13 (merge / permute / add a parameter), concrete model: if the Hamiltonian over the parameters `τ` is the renaming along `f : σ → τ` of the Hamiltonian over `σ`,
    every order `m` of `U`, `H_tilde`, `U†` is the sum of the orders `n` of the original outputs with `mapDomain f n = m`. -/
theorem rename_law (c0 : CoeffUnperturbed M)
    (gap : ∀ x : M, Q kc x + Q kn x = 0 → c0.H0 * x - x * c0.H0 = 0 → x = 0)
    (e : MainEqs (MvPowerSeries σ M) (lift c0)) (e' : MainEqs (MvPowerSeries τ M) (lift c0)) (hH : e'.H = renameHom f e.H) (m : τ →₀ ℕ) :
    coeff m e'.U = (fibre f m).sum (fun n => coeff n e.U) ∧ coeff m e'.H_tilde = (fibre f m).sum (fun n => coeff n e.H_tilde)
      ∧ coeff m e'.Ud = (fibre f m).sum (fun n => coeff n e.Ud) := by
  have hg : Gapped (lift (σ := τ) c0).H0 := by
    intro k v hv hs hc
    exact gapped_lift (σ := τ) c0.toCoeffUnperturbedNH gap k v hv hs hc
  have h := natural (renameHom (R := M) f)
    (by
      intro a; ext x
      rw [coeff_renameHom, coeff_star, coeff_renameHom, star_sum]
      rfl)
    (by
      intro a; ext x
      show coeff x (renameHom f (P kc a + P kn a)) = coeff x (P kc (renameHom f a) + P kn (renameHom f a))
      rw [coeff_renameHom, map_add, coeff_P, coeff_P, coeff_renameHom, map_sum, map_sum, ← Finset.sum_add_distrib]
      apply Finset.sum_congr rfl
      intro n _
      rw [map_add, coeff_P, coeff_P])
    (by
      intro a ha x hx
      rw [coeff_renameHom]
      apply Finset.sum_eq_zero
      intro n hn
      apply ha n
      rw [mem_fibre] at hn
      rw [← Finsupp.degree_mapDomain f n, hn]
      exact hx)
    hg e e' hH
  refine ⟨?_, ?_, ?_⟩
  · rw [h.1, coeff_renameHom]
  · rw [h.2.1, coeff_renameHom]
  · rw [h.2.2, coeff_renameHom]

/-- injective renaming (permutation of the parameters, or adjoining parameters that do not occur): order `mapDomain f n` of the new outputs is order `n` of the old ones,
    and orders outside the range of `mapDomain f` vanish -/
theorem rename_law_injective (hf : Function.Injective f) (c0 : CoeffUnperturbed M)
    (gap : ∀ x : M, Q kc x + Q kn x = 0 → c0.H0 * x - x * c0.H0 = 0 → x = 0)
    (e : MainEqs (MvPowerSeries σ M) (lift c0)) (e' : MainEqs (MvPowerSeries τ M) (lift c0)) (hH : e'.H = renameHom f e.H) :
    (∀ n : σ →₀ ℕ, coeff (Finsupp.mapDomain f n) e'.U = coeff n e.U ∧ coeff (Finsupp.mapDomain f n) e'.H_tilde = coeff n e.H_tilde
        ∧ coeff (Finsupp.mapDomain f n) e'.Ud = coeff n e.Ud)
      ∧ ∀ m : τ →₀ ℕ, (∀ n : σ →₀ ℕ, Finsupp.mapDomain f n ≠ m) → coeff m e'.U = 0 ∧ coeff m e'.H_tilde = 0 ∧ coeff m e'.Ud = 0 := by
  have hfib : ∀ n : σ →₀ ℕ, fibre f (Finsupp.mapDomain f n) = {n} := by
    intro n
    ext k
    rw [mem_fibre, Finset.mem_singleton]
    exact ⟨fun h => Finsupp.mapDomain_injective hf h, fun h => by rw [h]⟩
  constructor
  · intro n
    have h := rename_law f c0 gap e e' hH (Finsupp.mapDomain f n)
    rw [hfib n, Finset.sum_singleton, Finset.sum_singleton, Finset.sum_singleton] at h
    exact h
  · intro m hm
    have h := rename_law f c0 gap e e' hH m
    have hempty : fibre f m = ∅ := by
      ext k
      rw [mem_fibre]
      simp only [Finset.notMem_empty, iff_false]
      exact hm k
    rw [hempty, Finset.sum_empty, Finset.sum_empty, Finset.sum_empty] at h
    exact h

end Law

end PV.Rename
