/-
  C13: merging / permuting / adding perturbation parameters and the substitution lambda -> lambda^p, mechanised in the concrete model.
  General construction: a map `g` of multi-orders with finite fibres that is additive and sends only 0 to 0 induces the ring homomorphism `pushHom g` on block series
  (coefficient of `m` = sum of the coefficients over the fibre of `m`), for ANY (non-commutative) coefficient ring; `push_law` carries the outputs of the algorithm along it.
  Instances: `g = mapDomain f` for a map `f : sigma -> tau` of the parameters (`renameHom`, `rename_law`: identifying two parameters gives at order `m` the sum over
  `n1 + n2 = m`, a permutation permutes the order indices, an added parameter that does not occur only relabels) and `g n = p • n` (`power_law`: lambda -> lambda^p only relabels orders).
  The multiplicativity proof follows Mathlib's `MvPowerSeries.renameFun_mul` (private there; `rename` and `expand` themselves exist only for commutative coefficients).
-/
import Mathlib.RingTheory.MvPowerSeries.Rename
import PV.ModelTheorems
import PV.Unique

namespace PV.Rename
open Finsupp Filter MvPowerSeries

variable {σ τ : Type*}

/-! ### a map of multi-orders with finite fibres that is additive and reflects zero -/

section General
variable (g : (σ →₀ ℕ) → (τ →₀ ℕ)) [TendstoCofinite g]

section Semiring
variable {R : Type*} [Semiring R]

/-- push a series forward along a map of the multi-orders: the coefficient of `x` is the sum of the coefficients over the (finite) fibre of `x` -/
noncomputable def pushFun : MvPowerSeries σ R → MvPowerSeries τ R := TendstoCofinite.mapDomain g

/-- the fibre of a multi-order (finite) -/
noncomputable def fibre (x : τ →₀ ℕ) : Finset (σ →₀ ℕ) :=
  (TendstoCofinite.finite_preimage_singleton g x).toFinset

theorem mem_fibre {x : τ →₀ ℕ} {n : σ →₀ ℕ} : n ∈ fibre g x ↔ g n = x := by
  simp [fibre]

theorem coeff_pushFun (p : MvPowerSeries σ R) (x : τ →₀ ℕ) :
    coeff x (pushFun g p) = (fibre g x).sum (fun n => coeff n p) := rfl

private theorem aux [DecidableEq σ] (x : τ →₀ ℕ) :
    {p : (σ →₀ ℕ) × (σ →₀ ℕ) × (σ →₀ ℕ) | g p.1 = x ∧ p.2 ∈ Finset.antidiagonal p.1}.Finite := by
  apply Set.Finite.subset
    (s := ↑((fibre g x).sup (fun y ↦ Finset.product {y} (Finset.antidiagonal y))))
  · exact Finset.finite_toSet ..
  · intro; simp [mem_fibre]
    grind

private theorem aux' [DecidableEq τ] (x : τ →₀ ℕ) :
    {p : ((τ →₀ ℕ) × (τ →₀ ℕ)) × (σ →₀ ℕ) × (σ →₀ ℕ) | p.1 ∈ Finset.antidiagonal x
      ∧ p.2 ∈ (fibre g p.1.1) ×ˢ (fibre g p.1.2)}.Finite := by
  classical
  apply Set.Finite.subset (s := ↑((Finset.antidiagonal x).sup (fun q ↦ Finset.product {q}
    ((fibre g q.1) ×ˢ (fibre g q.2)))))
  · exact Finset.finite_toSet ..
  · intro; simp
    grind

variable (hadd : ∀ a b, g (a + b) = g a + g b)
include hadd

private theorem auxImage [DecidableEq σ] [DecidableEq τ] (x : τ →₀ ℕ) :
    (aux' g x).toFinset.image (fun (_, b) ↦ (b.1 + b.2, b)) = (aux g x).toFinset := by
  ext ⟨_, _, _⟩
  simp [mem_fibre]; grind

open Finset in
theorem pushFun_mul (p q : MvPowerSeries σ R) :
    pushFun g (p * q) = pushFun g p * pushFun g q := by
  classical
  ext x
  simp only [coeff_pushFun, coeff_mul, sum_mul_sum, ← sum_product']
  rw [← sum_finset_product' (aux g x).toFinset _ _ (by simp [mem_fibre]),
    ← sum_finset_product' (aux' g x).toFinset _ _ (by simp),
    ← auxImage g hadd x, sum_image fun _ ↦ by simp [mem_fibre]; grind]

omit hadd
variable (hzero : ∀ n, g n = 0 ↔ n = 0)
include hzero

theorem pushFun_one : pushFun g (1 : MvPowerSeries σ R) = 1 := by
  classical
  ext x
  rw [coeff_pushFun, coeff_one]
  by_cases hx : x = 0
  · subst hx
    rw [if_pos rfl, Finset.sum_eq_single 0]
    · simp
    · intro n hn h0
      rw [mem_fibre] at hn
      exact absurd ((hzero n).mp hn) h0
    · intro h; exact absurd ((mem_fibre g).mpr ((hzero 0).mpr rfl)) h
  · rw [if_neg hx]
    apply Finset.sum_eq_zero
    intro n hn
    rw [mem_fibre] at hn
    rw [coeff_one, if_neg]
    rintro rfl
    exact hx (by rw [← hn]; exact (hzero 0).mpr rfl)

include hadd

/-- the push-forward as a ring homomorphism, for any coefficient semiring -/
noncomputable def pushHom : MvPowerSeries σ R →+* MvPowerSeries τ R where
  toFun := pushFun g
  map_one' := pushFun_one g hzero
  map_mul' := pushFun_mul g hadd
  map_zero' := by ext; simp [coeff_pushFun]
  map_add' _ _ := by ext; simp [coeff_pushFun, Finset.sum_add_distrib]

theorem coeff_pushHom (p : MvPowerSeries σ R) (x : τ →₀ ℕ) :
    coeff x (pushHom g hadd hzero p) = (fibre g x).sum (fun n => coeff n p) := rfl

end Semiring

section Law
open PV PV.Model Filtered Blocks _root_.PV.Part CoeffBlocks
variable {M : Type*} [Ring M] [StarRing M] [Algebra ℚ M] [StarModule ℚ M] [CoeffBlocks M]
variable (hadd : ∀ a b, g (a + b) = g a + g b) (hzero : ∀ n, g n = 0 ↔ n = 0)

attribute [local instance] Classical.propDecidable

/-- general law: if the Hamiltonian over the parameters `τ` is the push-forward of the Hamiltonian over `σ`, every order `m` of `U`, `H_tilde`, `U†` is the sum of the
    orders `n` of the original outputs with `g n = m` -/
theorem push_law (c0 : CoeffUnperturbed M)
    (gap : ∀ x : M, Q kc x + Q kn x = 0 → c0.H0 * x - x * c0.H0 = 0 → x = 0)
    (e : MainEqs (MvPowerSeries σ M) (lift c0)) (e' : MainEqs (MvPowerSeries τ M) (lift c0)) (hH : e'.H = pushHom g hadd hzero e.H) (m : τ →₀ ℕ) :
    coeff m e'.U = (fibre g m).sum (fun n => coeff n e.U) ∧ coeff m e'.H_tilde = (fibre g m).sum (fun n => coeff n e.H_tilde)
      ∧ coeff m e'.Ud = (fibre g m).sum (fun n => coeff n e.Ud) := by
  have hg : Gapped (lift (σ := τ) c0).H0 := by
    intro k v hv hs hc
    exact gapped_lift (σ := τ) c0.toCoeffUnperturbedNH gap k v hv hs hc
  have h := natural (pushHom (R := M) g hadd hzero)
    (by
      intro a; ext x
      rw [coeff_pushHom, coeff_star, coeff_pushHom, star_sum]
      rfl)
    (by
      intro a; ext x
      show coeff x (pushHom g hadd hzero (P kc a + P kn a)) = coeff x (P kc (pushHom g hadd hzero a) + P kn (pushHom g hadd hzero a))
      rw [coeff_pushHom, map_add, coeff_P, coeff_P, coeff_pushHom, map_sum, map_sum, ← Finset.sum_add_distrib]
      apply Finset.sum_congr rfl
      intro n _
      rw [map_add, coeff_P, coeff_P])
    (by
      intro a ha x hx
      rw [coeff_pushHom]
      apply Finset.sum_eq_zero
      intro n hn
      apply ha n
      rw [mem_fibre] at hn
      have hx0 : x = 0 := (Finsupp.degree_eq_zero_iff x).mp (by omega)
      have hn0 : n = 0 := (hzero n).mp (by rw [hn, hx0])
      rw [hn0]
      simp)
    hg e e' hH
  refine ⟨?_, ?_, ?_⟩
  · rw [h.1, coeff_pushHom]
  · rw [h.2.1, coeff_pushHom]
  · rw [h.2.2, coeff_pushHom]

/-- injective case: order `g n` of the new outputs is order `n` of the old ones, and orders outside the range vanish -/
theorem push_law_injective (hinj : Function.Injective g) (c0 : CoeffUnperturbed M)
    (gap : ∀ x : M, Q kc x + Q kn x = 0 → c0.H0 * x - x * c0.H0 = 0 → x = 0)
    (e : MainEqs (MvPowerSeries σ M) (lift c0)) (e' : MainEqs (MvPowerSeries τ M) (lift c0)) (hH : e'.H = pushHom g hadd hzero e.H) :
    (∀ n : σ →₀ ℕ, coeff (g n) e'.U = coeff n e.U ∧ coeff (g n) e'.H_tilde = coeff n e.H_tilde ∧ coeff (g n) e'.Ud = coeff n e.Ud)
      ∧ ∀ m : τ →₀ ℕ, (∀ n : σ →₀ ℕ, g n ≠ m) → coeff m e'.U = 0 ∧ coeff m e'.H_tilde = 0 ∧ coeff m e'.Ud = 0 := by
  have hfib : ∀ n : σ →₀ ℕ, fibre g (g n) = {n} := by
    intro n
    ext k
    rw [mem_fibre, Finset.mem_singleton]
    exact ⟨fun h => hinj h, fun h => by rw [h]⟩
  constructor
  · intro n
    have h := push_law g hadd hzero c0 gap e e' hH (g n)
    rw [hfib n, Finset.sum_singleton, Finset.sum_singleton, Finset.sum_singleton] at h
    exact h
  · intro m hm
    have h := push_law g hadd hzero c0 gap e e' hH m
    have hempty : fibre g m = ∅ := by
      ext k
      rw [mem_fibre]
      simp only [Finset.notMem_empty, iff_false]
      exact hm k
    rw [hempty, Finset.sum_empty, Finset.sum_empty, Finset.sum_empty] at h
    exact h

end Law
end General

/-! ### renaming of the parameters: `g = mapDomain f` -/

section Renaming
variable (f : σ → τ)

theorem mapDomain_eq_zero_iff (n : σ →₀ ℕ) : Finsupp.mapDomain f n = 0 ↔ n = 0 := by
  constructor
  · intro h
    have hd : (Finsupp.mapDomain f n).degree = n.degree := Finsupp.degree_mapDomain f n
    rw [h] at hd
    exact (Finsupp.degree_eq_zero_iff n).mp (by simpa using hd.symm)
  · rintro rfl; exact Finsupp.mapDomain_zero

variable [TendstoCofinite f] {R : Type*} [Semiring R]

/-- renaming of the perturbation parameters as a ring homomorphism, for any coefficient semiring -/
noncomputable def renameHom : MvPowerSeries σ R →+* MvPowerSeries τ R :=
  pushHom (Finsupp.mapDomain f) (fun _ _ => Finsupp.mapDomain_add) (mapDomain_eq_zero_iff f)

open PV PV.Model Filtered Blocks _root_.PV.Part CoeffBlocks in
/-- C13 (merge / permute / add a parameter), concrete model -/
theorem rename_law {M : Type*} [Ring M] [StarRing M] [Algebra ℚ M] [StarModule ℚ M] [CoeffBlocks M] (c0 : CoeffUnperturbed M)
    (gap : ∀ x : M, Q kc x + Q kn x = 0 → c0.H0 * x - x * c0.H0 = 0 → x = 0)
    (e : MainEqs (MvPowerSeries σ M) (lift c0)) (e' : MainEqs (MvPowerSeries τ M) (lift c0)) (hH : e'.H = renameHom f e.H) (m : τ →₀ ℕ) :
    coeff m e'.U = (fibre (Finsupp.mapDomain f) m).sum (fun n => coeff n e.U)
      ∧ coeff m e'.H_tilde = (fibre (Finsupp.mapDomain f) m).sum (fun n => coeff n e.H_tilde)
      ∧ coeff m e'.Ud = (fibre (Finsupp.mapDomain f) m).sum (fun n => coeff n e.Ud) :=
  push_law (Finsupp.mapDomain f) _ _ c0 gap e e' hH m

open PV PV.Model Filtered Blocks _root_.PV.Part CoeffBlocks in
/-- injective renaming (permutation of the parameters, or adjoining parameters that do not occur) only relabels orders -/
theorem rename_law_injective {M : Type*} [Ring M] [StarRing M] [Algebra ℚ M] [StarModule ℚ M] [CoeffBlocks M] (hf : Function.Injective f) (c0 : CoeffUnperturbed M)
    (gap : ∀ x : M, Q kc x + Q kn x = 0 → c0.H0 * x - x * c0.H0 = 0 → x = 0)
    (e : MainEqs (MvPowerSeries σ M) (lift c0)) (e' : MainEqs (MvPowerSeries τ M) (lift c0)) (hH : e'.H = renameHom f e.H) :
    (∀ n : σ →₀ ℕ, coeff (Finsupp.mapDomain f n) e'.U = coeff n e.U ∧ coeff (Finsupp.mapDomain f n) e'.H_tilde = coeff n e.H_tilde
        ∧ coeff (Finsupp.mapDomain f n) e'.Ud = coeff n e.Ud)
      ∧ ∀ m : τ →₀ ℕ, (∀ n : σ →₀ ℕ, Finsupp.mapDomain f n ≠ m) → coeff m e'.U = 0 ∧ coeff m e'.H_tilde = 0 ∧ coeff m e'.Ud = 0 :=
  push_law_injective (Finsupp.mapDomain f) _ _ (Finsupp.mapDomain_injective hf) c0 gap e e' hH

end Renaming

/-! ### substitution `λ_k → λ_k ^ p`: `g n = p • n` -/

section Power
variable (p : ℕ) (hp : p ≠ 0)
include hp

theorem smul_injective' : Function.Injective (fun n : σ →₀ ℕ => p • n) := by
  intro a b h
  ext k
  have := congrArg (fun v : σ →₀ ℕ => v k) h
  simp only [Finsupp.smul_apply, smul_eq_mul] at this
  exact Nat.eq_of_mul_eq_mul_left (Nat.pos_of_ne_zero hp) this

theorem smul_eq_zero_iff' (n : σ →₀ ℕ) : p • n = 0 ↔ n = 0 := by
  constructor
  · intro h
    exact smul_injective' (σ := σ) p hp (by simpa using h)
  · rintro rfl; simp

open PV PV.Model Filtered Blocks _root_.PV.Part CoeffBlocks in
/-- C13 (substitution `λ → λ^p`), concrete model: order `p • n` of the outputs for the substituted Hamiltonian is order `n` of the original outputs, all other orders vanish -/
theorem power_law {M : Type*} [Ring M] [StarRing M] [Algebra ℚ M] [StarModule ℚ M] [CoeffBlocks M] (c0 : CoeffUnperturbed M)
    (gap : ∀ x : M, Q kc x + Q kn x = 0 → c0.H0 * x - x * c0.H0 = 0 → x = 0)
    (e e' : MainEqs (MvPowerSeries σ M) (lift c0))
    (hH : haveI := tendstoCofinite_of_injective (smul_injective' (σ := σ) p hp)
      e'.H = pushHom (fun n : σ →₀ ℕ => p • n) (fun a b => smul_add p a b) (smul_eq_zero_iff' p hp) e.H) :
    (∀ n : σ →₀ ℕ, coeff (p • n) e'.U = coeff n e.U ∧ coeff (p • n) e'.H_tilde = coeff n e.H_tilde ∧ coeff (p • n) e'.Ud = coeff n e.Ud)
      ∧ ∀ m : σ →₀ ℕ, (∀ n : σ →₀ ℕ, p • n ≠ m) → coeff m e'.U = 0 ∧ coeff m e'.H_tilde = 0 ∧ coeff m e'.Ud = 0 := by
  have := tendstoCofinite_of_injective (smul_injective' (σ := σ) p hp)
  exact push_law_injective (fun n : σ →₀ ℕ => p • n) _ _ (smul_injective' p hp) c0 gap e e' hH

end Power

end PV.Rename
