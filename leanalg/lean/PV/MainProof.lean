/-
  Theorems about `pymablock.algorithms.main` (general variant incl. commuting_blocks flags),
  proved from the mechanically extracted equations in PV/Generated.lean.
-/
import PV.Generated
import PV.Lemmas

namespace PV
open Filtered Blocks Part

variable {A : Type*} [Ring A] [StarRing A] [Algebra ℚ A] [StarModule ℚ A] [Filtered A] [Blocks A]

/-! ### the equations of `main` -/

section Main
variable {u : Unperturbed A} (e : MainEqs A u)

/-- perturbation `H' = H - H0` -/
abbrev Hp (e : MainEqs A u) : A := tl e.H

theorem H_split : e.H = u.H0 + tl e.H := by
  rw [← e.in_H_zeroth]; abel

theorem Hp_star : star (tl e.H) = tl e.H := by
  rw [← tl_star, e.in_H_star]

theorem Hd_eq : e.Hp_diag = P kc (tl e.H) + P kn (tl e.H) := by
  have h := P_sum e.Hp_diag
  rw [e.eq_Hp_diag_up, e.eq_Hp_diag_lo, e.eq_Hp_diag_kc, e.eq_Hp_diag_kn, e.eq_Hp_diag_ed] at h
  simp only [map_zero, zero_add, add_zero] at h
  exact h.symm

theorem Ho_eq : e.Hp_offdiag = P up (tl e.H) + P lo (tl e.H) + P ed (tl e.H) := by
  have h := P_sum e.Hp_offdiag
  rw [e.eq_Hp_offdiag_up, e.eq_Hp_offdiag_lo, e.eq_Hp_offdiag_kc, e.eq_Hp_offdiag_kn, e.eq_Hp_offdiag_ed] at h
  simp only [map_zero, zero_add, add_zero] at h
  exact h.symm

theorem Hd_add_Ho : e.Hp_diag + e.Hp_offdiag = tl e.H := by
  rw [Hd_eq, Ho_eq]
  have h := P_sum (tl e.H)
  calc P kc (tl e.H) + P kn (tl e.H) + (P up (tl e.H) + P lo (tl e.H) + P ed (tl e.H))
      = P up (tl e.H) + P lo (tl e.H) + P kc (tl e.H) + P kn (tl e.H) + P ed (tl e.H) := by abel
    _ = tl e.H := h

theorem Hd_mem : e.Hp_diag ∈ I (A := A) 1 := by
  rw [Hd_eq]; exact Submodule.add_mem _ (P_mem _ (tl_mem _)) (P_mem _ (tl_mem _))

theorem Ho_mem : e.Hp_offdiag ∈ I (A := A) 1 := by
  rw [Ho_eq]
  exact Submodule.add_mem _ (Submodule.add_mem _ (P_mem _ (tl_mem _)) (P_mem _ (tl_mem _))) (P_mem _ (tl_mem _))

theorem Hd_star : star e.Hp_diag = e.Hp_diag := by
  rw [Hd_eq, star_add, P_star, P_star, Hp_star]; rfl

theorem Ho_star : star e.Hp_offdiag = e.Hp_offdiag := by
  rw [Ho_eq, star_add, star_add, P_star, P_star, P_star, Hp_star]
  simp only [sw_up, sw_lo, sw_ed]
  abel


/-! memberships in `I 1` (all auxiliary series start at zero) -/

theorem Ptl_mem (p : Part) (a : A) : P p (tl a) ∈ I (A := A) 1 := P_mem _ (tl_mem _)

theorem Y_mem : e.Yadj ∈ I (A := A) 1 := by
  apply mem_of_parts; intro p
  cases p
  · rw [e.eq_Yadj_up]; exact Ptl_mem _ _
  · rw [e.eq_Yadj_lo, e.eq_Yadj_up]; exact I_star (Ptl_mem _ _)
  · rw [e.eq_Yadj_kc]; exact Ptl_mem _ _
  · rw [e.eq_Yadj_kn]; exact Ptl_mem _ _
  · rw [e.eq_Yadj_ed]; exact Ptl_mem _ _

theorem V_mem : e.V ∈ I (A := A) 1 := by
  apply mem_of_parts; intro p
  cases p
  · rw [e.eq_V_up]; exact Ptl_mem _ _
  · rw [e.eq_V_lo, e.eq_V_up]; exact Submodule.neg_mem _ (I_star (Ptl_mem _ _))
  · rw [e.eq_V_kc]; exact Ptl_mem _ _
  · rw [e.eq_V_kn]; exact Ptl_mem _ _
  · rw [e.eq_V_ed]; exact Ptl_mem _ _

theorem W_mem : e.W ∈ I (A := A) 1 := by
  apply mem_of_parts; intro p
  cases p
  · rw [e.eq_W_up]; exact Ptl_mem _ _
  · rw [e.eq_W_lo, e.eq_W_up]; exact I_star (Ptl_mem _ _)
  · rw [e.eq_W_kc]; exact Ptl_mem _ _
  · rw [e.eq_W_kn]; exact Ptl_mem _ _
  · rw [e.eq_W_ed]; exact Ptl_mem _ _

theorem B_mem : e.B ∈ I (A := A) 1 := by
  apply mem_of_parts; intro p
  cases p
  · rw [e.eq_B_up]; exact Ptl_mem _ _
  · rw [e.eq_B_lo]; exact Ptl_mem _ _
  · rw [e.eq_B_kc]; exact Ptl_mem _ _
  · rw [e.eq_B_kn]; exact Ptl_mem _ _
  · rw [e.eq_B_ed]; exact Ptl_mem _ _

theorem Up_eq : e.Up = e.W + e.V := by
  have hW := W_mem e
  have hV := V_mem e
  have h := e.eq_Up
  rw [tl_of_mem (by mem_one)] at h
  exact h.trans (by first | rfl | abel)

theorem Up_mem : e.Up ∈ I (A := A) 1 := by
  rw [Up_eq]; exact Submodule.add_mem _ (W_mem e) (V_mem e)

theorem Upd_eq : e.Upd = e.W - e.V := e.eq_Upd.trans (by first | rfl | abel)

theorem Upd_mem : e.Upd ∈ I (A := A) 1 := by
  rw [Upd_eq]; exact Submodule.sub_mem _ (W_mem e) (V_mem e)

theorem X_mem : e.X ∈ I (A := A) 1 := by
  rw [e.eq_X]; exact tl_mem _

/-! `Yadj` is Hermitian, `V` anti-Hermitian (unconditionally) -/

theorem Y_star : star e.Yadj = e.Yadj := by
  apply parts_ext; intro p
  rw [P_of_star]
  cases p
  · simp only [sw_up]; rw [e.eq_Yadj_lo, star_star]
  · simp only [sw_lo]; rw [e.eq_Yadj_lo]
  · simp only [sw_kc]; rw [e.eq_Yadj_kc]; simp
  · simp only [sw_kn]; rw [e.eq_Yadj_kn, P_star, ← tl_star]
    refine P_congr _ (tl_congr ?_)
    simp only [star_add, star_smulq, star_star]; first | rfl | module
  · simp only [sw_ed]; rw [e.eq_Yadj_ed, P_star, ← tl_star]
    refine P_congr _ (tl_congr ?_)
    simp only [star_add, star_smulq, star_star]; first | rfl | module

/-- right-hand side of the Sylvester equation for `V` -/
def Zr (e : MainEqs A u) : A := (star e.Yadj - e.V_x_Hp_diag) - star e.V_x_Hp_diag

theorem Zr_star : star (Zr e) = Zr e := by
  unfold Zr
  rw [star_sub, star_sub, star_star, star_star, Y_star e]
  abel

theorem VH_eq : e.V_x_Hp_diag = e.V * e.Hp_diag := e.prod_V_x_Hp_diag

theorem VH_mem : e.V_x_Hp_diag ∈ I (A := A) 1 := by rw [VH_eq]; exact mul_mem_one (V_mem e) (Hd_mem e)

theorem Zr_mem : Zr e ∈ I (A := A) 1 := by
  unfold Zr
  exact Submodule.sub_mem _ (Submodule.sub_mem _ (I_star (Y_mem e)) (VH_mem e)) (I_star (VH_mem e))

theorem V_part (p : Part) {F : A} (h : P p e.V = P p (tl F)) (hF : F = -(u.Sy (Zr e))) :
    P p e.V = - P p (u.Sy (Zr e)) := by
  have hs := u.Sy_mem (Zr_mem e)
  rw [h, hF, tl_of_mem (by mem_one), map_neg]

theorem Zr_gen {z : A} (h : z = Zr e) : -(u.Sy z) = -(u.Sy (Zr e)) := by rw [h]

theorem V_up : P up e.V = - P up (u.Sy (Zr e)) :=
  V_part e up e.eq_V_up (Zr_gen e (by unfold Zr; first | rfl | abel))

theorem V_ed : P ed e.V = - P ed (u.Sy (Zr e)) :=
  V_part e ed e.eq_V_ed (Zr_gen e (by unfold Zr; first | rfl | abel))

theorem V_star : star e.V = - e.V := by
  apply parts_ext; intro p
  rw [P_of_star, map_neg]
  cases p
  · simp only [sw_up]; rw [e.eq_V_lo, star_neg, star_star]
  · simp only [sw_lo]; rw [e.eq_V_lo, neg_neg]
  · simp only [sw_kc]; rw [e.eq_V_kc]; simp
  · simp only [sw_kn]; rw [e.eq_V_kn]; simp
  · simp only [sw_ed]
    rw [V_ed, star_neg, P_star, sw_ed, u.Sy_ed_star, Zr_star]

/-! ### T-adj: the series `U'†` is the adjoint of `U'` (contraction on the pairing defect) -/

theorem delta_eq : e.Upd - star e.Up = e.W - star e.W := by
  rw [Upd_eq, Up_eq, star_add, V_star]; abel

theorem W_sub_star : e.W - star e.W
    = P kc (tl (((1:ℚ)/(-2)) • (e.Upd_x_Up - star e.Upd_x_Up)))
    + P kn (tl (((1:ℚ)/(-2)) • (e.Upd_x_Up - star e.Upd_x_Up)))
    + P ed (tl (((1:ℚ)/(-2)) • (e.Upd_x_Up - star e.Upd_x_Up))) := by
  have hup : P up (e.W - star e.W) = 0 := by
    rw [map_sub, P_of_star]; simp only [sw_up]; rw [e.eq_W_lo, star_star, sub_self]
  have hlo : P lo (e.W - star e.W) = 0 := by
    rw [map_sub, P_of_star]; simp only [sw_lo]; rw [e.eq_W_lo, sub_self]
  have hk : ∀ (p : Part) (F : A), p.sw = p → P p e.W = P p (tl F) → F = ((1:ℚ)/(-2)) • e.Upd_x_Up →
      P p (e.W - star e.W) = P p (tl (((1:ℚ)/(-2)) • (e.Upd_x_Up - star e.Upd_x_Up))) := by
    intro p F hp h hF
    rw [map_sub, P_of_star, hp, h, hF, P_star, hp, ← tl_star, star_smulq, ← map_sub, ← map_sub, ← smul_sub]
  have h := P_sum (e.W - star e.W)
  rw [hup, hlo, hk kc _ rfl e.eq_W_kc (by first | rfl | module), hk kn _ rfl e.eq_W_kn (by first | rfl | module),
    hk ed _ rfl e.eq_W_ed (by first | rfl | module), zero_add, zero_add] at h
  exact h.symm

theorem delta_mem_one : e.Upd - star e.Up ∈ I (A := A) 1 :=
  Submodule.sub_mem _ (Upd_mem e) (I_star (Up_mem e))

theorem herm_defect_step (n : ℕ) (h : e.Upd - star e.Up ∈ I (A := A) n) :
    e.Upd_x_Up - star e.Upd_x_Up ∈ I (A := A) (n + 1) := by
  set δ := e.Upd - star e.Up with hδ
  have hQ := e.hprod_Upd_x_Up n h
  have hsU : star e.Up = e.Upd - δ := by rw [hδ]; abel
  have hsUd : star e.Upd = e.Up + star δ := by rw [hδ, star_sub, star_star]; abel
  have key : e.Upd_x_Up - star e.Upd_x_Up
      = (e.Upd_x_Up - e.Upd * e.Up) - star (e.Upd_x_Up - e.Upd * e.Up)
        + (- (e.Upd * star δ) + δ * e.Up + δ * star δ) := by
    rw [star_sub, star_mul, hsU, hsUd]
    noncomm_ring
  rw [key]
  have h1 : e.Upd * star δ ∈ I (A := A) (n + 1) := mul_mem_succ_left (Upd_mem e) (I_star h)
  have h2 : δ * e.Up ∈ I (A := A) (n + 1) := mul_mem_succ_right (Up_mem e) h
  have h3 : δ * star δ ∈ I (A := A) (n + 1) := I_mul h (I_star (delta_mem_one e))
  exact Submodule.add_mem _ (Submodule.sub_mem _ hQ (I_star hQ))
    (Submodule.add_mem _ (Submodule.add_mem _ (Submodule.neg_mem _ h1) h2) h3)

theorem pairing : e.Upd = star e.Up := by
  have : e.Upd - star e.Up = 0 := by
    apply eq_zero_of_contraction
    intro n hn
    have hm := herm_defect_step e n hn
    have hm1 : ((1:ℚ)/(-2)) • (e.Upd_x_Up - star e.Upd_x_Up) ∈ I (A := A) (n + 1) := Submodule.smul_mem _ _ hm
    rw [delta_eq, W_sub_star, tl_of_mem (mem_one_of_succ hm1)]
    exact Submodule.add_mem _ (Submodule.add_mem _ (P_mem _ hm1) (P_mem _ hm1)) (P_mem _ hm1)
  exact sub_eq_zero.mp this

theorem W_star : star e.W = e.W := by
  have h := delta_eq e
  rw [pairing e, sub_self] at h
  exact (sub_eq_zero.mp h.symm).symm

theorem Up_star : star e.Up = e.Upd := (pairing e).symm

theorem Upd_star : star e.Upd = e.Up := by rw [pairing e, star_star]

/-- the Hermitian-flagged product is the plain product -/
theorem Pr_eq : e.Upd_x_Up = e.Upd * e.Up := by
  have : e.Upd_x_Up - e.Upd * e.Up = 0 := by
    apply I_sep; intro n
    have h0 : e.Upd - star e.Up ∈ I (A := A) n := by rw [pairing e, sub_self]; exact Submodule.zero_mem _
    exact I_anti _ (e.hprod_Upd_x_Up n h0)
  exact sub_eq_zero.mp this


/-! ### T-unit: `U† U = U U† = 1` -/

theorem Pr_mem : e.Upd_x_Up ∈ I (A := A) 1 := by
  rw [Pr_eq]; exact mem_I_of_le (by norm_num) (I_mul (Upd_mem e) (Up_mem e))

theorem Pr_star : star e.Upd_x_Up = e.Upd_x_Up := by
  rw [Pr_eq, star_mul, Up_star, Upd_star]

theorem W_eq : e.W = ((1:ℚ)/(-2)) • e.Upd_x_Up := by
  have hP := Pr_mem e
  have hk : ∀ (p : Part) (F : A), P p e.W = P p (tl F) → F = ((1:ℚ)/(-2)) • e.Upd_x_Up →
      P p e.W = P p (((1:ℚ)/(-2)) • e.Upd_x_Up) := by
    intro p F h hF
    rw [h, hF, tl_of_mem (by mem_one)]
  apply parts_ext; intro p
  cases p
  · exact hk up _ e.eq_W_up (by first | rfl | module)
  · rw [e.eq_W_lo, hk up _ e.eq_W_up (by first | rfl | module), P_star, star_smulq, Pr_star]; rfl
  · exact hk kc _ e.eq_W_kc (by first | rfl | module)
  · exact hk kn _ e.eq_W_kn (by first | rfl | module)
  · exact hk ed _ e.eq_W_ed (by first | rfl | module)

/-- left unitarity in expanded form -/
theorem unit_left : e.Upd + e.Up + e.Upd * e.Up = 0 := by
  have hW := W_eq e
  rw [Pr_eq] at hW
  have h2 : e.Upd + e.Up = (2:ℚ) • e.W := by rw [Upd_eq, Up_eq]; module
  rw [h2, hW]; module

theorem unit_right : e.Up + e.Upd + e.Up * e.Upd = 0 := by
  apply eq_zero_of_contraction
  intro n hn
  have hL := unit_left e
  have key : e.Up + e.Upd + e.Up * e.Upd = - (e.Upd * (e.Up + e.Upd + e.Up * e.Upd)) := by
    have : (1 + e.Upd) * (e.Up + e.Upd + e.Up * e.Upd) = 0 := by
      have h1 : (1 + e.Upd) * (1 + e.Up) = 1 := by
        calc (1 + e.Upd) * (1 + e.Up) = 1 + (e.Upd + e.Up + e.Upd * e.Up) := by noncomm_ring
          _ = 1 := by rw [hL, add_zero]
      calc (1 + e.Upd) * (e.Up + e.Upd + e.Up * e.Upd)
          = ((1 + e.Upd) * (1 + e.Up)) * (1 + e.Upd) - (1 + e.Upd) := by noncomm_ring
        _ = 0 := by rw [h1, one_mul, sub_self]
    have h2 : (1 + e.Upd) * (e.Up + e.Upd + e.Up * e.Upd)
        = (e.Up + e.Upd + e.Up * e.Upd) + e.Upd * (e.Up + e.Upd + e.Up * e.Upd) := by noncomm_ring
    rw [h2] at this
    exact eq_neg_of_add_eq_zero_left this
  rw [key]
  exact Submodule.neg_mem _ (mul_mem_succ_left (Upd_mem e) hn)


/-! ### auxiliary facts for T-X / T-main -/

/-- `H_S = H_0 + H'_S` -/
def HS (e : MainEqs A u) : A := u.H0 + e.Hp_diag

theorem HS_star : star (HS e) = HS e := by
  unfold HS; rw [star_add, u.H0_star, Hd_star]

theorem H_eq : e.H = HS e + e.Hp_offdiag := by
  unfold HS; rw [add_assoc, Hd_add_Ho]; exact H_split e

theorem V_kc : P kc e.V = 0 := by rw [e.eq_V_kc]; simp
theorem V_kn : P kn e.V = 0 := by rw [e.eq_V_kn]; simp

theorem V_rem : e.V = P up e.V + P lo e.V + P ed e.V := by
  have h := P_sum e.V
  rw [V_kc, V_kn, add_zero, add_zero] at h
  exact h.symm

theorem Ho_kc : P kc e.Hp_offdiag = 0 := by rw [e.eq_Hp_offdiag_kc]; simp
theorem Ho_kn : P kn e.Hp_offdiag = 0 := by rw [e.eq_Hp_offdiag_kn]; simp

theorem VH_star : star e.V_x_Hp_diag = - (e.Hp_diag * e.V) := by
  rw [VH_eq, star_mul, V_star, Hd_star]; noncomm_ring

theorem VH_kc : P kc e.V_x_Hp_diag = 0 := by
  rw [VH_eq, V_rem e, Hd_eq]; exact comm_left _ _

theorem VHs_kc : P kc (star e.V_x_Hp_diag) = 0 := by
  rw [VH_star, map_neg, V_rem e, Hd_eq, comm_right, neg_zero]

theorem C_mem : e.Upd_x_B ∈ I (A := A) 1 := by rw [e.prod_Upd_x_B]; exact mul_mem_one (Upd_mem e) (B_mem e)
theorem Ac_mem : e.Hp_offdiag_x_Up ∈ I (A := A) 1 := by
  rw [e.prod_Hp_offdiag_x_Up]; exact mul_mem_one (Ho_mem e) (Up_mem e)

theorem X_eq : e.X = e.B + e.Hp_offdiag + e.Hp_offdiag_x_Up := by
  have h1 := B_mem e
  have h2 := Ho_mem e
  have h3 := Ac_mem e
  have h := e.eq_X
  rw [tl_of_mem (by mem_one)] at h
  exact h.trans (by first | rfl | abel)

/-- kept part of `B` (formula of the non-commuting blocks; valid for all kept parts) -/
def Gk (e : MainEqs A u) : A :=
  ((1:ℚ)/(-2)) • (((e.Upd_x_B - star e.Upd_x_B) + e.Hp_offdiag_x_Up) + star e.Hp_offdiag_x_Up)
    + (e.V_x_Hp_diag + star e.V_x_Hp_diag)

theorem Gk_mem : Gk e ∈ I (A := A) 1 := by
  unfold Gk
  refine Submodule.add_mem _ (Submodule.smul_mem _ _ ?_) (Submodule.add_mem _ (VH_mem e) (I_star (VH_mem e)))
  exact Submodule.add_mem _ (Submodule.add_mem _ (Submodule.sub_mem _ (C_mem e) (I_star (C_mem e))) (Ac_mem e)) (I_star (Ac_mem e))

theorem B_kn : P kn e.B = P kn (Gk e) := by
  have h1 := C_mem e
  have h2 := Ac_mem e
  have h3 := VH_mem e
  rw [e.eq_B_kn]
  refine P_congr _ ((tl_of_mem (by mem_one)).trans ?_)
  unfold Gk; first | rfl | module

theorem B_kc : P kc e.B = P kc (Gk e) := by
  have h1 := C_mem e
  have h2 := Ac_mem e
  have h3 := VH_mem e
  have hz : P kc (e.V_x_Hp_diag + star e.V_x_Hp_diag) = 0 := by rw [map_add, VH_kc, VHs_kc, add_zero]
  rw [e.eq_B_kc, tl_of_mem (by mem_one)]
  have : Gk e = (Gk e - (e.V_x_Hp_diag + star e.V_x_Hp_diag)) + (e.V_x_Hp_diag + star e.V_x_Hp_diag) := by abel
  rw [this, map_add (P kc) _ (e.V_x_Hp_diag + star e.V_x_Hp_diag), hz, add_zero]
  refine P_congr _ ?_
  unfold Gk; first | rfl | module

theorem negC_mem : -e.Upd_x_B ∈ I (A := A) 1 := Submodule.neg_mem _ (C_mem e)

theorem B_up : P up e.B = - P up e.Upd_x_B := by
  have h1 := C_mem e
  rw [e.eq_B_up, ← map_neg]
  refine P_congr _ ((tl_of_mem (by mem_one)).trans ?_)
  first | rfl | abel
theorem B_lo : P lo e.B = - P lo e.Upd_x_B := by
  have h1 := C_mem e
  rw [e.eq_B_lo, ← map_neg]
  refine P_congr _ ((tl_of_mem (by mem_one)).trans ?_)
  first | rfl | abel
theorem B_ed : P ed e.B = - P ed e.Upd_x_B := by
  have h1 := C_mem e
  rw [e.eq_B_ed, ← map_neg]
  refine P_congr _ ((tl_of_mem (by mem_one)).trans ?_)
  first | rfl | abel

/-- `B + U'† B` is the kept part of a self-adjoint element -/
theorem BC_eq : e.B + e.Upd_x_B = P kc (Gk e + e.Upd_x_B) + P kn (Gk e + e.Upd_x_B) := by
  have h := P_sum (e.B + e.Upd_x_B)
  have hup : P up (e.B + e.Upd_x_B) = 0 := by rw [map_add, B_up, neg_add_cancel]
  have hlo : P lo (e.B + e.Upd_x_B) = 0 := by rw [map_add, B_lo, neg_add_cancel]
  have hed : P ed (e.B + e.Upd_x_B) = 0 := by rw [map_add, B_ed, neg_add_cancel]
  have hkc : P kc (e.B + e.Upd_x_B) = P kc (Gk e + e.Upd_x_B) := by rw [map_add, B_kc, ← map_add]
  have hkn : P kn (e.B + e.Upd_x_B) = P kn (Gk e + e.Upd_x_B) := by rw [map_add, B_kn, ← map_add]
  rw [hup, hlo, hed, hkc, hkn, zero_add, zero_add, add_zero] at h
  exact h.symm

theorem GC_star : star (Gk e + e.Upd_x_B) = Gk e + e.Upd_x_B := by
  unfold Gk
  simp only [star_add, star_sub, star_smulq, star_star]
  module

theorem BC_star : star (e.B + e.Upd_x_B) = e.B + e.Upd_x_B := by
  rw [BC_eq, star_add, P_star, P_star, GC_star]; rfl


/-! ### Hermitian part of `X` equals the Hermitian part of `[U', H_S]` -/

/-- `[V, H_S]` -/
abbrev Kc (e : MainEqs A u) : A := e.V * HS e - HS e * e.V

theorem Kc_star : star (Kc e) = Kc e := by
  unfold Kc; rw [star_sub, star_mul, star_mul, HS_star, V_star]; noncomm_ring

theorem Kc_eq : Kc e = (e.V * u.H0 - u.H0 * e.V) + (e.V_x_Hp_diag + star e.V_x_Hp_diag) := by
  unfold Kc HS; rw [VH_star, VH_eq]; noncomm_ring

theorem Zr_eq : Zr e = e.Yadj - (e.V_x_Hp_diag + star e.V_x_Hp_diag) := by
  unfold Zr; rw [Y_star]; abel

theorem Kc_up : P up (Kc e) = P up e.Yadj := by
  rw [Kc_eq, map_add, map_sub, u.H0_right, u.H0_left, V_up]
  have h := u.Sy_up (Zr e)
  rw [map_sub, u.H0_right, u.H0_left] at h
  have h2 : -(P up) (u.Sy (Zr e)) * u.H0 - u.H0 * -(P up) (u.Sy (Zr e)) = P up (Zr e) := by
    rw [← h]; noncomm_ring
  rw [h2, Zr_eq, map_sub]; abel

theorem Kc_ed : P ed (Kc e) = P ed e.Yadj := by
  rw [Kc_eq, map_add, map_sub, u.H0_right, u.H0_left, V_ed]
  have h := u.Sy_ed (Zr e)
  rw [map_sub, u.H0_right, u.H0_left] at h
  have h2 : -(P ed) (u.Sy (Zr e)) * u.H0 - u.H0 * -(P ed) (u.Sy (Zr e)) = P ed (Zr e) := by
    rw [← h]; noncomm_ring
  rw [h2, Zr_eq, map_sub]; abel

theorem Kc_sel (p : Part) (hV : P p e.V = 0) : P p (Kc e) = P p (e.V_x_Hp_diag + star e.V_x_Hp_diag) := by
  rw [Kc_eq, map_add, map_sub, u.H0_right, u.H0_left, hV]; noncomm_ring

theorem XX_mem : ((1:ℚ)/2) • (star e.X + e.X) ∈ I (A := A) 1 :=
  Submodule.smul_mem _ _ (Submodule.add_mem _ (I_star (X_mem e)) (X_mem e))

theorem Y_part (p : Part) {F : A} (h : P p e.Yadj = P p (tl F)) (hF : F = ((1:ℚ)/2) • (e.X + star e.X)) :
    P p (e.X + star e.X) = (2:ℚ) • P p e.Yadj := by
  have hX := X_mem e
  rw [h, hF, tl_of_mem (by mem_one), map_smul, smul_smul]; norm_num

theorem XX_up : P up (e.X + star e.X) = (2:ℚ) • P up e.Yadj := Y_part e up e.eq_Yadj_up (by first | rfl | module)

theorem XX_ed : P ed (e.X + star e.X) = (2:ℚ) • P ed e.Yadj := Y_part e ed e.eq_Yadj_ed (by first | rfl | module)

theorem Gk_add_star : Gk e + star (Gk e)
    = - (e.Hp_offdiag_x_Up + star e.Hp_offdiag_x_Up) + (2:ℚ) • (e.V_x_Hp_diag + star e.V_x_Hp_diag) := by
  unfold Gk
  simp only [star_add, star_sub, star_smulq, star_star]
  module

theorem XX_sel (p : Part) (hp : p.sw = p) (hB : P p e.B = P p (Gk e)) (hHo : P p e.Hp_offdiag = 0) :
    P p (e.X + star e.X) = (2:ℚ) • P p (e.V_x_Hp_diag + star e.V_x_Hp_diag) := by
  have hX : P p e.X = P p (Gk e) + P p e.Hp_offdiag_x_Up := by
    rw [X_eq, map_add, map_add, hB, hHo, add_zero]
  have hXs : P p (star e.X) = P p (star (Gk e)) + P p (star e.Hp_offdiag_x_Up) := by
    rw [P_of_star, hp, hX, star_add, P_star, P_star, hp]
  have h1 : P p (e.X + star e.X) = P p (Gk e + star (Gk e)) + P p (e.Hp_offdiag_x_Up + star e.Hp_offdiag_x_Up) := by
    rw [map_add, hX, hXs, map_add, map_add]; abel
  rw [h1, Gk_add_star, map_add, map_neg, map_smul]; abel

theorem XX_eq : e.X + star e.X = (2:ℚ) • Kc e := by
  have hup : P up (e.X + star e.X) = P up ((2:ℚ) • Kc e) := by rw [XX_up, map_smul, Kc_up]
  apply parts_ext; intro p
  cases p
  · exact hup
  · have hs : star (e.X + star e.X) = e.X + star e.X := by rw [star_add, star_star, add_comm]
    have hk : star ((2:ℚ) • Kc e) = (2:ℚ) • Kc e := by rw [star_smulq, Kc_star]
    rw [← hs, ← hk, P_of_star, P_of_star, sw_lo, hup]
  · rw [XX_sel e kc rfl (B_kc e) (Ho_kc e), map_smul, Kc_sel e kc (V_kc e)]
  · rw [XX_sel e kn rfl (B_kn e) (Ho_kn e), map_smul, Kc_sel e kn (V_kn e)]
  · rw [XX_ed, map_smul, Kc_ed]


/-! ### T-X: `X = [U', H_S]` (contraction), and T-main -/

/-- `[U', H_S]` -/
def Tc (e : MainEqs A u) : A := e.Up * HS e - HS e * e.Up
/-- defect of the commutator relation -/
def Dx (e : MainEqs A u) : A := e.X - Tc e
/-- the value `B` would have if the commutator relation held -/
def Bt (e : MainEqs A u) : A := Tc e - e.Hp_offdiag - e.Hp_offdiag_x_Up

theorem Up_sub_Upd : e.Up - e.Upd = (2:ℚ) • e.V := by
  rw [Up_eq, Upd_eq]; module

theorem Tc_add_star : Tc e + star (Tc e) = (2:ℚ) • Kc e := by
  unfold Tc Kc
  rw [star_sub, star_mul, star_mul, HS_star, Up_star]
  have h := Up_sub_Upd e
  have : e.Up * HS e - HS e * e.Up + (HS e * e.Upd - e.Upd * HS e)
      = (e.Up - e.Upd) * HS e - HS e * (e.Up - e.Upd) := by noncomm_ring
  rw [this, h]
  simp only [smul_mul_assoc, mul_smul_comm, smul_sub]

theorem Dx_star : star (Dx e) = - Dx e := by
  have h : Dx e + star (Dx e) = 0 := by
    unfold Dx
    rw [star_sub]
    have : e.X - Tc e + (star e.X - star (Tc e)) = (e.X + star e.X) - (Tc e + star (Tc e)) := by abel
    rw [this, XX_eq, Tc_add_star, sub_self]
  exact eq_neg_of_add_eq_zero_right h

theorem B_sub_Bt : e.B - Bt e = Dx e := by
  unfold Bt Dx; rw [X_eq]; abel

theorem unit_left' : (1 + e.Upd) * e.Up = - e.Upd := by
  have h := unit_left e
  calc (1 + e.Upd) * e.Up = (e.Upd + e.Up + e.Upd * e.Up) - e.Upd := by noncomm_ring
    _ = - e.Upd := by rw [h, zero_sub]

/-- pure algebra: the transformed Hamiltonian in terms of `Bt` -/
theorem similarity_alg : (1 + e.Upd) * e.H * (1 + e.Up) = HS e - Bt e - e.Upd * Bt e := by
  have hk := unit_left' e
  rw [H_eq]
  unfold Bt Tc
  rw [e.prod_Hp_offdiag_x_Up]
  generalize HS e = hs at *
  have : hs - (e.Up * hs - hs * e.Up - e.Hp_offdiag - e.Hp_offdiag * e.Up)
        - e.Upd * (e.Up * hs - hs * e.Up - e.Hp_offdiag - e.Hp_offdiag * e.Up)
      = hs - ((1 + e.Upd) * e.Up) * hs + (1 + e.Upd) * hs * e.Up
        + (1 + e.Upd) * e.Hp_offdiag * (1 + e.Up) := by noncomm_ring
  rw [this, hk]
  noncomm_ring

theorem M_star : star ((1 + e.Upd) * e.H * (1 + e.Up)) = (1 + e.Upd) * e.H * (1 + e.Up) := by
  rw [star_mul, star_mul, star_add, star_add, star_one, Up_star, Upd_star, e.in_H_star, mul_assoc]

theorem BtC_star : star (Bt e + e.Upd * Bt e) = Bt e + e.Upd * Bt e := by
  have h := M_star e
  rw [similarity_alg] at h
  have h2 : Bt e + e.Upd * Bt e = HS e - (HS e - Bt e - e.Upd * Bt e) := by abel
  rw [h2, star_sub, h, HS_star]

theorem Dx_two : (2:ℚ) • Dx e = - (e.Upd * Dx e) - Dx e * e.Up := by
  -- anti-Hermitian parts
  have hBC := BC_star e
  rw [e.prod_Upd_x_B] at hBC
  have hBt := BtC_star e
  have hD := Dx_star e
  have hB : e.B = Bt e + Dx e := by rw [← B_sub_Bt]; abel
  -- star (B + Upd B) = B + Upd B  and  star (Bt + Upd Bt) = Bt + Upd Bt  give the same for D
  have h3 : star (Dx e + e.Upd * Dx e) = Dx e + e.Upd * Dx e := by
    have : Dx e + e.Upd * Dx e = (e.B + e.Upd * e.B) - (Bt e + e.Upd * Bt e) := by rw [hB]; noncomm_ring
    rw [this, star_sub, hBC, hBt]
  rw [star_add, star_mul, hD, Upd_star] at h3
  -- h3 : -D + (-D) * Up = D + Upd * D
  have h4 : (2:ℚ) • Dx e = Dx e + Dx e := by module
  rw [h4]
  have h5 : Dx e + Dx e = - (e.Upd * Dx e) - Dx e * e.Up - (-Dx e + -Dx e * e.Up - (Dx e + e.Upd * Dx e)) := by noncomm_ring
  rw [h5, h3, sub_self, sub_zero]

theorem Dx_zero : Dx e = 0 := by
  apply eq_zero_of_contraction
  intro n hn
  have h2 : (2:ℚ) • Dx e ∈ I (A := A) (n + 1) := by
    rw [Dx_two]
    exact Submodule.sub_mem _ (Submodule.neg_mem _ (mul_mem_succ_left (Upd_mem e) hn)) (mul_mem_succ_right (Up_mem e) hn)
  have : Dx e = ((1:ℚ)/2) • ((2:ℚ) • Dx e) := by rw [smul_smul]; norm_num
  rw [this]
  exact Submodule.smul_mem _ _ h2

/-- T-X -/
theorem X_comm : e.X = e.Up * HS e - HS e * e.Up := by
  have h := Dx_zero e
  unfold Dx Tc at h
  exact sub_eq_zero.mp h

theorem B_eq_Bt : e.B = Bt e := by
  have h := B_sub_Bt e
  rw [Dx_zero] at h
  exact sub_eq_zero.mp h

/-- the transformed Hamiltonian -/
theorem similarity : (1 + e.Upd) * e.H * (1 + e.Up) = HS e - e.B - e.Upd_x_B := by
  rw [similarity_alg, ← B_eq_Bt, e.prod_Upd_x_B]


/-! ### T-main and corollaries (C01, C02, C03) -/

theorem Hd_up : P up e.Hp_diag = 0 := by rw [e.eq_Hp_diag_up]; simp
theorem Hd_lo : P lo e.Hp_diag = 0 := by rw [e.eq_Hp_diag_lo]; simp
theorem Hd_ed : P ed e.Hp_diag = 0 := by rw [e.eq_Hp_diag_ed]; simp

/-- the expression under `diag(...)` in the definition of `H_tilde` -/
def Fh (e : MainEqs A u) : A :=
  ((e.Hp_diag + (((1:ℚ)/(2)) • ((e.Hp_offdiag_x_Up + star e.Hp_offdiag_x_Up)))) + (((1:ℚ)/(-2)) • ((e.Upd_x_B + star e.Upd_x_B)))) - e.Yadj

theorem Fh_mem : Fh e ∈ I (A := A) 1 := by
  unfold Fh
  refine Submodule.sub_mem _ (Submodule.add_mem _ (Submodule.add_mem _ (Hd_mem e) (Submodule.smul_mem _ _ ?_)) (Submodule.smul_mem _ _ ?_)) (Y_mem e)
  · exact Submodule.add_mem _ (Ac_mem e) (I_star (Ac_mem e))
  · exact Submodule.add_mem _ (C_mem e) (I_star (C_mem e))

theorem kept_identity : e.Hp_diag - (Gk e + e.Upd_x_B) - Fh e = e.Yadj - (e.V_x_Hp_diag + star e.V_x_Hp_diag) := by
  unfold Gk Fh; module

theorem Y_kn : P kn e.Yadj = P kn (e.V_x_Hp_diag + star e.V_x_Hp_diag) := by
  have h := XX_sel e kn rfl (B_kn e) (Ho_kn e)
  have h2 := Y_part e kn e.eq_Yadj_kn (by first | rfl | module)
  rw [h] at h2
  have : P kn e.Yadj = ((1:ℚ)/2) • ((2:ℚ) • P kn e.Yadj) := by rw [smul_smul]; norm_num
  rw [this, ← h2, smul_smul]; norm_num

theorem Y_kc : P kc e.Yadj = P kc (e.V_x_Hp_diag + star e.V_x_Hp_diag) := by
  rw [e.eq_Yadj_kc, map_add, VH_kc, VHs_kc]; simp

theorem Htilde_zeroth : e.H - tl e.H = u.H0 := e.in_H_zeroth

theorem main_similarity : (1 + e.Upd) * e.H * (1 + e.Up) = e.H_tilde := by
  rw [similarity]
  have hrem : ∀ p : Part, P p e.Hp_diag = 0 → P p e.B = - P p e.Upd_x_B → P p u.H0 = 0 →
      P p e.H_tilde = P p ((e.H - tl e.H) + tl 0) → P p (HS e - e.B - e.Upd_x_B) = P p e.H_tilde := by
    intro p h1 h2 h3 h4
    unfold HS
    rw [h4, e.in_H_zeroth, map_zero, add_zero, h3, map_sub, map_sub, map_add, h1, h2, h3]; abel
  have hsel : ∀ p : Part, P p e.B = P p (Gk e) → P p e.Yadj = P p (e.V_x_Hp_diag + star e.V_x_Hp_diag) →
      P p e.H_tilde = P p ((e.H - tl e.H) + tl (Fh e)) → P p (HS e - e.B - e.Upd_x_B) = P p e.H_tilde := by
    intro p h1 h2 h3
    have hk := kept_identity e
    have : HS e - e.B - e.Upd_x_B = u.H0 + (e.Hp_diag - e.B - e.Upd_x_B) := by unfold HS; abel
    rw [this, h3, e.in_H_zeroth, tl_of_mem (Fh_mem e), map_add, map_add, map_sub, map_sub, h1]
    have h5 : P p e.Hp_diag - P p (Gk e) - P p e.Upd_x_B - P p (Fh e) = 0 := by
      have := congrArg (P p) hk
      rw [map_sub, map_sub, map_add, map_sub, h2, sub_self] at this
      rw [← this]; abel
    have h6 : P p e.Hp_diag - P p (Gk e) - P p e.Upd_x_B = P p (Fh e) := sub_eq_zero.mp h5
    rw [h6]
  apply parts_ext; intro p
  cases p
  · exact hrem up (Hd_up e) (B_up e) u.H0_up e.eq_H_tilde_up
  · exact hrem lo (Hd_lo e) (B_lo e) u.H0_lo e.eq_H_tilde_lo
  · exact hsel kc (B_kc e) (Y_kc e) (by
      rw [e.eq_H_tilde_kc]
      exact P_congr _ (congrArg (fun z => (e.H - tl e.H) + z) (tl_congr (by unfold Fh; first | rfl | module))))
  · exact hsel kn (B_kn e) (Y_kn e) (by
      rw [e.eq_H_tilde_kn]
      exact P_congr _ (congrArg (fun z => (e.H - tl e.H) + z) (tl_congr (by unfold Fh; first | rfl | module))))
  · exact hrem ed (Hd_ed e) (B_ed e) u.H0_ed e.eq_H_tilde_ed

theorem U_eq : e.U = 1 + e.Up := by rw [e.eq_U, tl_of_mem (Up_mem e)]
theorem Ud_eq : e.Ud = 1 + e.Upd := by rw [e.eq_Ud, tl_of_mem (Upd_mem e)]

/-- C01: `U† H U = H_tilde` (all parts, all orders) -/
theorem C01_similarity : e.Ud * e.H * e.U = e.H_tilde := by
  rw [U_eq, Ud_eq, main_similarity]

/-- C01: eliminated elements of `U† H U` vanish -/
theorem C01_eliminated (p : Part) (hp : p = up ∨ p = lo ∨ p = ed) : P p (e.Ud * e.H * e.U) = 0 := by
  rw [C01_similarity]
  rcases hp with h | h | h <;> subst h
  · rw [e.eq_H_tilde_up, e.in_H_zeroth]; simp [u.H0_up]
  · rw [e.eq_H_tilde_lo, e.in_H_zeroth]; simp [u.H0_lo]
  · rw [e.eq_H_tilde_ed, e.in_H_zeroth]; simp [u.H0_ed]

/-- C02: unitarity -/
theorem C02_unit_left : e.Ud * e.U = 1 := by
  rw [U_eq, Ud_eq]
  calc (1 + e.Upd) * (1 + e.Up) = 1 + (e.Upd + e.Up + e.Upd * e.Up) := by noncomm_ring
    _ = 1 := by rw [unit_left, add_zero]

theorem C02_unit_right : e.U * e.Ud = 1 := by
  rw [U_eq, Ud_eq]
  calc (1 + e.Up) * (1 + e.Upd) = 1 + (e.Up + e.Upd + e.Up * e.Upd) := by noncomm_ring
    _ = 1 := by rw [unit_right, add_zero]

/-- C02: the third output is the adjoint of the second -/
theorem C02_adjoint : e.Ud = star e.U := by
  rw [U_eq, Ud_eq, star_add, star_one, Up_star]

/-- C02: `H_tilde` is Hermitian -/
theorem C02_Htilde_star : star e.H_tilde = e.H_tilde := by
  rw [← main_similarity]; exact M_star e

/-- C03: least-action gauge - the anti-Hermitian part of `U` has no kept element -/
theorem C03_gauge (p : Part) (hp : p = kc ∨ p = kn) : P p (e.U - star e.U) = 0 := by
  rw [← C02_adjoint, U_eq, Ud_eq]
  have : 1 + e.Up - (1 + e.Upd) = (2:ℚ) • e.V := by rw [← Up_sub_Upd]; abel
  rw [this, map_smul]
  rcases hp with h | h <;> subst h
  · rw [V_kc, smul_zero]
  · rw [V_kn, smul_zero]

end Main

end PV
