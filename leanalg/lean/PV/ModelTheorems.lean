/-
  The theorems about `pymablock.algorithms.main`, instantiated at the concrete model: matrices (any finite size, any field with
  conjugation, e.g. ℂ) of multivariate formal power series (any set of perturbation parameters) with the Cauchy product, masks
  `μ` and real energies `E` with a gap on every eliminated pair.  No abstract class is left in the statement.
-/
import PV.Model
import PV.MatrixModel
import PV.Unique
import PV.UniqueNH

namespace PV.MatrixModel
open PV PV.Model Part Matrix MvPowerSeries Filtered Blocks

variable {ι : Type*} [Fintype ι] [DecidableEq ι]
variable {K : Type*} [Field K] [StarRing K] [Algebra ℚ K] [StarModule ℚ K]
variable {σ : Type*}

theorem gapped (μ : Masks ι) (en : Energies μ K) :
    letI := coeffBlocks (K := K) μ
    Gapped (lift (σ := σ) (coeffUnperturbed en)).H0 := by
  letI := coeffBlocks (K := K) μ
  intro n v hv hs hc
  exact gapped_lift (σ := σ) (coeffUnperturbed en).toCoeffUnperturbedNH (fun x h1 h2 => coeff_gap en.toEnergiesNH x h1 h2) n v hv hs hc

/-- C01, C02, C03 (incl. uniqueness) for block series of matrices -/
theorem main_theorems (μ : Masks ι) (en : Energies μ K) :
    letI := coeffBlocks (K := K) μ
    ∀ e : MainEqs (MvPowerSeries σ (Matrix ι ι K)) (lift (coeffUnperturbed en)),
      e.Ud * e.H * e.U = e.H_tilde ∧ e.Ud * e.U = 1 ∧ e.U * e.Ud = 1 ∧ e.Ud = star e.U ∧ star e.H_tilde = e.H_tilde ∧
      Rem e.H_tilde = 0 ∧ Sel (e.U - star e.U) = 0 ∧
      (∀ U Ht : MvPowerSeries σ (Matrix ι ι K), LeastAction e.H U Ht → U = e.U ∧ Ht = e.H_tilde) := by
  letI := coeffBlocks (K := K) μ
  intro e
  have hl := code_least_action e
  exact ⟨C01_similarity e, C02_unit_left e, C02_unit_right e, C02_adjoint e, C02_Htilde_star e, hl.elim, hl.gauge,
    fun U Ht h => C03_unique (gapped μ en) e h⟩


/-- the gap condition for (possibly complex) energies -/
theorem gappedNH (μ : Masks ι) (en : EnergiesNH μ K) :
    letI := coeffBlocks (K := K) μ
    Gapped (liftNH (σ := σ) (coeffUnperturbedNH en)).H0 := by
  letI := coeffBlocks (K := K) μ
  intro n v hv hs hc
  exact gapped_lift (σ := σ) (coeffUnperturbedNH en) (fun x h1 h2 => coeff_gap en x h1 h2) n v hv hs hc

/-- C05 for block series of matrices with complex energies: the inverse relations and the gauge hold unconditionally; the
    similarity relation, the elimination and uniqueness hold under the commutation hypothesis (known finding F-NH) -/
theorem nh_theorems (μ : Masks ι) (en : EnergiesNH μ K) :
    letI := coeffBlocks (K := K) μ
    ∀ e : NonHermEqs (MvPowerSeries σ (Matrix ι ι K)) (liftNH (coeffUnperturbedNH en)),
      e.Ud * e.U = 1 ∧ e.U * e.Ud = 1 ∧ Sel (e.U - e.Ud) = 0 ∧
      ((liftNH (σ := σ) (coeffUnperturbedNH en)).H0 * (P kc e.Up + P kn e.Up) = (P kc e.Up + P kn e.Up) * (liftNH (σ := σ) (coeffUnperturbedNH en)).H0 →
        e.Ud * e.H * e.U = e.H_tilde ∧ Rem e.H_tilde = 0 ∧
        (∀ U V Ht : MvPowerSeries σ (Matrix ι ι K), LeastActionNH e.H U V Ht → U = e.U ∧ V = e.Ud ∧ Ht = e.H_tilde)) := by
  letI := coeffBlocks (K := K) μ
  intro e
  refine ⟨NH.C05_inverse_left e, NH.C05_inverse_right e, ?_, ?_⟩
  · unfold Sel
    rw [NH.C05_gauge e kc (Or.inl rfl), NH.C05_gauge e kn (Or.inr rfl), add_zero]
  · intro hk
    have hl := NH.code_least_action e hk
    exact ⟨hl.sim, hl.elim, fun U V Ht h => nh_unique _ (gappedNH μ en) (NH.H_sub_H0_mem e) h hl⟩

end PV.MatrixModel
