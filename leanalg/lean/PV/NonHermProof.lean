/-
  Theorems about `pymablock.algorithms.nonhermitian`, proved from the mechanically extracted
  equations (structure NonHermEqs in PV/Generated.lean).

  NH_inverse   : (1+G)(1+U') = 1 = (1+U')(1+G)                      (G is the series "U_inv'")
  NH_gauge     : the kept part of U' - G vanishes
  NH_X         : X = [H_S, U']      *under the extra hypothesis*  [H_0, kept part of U'] = 0
  NH_main      : (1+G) H (1+U') = H_tilde                            (same hypothesis)
  The hypothesis is NOT established by block_diagonalize(hermitian=False): it fails whenever a kept
  diagonal block carries different unperturbed energies (known finding F-NH, DESIGN.md section 4).
-/
import PV.Generated
import PV.Lemmas

namespace PV
open Filtered Blocks Part

variable {A : Type*} [Ring A] [StarRing A] [Algebra ℚ A] [StarModule ℚ A] [Filtered A] [Blocks A]

section NonHerm
variable {u : UnperturbedNH A} (e : NonHermEqs A u)

namespace NH

theorem H_split : e.H = u.H0 + tl e.H := by
  rw [← e.in_H_zeroth]; abel

theorem Hd_eq : e.Hp_diag = P kc (tl e.H) + P kn (tl e.H) := by
  have h := P_sum e.Hp_diag
  rw [e.eq_Hp_diag_up, e.eq_Hp_diag_lo, e.eq_Hp_diag_kc, e.eq_Hp_diag_kn, e.eq_Hp_diag_ed] at h
  simp only [map_zero, zero_add, add_zero] at h
  exact h.symm

theorem Ho_eq : e.Hp_offdiag = P up (tl e.H) + P lo (tl e.H) + P ed (tl e.H) := by
  have h := P_sum e.Hp_offdiag
  rw [e.eq_Hp_offdiag_up, e.eq_Hp_offdiag_lo, e.eq_Hp_offdiag_kc, e.eq_Hp_offdiag_kn, e.eq_Hp_offdiag_ed] at h
  simp only [map_zero, zero_add, add_zero] at h
  exact h.symm

theorem Hd_add_Ho : e.Hp_diag + e.Hp_offdiag = tl e.H := by
  rw [Hd_eq, Ho_eq]
  have h := P_sum (tl e.H)
  calc P kc (tl e.H) + P kn (tl e.H) + (P up (tl e.H) + P lo (tl e.H) + P ed (tl e.H))
      = P up (tl e.H) + P lo (tl e.H) + P kc (tl e.H) + P kn (tl e.H) + P ed (tl e.H) := by abel
    _ = tl e.H := h

theorem Hd_mem : e.Hp_diag ∈ I (A := A) 1 := by
  rw [Hd_eq]; exact Submodule.add_mem _ (P_mem _ (tl_mem _)) (P_mem _ (tl_mem _))

theorem Ho_mem : e.Hp_offdiag ∈ I (A := A) 1 := by
  rw [Ho_eq]
  exact Submodule.add_mem _ (Submodule.add_mem _ (P_mem _ (tl_mem _)) (P_mem _ (tl_mem _))) (P_mem _ (tl_mem _))

theorem Ptl_mem (p : Part) (a : A) : P p (tl a) ∈ I (A := A) 1 := P_mem _ (tl_mem _)

theorem Up_mem : e.Up ∈ I (A := A) 1 := by
  apply mem_of_parts; intro p
  cases p
  · rw [e.eq_Up_up]; exact Ptl_mem _ _
  · rw [e.eq_Up_lo]; exact Ptl_mem _ _
  · rw [e.eq_Up_kc]; exact Ptl_mem _ _
  · rw [e.eq_Up_kn]; exact Ptl_mem _ _
  · rw [e.eq_Up_ed]; exact Ptl_mem _ _

theorem G_mem : e.U_invp ∈ I (A := A) 1 := by rw [e.eq_U_invp]; exact tl_mem _

theorem X_mem : e.X ∈ I (A := A) 1 := by
  apply mem_of_parts; intro p
  cases p
  · rw [e.eq_X_up]; exact Ptl_mem _ _
  · rw [e.eq_X_lo]; exact Ptl_mem _ _
  · rw [e.eq_X_kc]; exact Ptl_mem _ _
  · rw [e.eq_X_kn]; exact Ptl_mem _ _
  · rw [e.eq_X_ed]; exact Ptl_mem _ _

theorem B_mem : e.B ∈ I (A := A) 1 := by rw [e.eq_B]; exact tl_mem _

theorem GU_mem : e.U_invp_x_Up ∈ I (A := A) 1 := by rw [e.prod_U_invp_x_Up]; exact mul_mem_one (G_mem e) (Up_mem e)
theorem GB_mem : e.U_invp_x_B ∈ I (A := A) 1 := by rw [e.prod_U_invp_x_B]; exact mul_mem_one (G_mem e) (B_mem e)
theorem HoU_mem : e.Hp_offdiag_x_Up ∈ I (A := A) 1 := by rw [e.prod_Hp_offdiag_x_Up]; exact mul_mem_one (Ho_mem e) (Up_mem e)
theorem HdU_mem : e.Hp_diag_x_Up ∈ I (A := A) 1 := by rw [e.prod_Hp_diag_x_Up]; exact mul_mem_one (Hd_mem e) (Up_mem e)
theorem UHd_mem : e.Up_x_Hp_diag ∈ I (A := A) 1 := by rw [e.prod_Up_x_Hp_diag]; exact mul_mem_one (Up_mem e) (Hd_mem e)

/-! ### inverse -/

theorem G_eq : e.U_invp = - e.Up - e.U_invp * e.Up := by
  have h1 := Up_mem e
  have h2 := GU_mem e
  have h := e.eq_U_invp
  rw [tl_of_mem (by mem_one)] at h
  rw [← e.prod_U_invp_x_Up]
  exact h.trans (by first | rfl | abel)

theorem inv_left : e.U_invp + e.Up + e.U_invp * e.Up = 0 := by
  have h := G_eq e
  calc e.U_invp + e.Up + e.U_invp * e.Up = e.U_invp - (- e.Up - e.U_invp * e.Up) := by abel
    _ = 0 := by rw [← h, sub_self]

theorem inv_right : e.Up + e.U_invp + e.Up * e.U_invp = 0 := by
  apply eq_zero_of_contraction
  intro n hn
  have hL := inv_left e
  have key : e.Up + e.U_invp + e.Up * e.U_invp = - (e.U_invp * (e.Up + e.U_invp + e.Up * e.U_invp)) := by
    have h1 : (1 + e.U_invp) * (1 + e.Up) = 1 := by
      calc (1 + e.U_invp) * (1 + e.Up) = 1 + (e.U_invp + e.Up + e.U_invp * e.Up) := by noncomm_ring
        _ = 1 := by rw [hL, add_zero]
    have : (1 + e.U_invp) * (e.Up + e.U_invp + e.Up * e.U_invp) = 0 := by
      calc (1 + e.U_invp) * (e.Up + e.U_invp + e.Up * e.U_invp)
          = ((1 + e.U_invp) * (1 + e.Up)) * (1 + e.U_invp) - (1 + e.U_invp) := by noncomm_ring
        _ = 0 := by rw [h1, one_mul, sub_self]
    have h2 : (1 + e.U_invp) * (e.Up + e.U_invp + e.Up * e.U_invp)
        = (e.Up + e.U_invp + e.Up * e.U_invp) + e.U_invp * (e.Up + e.U_invp + e.Up * e.U_invp) := by noncomm_ring
    rw [h2] at this
    exact eq_neg_of_add_eq_zero_left this
  rw [key]
  exact Submodule.neg_mem _ (mul_mem_succ_left (G_mem e) hn)

theorem U_eq : e.U = 1 + e.Up := by rw [e.eq_U, tl_of_mem (Up_mem e)]
theorem Ud_eq : e.Ud = 1 + e.U_invp := by rw [e.eq_Ud, tl_of_mem (G_mem e)]

/-- C05: `U_inv U = 1` -/
theorem C05_inverse_left : e.Ud * e.U = 1 := by
  rw [U_eq, Ud_eq]
  calc (1 + e.U_invp) * (1 + e.Up) = 1 + (e.U_invp + e.Up + e.U_invp * e.Up) := by noncomm_ring
    _ = 1 := by rw [inv_left, add_zero]

/-- C05: `U U_inv = 1` -/
theorem C05_inverse_right : e.U * e.Ud = 1 := by
  rw [U_eq, Ud_eq]
  calc (1 + e.Up) * (1 + e.U_invp) = 1 + (e.Up + e.U_invp + e.Up * e.U_invp) := by noncomm_ring
    _ = 1 := by rw [inv_right, add_zero]

/-! ### gauge -/

theorem Up_kept (p : Part) {F : A} (h : P p e.Up = P p (tl F)) (hF : F = ((1:ℚ)/(-2)) • e.U_invp_x_Up) :
    P p e.Up = ((1:ℚ)/(-2)) • P p (e.U_invp * e.Up) := by
  have hm := GU_mem e
  rw [h, hF, tl_of_mem (by mem_one), map_smul, e.prod_U_invp_x_Up]

/-- C05: the kept part of `U - U_inv` vanishes -/
theorem C05_gauge (p : Part) (hp : p = kc ∨ p = kn) : P p (e.U - e.Ud) = 0 := by
  rw [U_eq, Ud_eq]
  have h1 : (1 + e.Up) - (1 + e.U_invp) = (2:ℚ) • e.Up + e.U_invp * e.Up := by
    have hL := inv_left e
    have : (1 + e.Up) - (1 + e.U_invp)
        = ((2:ℚ) • e.Up + e.U_invp * e.Up) - (e.U_invp + e.Up + e.U_invp * e.Up) := by module
    rw [this, hL, sub_zero]
  rw [h1, map_add, map_smul]
  rcases hp with h | h <;> subst h
  · rw [Up_kept e kc e.eq_Up_kc (by first | rfl | module), smul_smul]; norm_num
  · rw [Up_kept e kn e.eq_Up_kn (by first | rfl | module), smul_smul]; norm_num

/-! ### similarity, under the hypothesis that `H_0` commutes with the kept part of `U'` -/

def HS (e : NonHermEqs A u) : A := u.H0 + e.Hp_diag

theorem H_eq : e.H = HS e + e.Hp_offdiag := by
  unfold HS; rw [add_assoc, Hd_add_Ho]; exact H_split e

/-- right-hand side of the Sylvester equation for `U'` -/
def Zr (e : NonHermEqs A u) : A := (e.X - e.Hp_diag_x_Up) + e.Up_x_Hp_diag

theorem Zr_mem : Zr e ∈ I (A := A) 1 := by
  unfold Zr
  exact Submodule.add_mem _ (Submodule.sub_mem _ (X_mem e) (HdU_mem e)) (UHd_mem e)

theorem Up_rem (p : Part) {F : A} (h : P p e.Up = P p (tl F)) (hF : F = u.Sy (Zr e)) : P p e.Up = P p (u.Sy (Zr e)) := by
  have hs := u.Sy_mem (Zr_mem e)
  rw [h, hF, tl_of_mem (by mem_one)]

theorem Zr_gen {z : A} (h : z = Zr e) : u.Sy z = u.Sy (Zr e) := by rw [h]

theorem Up_up : P up e.Up = P up (u.Sy (Zr e)) := Up_rem e up e.eq_Up_up (Zr_gen e (by unfold Zr; first | rfl | abel))
theorem Up_lo : P lo e.Up = P lo (u.Sy (Zr e)) := Up_rem e lo e.eq_Up_lo (Zr_gen e (by unfold Zr; first | rfl | abel))
theorem Up_ed : P ed e.Up = P ed (u.Sy (Zr e)) := Up_rem e ed e.eq_Up_ed (Zr_gen e (by unfold Zr; first | rfl | abel))

/-- `[H_d, U']` -/
def Cd (e : NonHermEqs A u) : A := e.Hp_diag_x_Up - e.Up_x_Hp_diag

theorem Cd_mem : Cd e ∈ I (A := A) 1 := Submodule.sub_mem _ (HdU_mem e) (UHd_mem e)

theorem X_kept (p : Part) {F : A} (h : P p e.X = P p (tl F)) (hF : F = Cd e) : P p e.X = P p (Cd e) := by
  have hm := Cd_mem e
  rw [h, hF, tl_of_mem (by mem_one)]

/-- the remaining (eliminated) parts of `[H_0, U']` are fixed by the Sylvester equation -/
theorem H0comm_rem (p : Part) (hU : P p e.Up = P p (u.Sy (Zr e)))
    (hS : P p (u.H0 * u.Sy (Zr e) - u.Sy (Zr e) * u.H0) = P p (Zr e)) :
    P p (u.H0 * e.Up - e.Up * u.H0) = P p e.X - P p (Cd e) := by
  rw [map_sub, u.H0_left, u.H0_right, hU, ← u.H0_left, ← u.H0_right, ← map_sub, hS]
  unfold Zr Cd
  rw [← map_sub]
  exact P_congr _ (by abel)

/-- T-X for the non-Hermitian algorithm: `X = [H_S, U']`, given that `H_0` commutes with the kept part of `U'`. -/
theorem X_comm (hk : u.H0 * (P kc e.Up + P kn e.Up) = (P kc e.Up + P kn e.Up) * u.H0) :
    e.X = HS e * e.Up - e.Up * HS e := by
  have hsplit : HS e * e.Up - e.Up * HS e = (u.H0 * e.Up - e.Up * u.H0) + Cd e := by
    unfold HS Cd; rw [e.prod_Hp_diag_x_Up, e.prod_Up_x_Hp_diag]; noncomm_ring
  rw [hsplit]
  have hrem : ∀ p : Part, P p (u.H0 * e.Up - e.Up * u.H0) = P p e.X - P p (Cd e) →
      P p e.X = P p ((u.H0 * e.Up - e.Up * u.H0) + Cd e) := by
    intro p h; rw [map_add, h]; abel
  -- kept parts of [H0, U'] vanish by hypothesis
  have hkc : P kc (u.H0 * e.Up - e.Up * u.H0) + P kn (u.H0 * e.Up - e.Up * u.H0) = 0 := by
    rw [map_sub, map_sub, u.H0_left, u.H0_right, u.H0_left, u.H0_right]
    have : u.H0 * P kc e.Up - P kc e.Up * u.H0 + (u.H0 * P kn e.Up - P kn e.Up * u.H0)
        = u.H0 * (P kc e.Up + P kn e.Up) - (P kc e.Up + P kn e.Up) * u.H0 := by noncomm_ring
    rw [this, hk, sub_self]
  have hkc0 : P kc (u.H0 * e.Up - e.Up * u.H0) = 0 := by
    have := congrArg (P kc) hkc
    rw [map_add, P_idem, P_orth (by decide), add_zero, map_zero] at this
    exact this
  have hkn0 : P kn (u.H0 * e.Up - e.Up * u.H0) = 0 := by
    have := congrArg (P kn) hkc
    rw [map_add, P_idem, P_orth (by decide), zero_add, map_zero] at this
    exact this
  apply parts_ext; intro p
  cases p
  · exact hrem up (H0comm_rem e up (Up_up e) (u.Sy_up _))
  · exact hrem lo (H0comm_rem e lo (Up_lo e) (u.Sy_lo _))
  · rw [map_add, hkc0, zero_add]; exact X_kept e kc e.eq_X_kc (by unfold Cd; first | rfl | abel)
  · rw [map_add, hkn0, zero_add]; exact X_kept e kn e.eq_X_kn (by unfold Cd; first | rfl | abel)
  · exact hrem ed (H0comm_rem e ed (Up_ed e) (u.Sy_ed _))

theorem B_eq : e.B = e.X + e.Hp_offdiag + e.Hp_offdiag_x_Up := by
  have h1 := X_mem e
  have h2 := Ho_mem e
  have h3 := HoU_mem e
  have h := e.eq_B
  rw [tl_of_mem (by mem_one)] at h
  exact h.trans (by first | rfl | abel)

/-- pure algebra: the transformed Hamiltonian, given the inverse relation and `X = [H_S, U']` -/
theorem similarity (hX : e.X = HS e * e.Up - e.Up * HS e) :
    (1 + e.U_invp) * e.H * (1 + e.Up) = HS e + e.B + e.U_invp * e.B := by
  have hL := inv_left e
  rw [H_eq, B_eq, hX, e.prod_Hp_offdiag_x_Up]
  generalize HS e = hs at *
  have h1 : (1 + e.U_invp) * (1 + e.Up) = 1 := by
    calc (1 + e.U_invp) * (1 + e.Up) = 1 + (e.U_invp + e.Up + e.U_invp * e.Up) := by noncomm_ring
      _ = 1 := by rw [hL, add_zero]
  calc (1 + e.U_invp) * (hs + e.Hp_offdiag) * (1 + e.Up)
      = ((1 + e.U_invp) * (1 + e.Up)) * hs + (1 + e.U_invp) * (hs * e.Up - e.Up * hs + e.Hp_offdiag + e.Hp_offdiag * e.Up) := by noncomm_ring
    _ = hs + (hs * e.Up - e.Up * hs + e.Hp_offdiag + e.Hp_offdiag * e.Up)
          + e.U_invp * (hs * e.Up - e.Up * hs + e.Hp_offdiag + e.Hp_offdiag * e.Up) := by rw [h1]; noncomm_ring

theorem X_rem (p : Part) {F : A} (h : P p e.X = P p (tl F)) (hF : F = -((e.Hp_offdiag + e.Hp_offdiag_x_Up) + e.U_invp_x_B)) :
    P p (e.B + e.U_invp * e.B) = 0 := by
  have h1 := Ho_mem e
  have h2 := HoU_mem e
  have h3 := GB_mem e
  have hx : P p e.X = - (P p e.Hp_offdiag + P p e.Hp_offdiag_x_Up + P p e.U_invp_x_B) := by
    rw [h, hF, tl_of_mem (by mem_one), map_neg, map_add, map_add]
  rw [← e.prod_U_invp_x_B, B_eq, map_add, map_add, map_add, hx]; abel

theorem Hd_rem (p : Part) (h : P p e.Hp_diag = P p (tl 0)) : P p e.Hp_diag = 0 := by rw [h]; simp

/-- C05 (conditional): `U_inv H U = H_tilde` -/
theorem main_similarity (hk : u.H0 * (P kc e.Up + P kn e.Up) = (P kc e.Up + P kn e.Up) * u.H0) :
    (1 + e.U_invp) * e.H * (1 + e.Up) = e.H_tilde := by
  rw [similarity e (X_comm e hk)]
  have hrem : ∀ p : Part, P p e.Hp_diag = 0 → P p (e.B + e.U_invp * e.B) = 0 → P p u.H0 = 0 →
      P p e.H_tilde = P p ((e.H - tl e.H) + tl 0) → P p (HS e + e.B + e.U_invp * e.B) = P p e.H_tilde := by
    intro p h1 h2 h3 h4
    unfold HS
    have : u.H0 + e.Hp_diag + e.B + e.U_invp * e.B = u.H0 + e.Hp_diag + (e.B + e.U_invp * e.B) := by abel
    rw [h4, e.in_H_zeroth, map_zero, add_zero, h3, this, map_add, map_add, h1, h2, h3]; abel
  have hsel : ∀ (p : Part) (F : A), P p e.H_tilde = P p ((e.H - tl e.H) + tl F) → F = e.Hp_diag + e.B + e.U_invp * e.B →
      P p (HS e + e.B + e.U_invp * e.B) = P p e.H_tilde := by
    intro p F h hF
    have h1 := Hd_mem e
    have h2 := B_mem e
    have h3 : e.U_invp * e.B ∈ I (A := A) 1 := mul_mem_one (G_mem e) (B_mem e)
    rw [h, hF, e.in_H_zeroth, tl_of_mem (by mem_one)]
    unfold HS
    exact P_congr _ (by abel)
  apply parts_ext; intro p
  cases p
  · exact hrem up (Hd_rem e up e.eq_Hp_diag_up) (X_rem e up e.eq_X_up (by first | rfl | abel)) u.H0_up e.eq_H_tilde_up
  · exact hrem lo (Hd_rem e lo e.eq_Hp_diag_lo) (X_rem e lo e.eq_X_lo (by first | rfl | abel)) u.H0_lo e.eq_H_tilde_lo
  · exact hsel kc _ e.eq_H_tilde_kc (by first | (rw [e.prod_U_invp_x_B]; done) | (rw [e.prod_U_invp_x_B]; abel))
  · exact hsel kn _ e.eq_H_tilde_kn (by first | (rw [e.prod_U_invp_x_B]; done) | (rw [e.prod_U_invp_x_B]; abel))
  · exact hrem ed (Hd_rem e ed e.eq_Hp_diag_ed) (X_rem e ed e.eq_X_ed (by first | rfl | abel)) u.H0_ed e.eq_H_tilde_ed

/-- C05 (conditional): `U_inv H U = H_tilde` in terms of the returned series -/
theorem C05_similarity (hk : u.H0 * (P kc e.Up + P kn e.Up) = (P kc e.Up + P kn e.Up) * u.H0) :
    e.Ud * e.H * e.U = e.H_tilde := by
  rw [U_eq, Ud_eq, main_similarity e hk]

/-- C05 (conditional): eliminated elements of `U_inv H U` vanish -/
theorem C05_eliminated (hk : u.H0 * (P kc e.Up + P kn e.Up) = (P kc e.Up + P kn e.Up) * u.H0)
    (p : Part) (hp : p = up ∨ p = lo ∨ p = ed) : P p (e.Ud * e.H * e.U) = 0 := by
  rw [C05_similarity e hk]
  rcases hp with h | h | h <;> subst h
  · rw [e.eq_H_tilde_up, e.in_H_zeroth]; simp [u.H0_up]
  · rw [e.eq_H_tilde_lo, e.in_H_zeroth]; simp [u.H0_lo]
  · rw [e.eq_H_tilde_ed, e.in_H_zeroth]; simp [u.H0_ed]

end NH
end NonHerm

end PV
