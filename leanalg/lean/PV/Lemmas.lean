/- Generic lemmas about parts, adjoints and order membership shared by the proof files. -/
import PV.Setting

namespace PV
open Filtered Blocks Part

variable {A : Type*} [Ring A] [StarRing A] [Algebra ℚ A] [StarModule ℚ A] [Filtered A] [Blocks A]

/-! ### generic lemmas about parts -/

@[simp] theorem sw_up : Part.sw up = lo := rfl
@[simp] theorem sw_lo : Part.sw lo = up := rfl
@[simp] theorem sw_kc : Part.sw kc = kc := rfl
@[simp] theorem sw_kn : Part.sw kn = kn := rfl
@[simp] theorem sw_ed : Part.sw ed = ed := rfl
@[simp] theorem sw_sw (p : Part) : p.sw.sw = p := by cases p <;> rfl

theorem P_of_star (i : Part) (a : A) : P i (star a) = star (P i.sw a) := by
  have h := P_star (A := A) i.sw a
  rw [sw_sw] at h
  exact h.symm

theorem star_smulq (q : ℚ) (a : A) : star (q • a) = q • star a := by
  rw [star_smul, star_trivial]

theorem mem_of_parts {n : ℕ} {a : A} (h : ∀ p : Part, P p a ∈ I (A := A) n) : a ∈ I (A := A) n := by
  rw [← P_sum a]
  exact Submodule.add_mem _ (Submodule.add_mem _ (Submodule.add_mem _ (Submodule.add_mem _ (h up) (h lo)) (h kc)) (h kn)) (h ed)

theorem tl_zero' : tl (0 : A) = 0 := map_zero _

theorem mem_one_of_succ {n : ℕ} {a : A} (h : a ∈ I (A := A) (n + 1)) : a ∈ I (A := A) 1 :=
  mem_I_of_le (Nat.succ_le_succ (Nat.zero_le n)) h

theorem star_mem_iff {n : ℕ} {a : A} : star a ∈ I (A := A) n ↔ a ∈ I (A := A) n := by
  constructor
  · intro h; have := I_star (A := A) h; rwa [star_star] at this
  · exact I_star


theorem P_congr (p : Part) {a b : A} (h : a = b) : P p a = P p b := by rw [h]
theorem tl_congr {a b : A} (h : a = b) : tl a = tl b := by rw [h]

/-- membership in `I 1` of sums / differences / scalar multiples / adjoints of members (order-insensitive) -/
macro "mem_one" : tactic =>
  `(tactic| repeat' (first
      | assumption
      | apply Submodule.add_mem
      | apply Submodule.sub_mem
      | apply Submodule.neg_mem
      | apply Submodule.smul_mem
      | apply Filtered.I_star
      | apply Submodule.zero_mem))

theorem mul_mem_one {a b : A} (ha : a ∈ I (A := A) 1) (hb : b ∈ I (A := A) 1) : a * b ∈ I (A := A) 1 :=
  mem_I_of_le (by norm_num) (I_mul ha hb)

end PV
