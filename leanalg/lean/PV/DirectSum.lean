/-
  Direct sums (C15): the block diagonalization of a direct sum of two decoupled Hamiltonians is the direct sum of the block diagonalizations.
  The coefficient algebra of the direct sum is the product algebra `M × M'` with the block structure and the unperturbed data taken component-wise;
  the two projections are star ring homomorphisms that respect the kept / eliminated split, so `coeff_hom_law` applies to each of them.
-/
import Mathlib.Algebra.Star.Prod
import Mathlib.Algebra.Algebra.Prod
import PV.Laws

namespace PV.DirectSum
open PV PV.Model MvPowerSeries Finset Filtered Blocks Part CoeffBlocks

variable {σ : Type*}
variable {M M' : Type*} [Ring M] [StarRing M] [Algebra ℚ M] [StarModule ℚ M] [CoeffBlocks M]
  [Ring M'] [StarRing M'] [Algebra ℚ M'] [StarModule ℚ M'] [CoeffBlocks M']

attribute [local instance] Classical.propDecidable

/-- component-wise block structure on the product algebra -/
noncomputable instance prodBlocks : CoeffBlocks (M × M') where
  Q p := LinearMap.prodMap (Q p) (Q p)
  Q_sum a := by
    ext
    · simp only [LinearMap.prodMap_apply, Prod.fst_add]; exact Q_sum a.1
    · simp only [LinearMap.prodMap_apply, Prod.snd_add]; exact Q_sum a.2
  Q_comp i j a := by
    ext
    · simp only [LinearMap.prodMap_apply]; rw [Q_comp]; split <;> simp
    · simp only [LinearMap.prodMap_apply]; rw [Q_comp]; split <;> simp
  Q_star i a := by
    ext
    · simp only [LinearMap.prodMap_apply, Prod.fst_star]; exact Q_star i a.1
    · simp only [LinearMap.prodMap_apply, Prod.snd_star]; exact Q_star i a.2
  comm_left a b := by
    ext
    · simp only [LinearMap.prodMap_apply, Prod.fst_add, Prod.fst_mul, Prod.fst_zero]; exact comm_left a.1 b.1
    · simp only [LinearMap.prodMap_apply, Prod.snd_add, Prod.snd_mul, Prod.snd_zero]; exact comm_left a.2 b.2
  comm_right a b := by
    ext
    · simp only [LinearMap.prodMap_apply, Prod.fst_add, Prod.fst_mul, Prod.fst_zero]; exact comm_right a.1 b.1
    · simp only [LinearMap.prodMap_apply, Prod.snd_add, Prod.snd_mul, Prod.snd_zero]; exact comm_right a.2 b.2

theorem Q_fst (p : Part) (a : M × M') : (Q p a).1 = Q p a.1 := rfl
theorem Q_snd (p : Part) (a : M × M') : (Q p a).2 = Q p a.2 := rfl

/-- component-wise unperturbed Hamiltonian and solver -/
noncomputable def prodUnperturbed (c : CoeffUnperturbed M) (c' : CoeffUnperturbed M') : CoeffUnperturbed (M × M') where
  H0 := (c.H0, c'.H0)
  H0_up := Prod.ext c.H0_up c'.H0_up
  H0_lo := Prod.ext c.H0_lo c'.H0_lo
  H0_ed := Prod.ext c.H0_ed c'.H0_ed
  H0_left i a := Prod.ext (c.H0_left i a.1) (c'.H0_left i a.2)
  H0_right i a := Prod.ext (c.H0_right i a.1) (c'.H0_right i a.2)
  Sy z := (c.Sy z.1, c'.Sy z.2)
  Sy_zero := Prod.ext c.Sy_zero c'.Sy_zero
  Sy_up z := Prod.ext (c.Sy_up z.1) (c'.Sy_up z.2)
  Sy_ed z := Prod.ext (c.Sy_ed z.1) (c'.Sy_ed z.2)
  Sy_lo z := Prod.ext (c.Sy_lo z.1) (c'.Sy_lo z.2)
  H0_star := Prod.ext c.H0_star c'.H0_star
  Sy_ed_star z := Prod.ext (c.Sy_ed_star z.1) (c'.Sy_ed_star z.2)

/-- **Direct-sum law (C15).**  Let `e` solve the extracted equations over the product algebra for the Hamiltonian `e.H` with the component-wise unperturbed data, and let `eA`, `eB`
    solve them over the two factors for the two components of `e.H`.  Then every order of `U`, `H_tilde` and `U†` of the direct sum is the pair of the corresponding orders of the
    summands (for matrices: the block-diagonal matrix built from them). -/
theorem direct_sum_law (c : CoeffUnperturbed M) (c' : CoeffUnperturbed M')
    (gap : ∀ x : M, Q kc x + Q kn x = 0 → c.H0 * x - x * c.H0 = 0 → x = 0)
    (gap' : ∀ x : M', Q kc x + Q kn x = 0 → c'.H0 * x - x * c'.H0 = 0 → x = 0)
    (e : MainEqs (MvPowerSeries σ (M × M')) (lift (prodUnperturbed c c')))
    (eA : MainEqs (MvPowerSeries σ M) (lift c)) (eB : MainEqs (MvPowerSeries σ M') (lift c'))
    (hA : eA.H = MvPowerSeries.map (RingHom.fst M M') e.H) (hB : eB.H = MvPowerSeries.map (RingHom.snd M M') e.H) (n : σ →₀ ℕ) :
    coeff n e.U = (coeff n eA.U, coeff n eB.U) ∧ coeff n e.H_tilde = (coeff n eA.H_tilde, coeff n eB.H_tilde) ∧ coeff n e.Ud = (coeff n eA.Ud, coeff n eB.Ud) := by
  have h1 := PV.Laws.coeff_hom_law (σ := σ) (RingHom.fst M M') (fun _ => rfl) (fun _ => rfl) (prodUnperturbed c c') c gap e eA hA n
  have h2 := PV.Laws.coeff_hom_law (σ := σ) (RingHom.snd M M') (fun _ => rfl) (fun _ => rfl) (prodUnperturbed c c') c' gap' e eB hB n
  refine ⟨Prod.ext h1.1.symm h2.1.symm, Prod.ext h1.2.1.symm h2.2.1.symm, Prod.ext h1.2.2.symm h2.2.2.symm⟩

end PV.DirectSum
