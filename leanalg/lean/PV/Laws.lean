/-
  Laws of C13 / C15 as theorems in the concrete model (no "A-MATH" assumption left for these):
    * scaling every perturbation parameter k by a rational c_k multiplies order n of H_tilde, U, U^dagger by prod_k c_k^(n_k);
    * entry-wise complex conjugation of the Hamiltonian conjugates the results (for matrices over a commutative field);
  obtained from the naturality theorem by exhibiting the structure-preserving homomorphism.
-/
import Mathlib.Algebra.BigOperators.Finsupp.Basic
import PV.ModelTheorems
import PV.Unique

namespace PV.Laws
open PV PV.Model MvPowerSeries Finset Filtered Blocks Part CoeffBlocks

variable {σ : Type*} {M : Type*} [Ring M] [StarRing M] [Algebra ℚ M] [StarModule ℚ M]

attribute [local instance] Classical.propDecidable

/-- the weight prod_k c_k^(n_k) of a multi-order -/
noncomputable def wt (c : σ → ℚ) (n : σ →₀ ℕ) : ℚ := n.prod fun k e => c k ^ e

theorem wt_zero (c : σ → ℚ) : wt c 0 = 1 := Finsupp.prod_zero_index

theorem wt_add (c : σ → ℚ) (p q : σ →₀ ℕ) : wt c (p + q) = wt c p * wt c q := by
  unfold wt
  exact Finsupp.prod_add_index' (fun _ => pow_zero _) (fun _ _ _ => pow_add _ _ _)

/-- substitution lambda_k -> c_k lambda_k on series, as a function -/
noncomputable def scaleFun (c : σ → ℚ) (f : MvPowerSeries σ M) : MvPowerSeries σ M := fun n => wt c n • coeff n f

theorem coeff_scaleFun (c : σ → ℚ) (f : MvPowerSeries σ M) (n : σ →₀ ℕ) : coeff n (scaleFun c f) = wt c n • coeff n f := rfl

/-- substitution lambda_k -> c_k lambda_k on series -/
noncomputable def scaleHom (c : σ → ℚ) : MvPowerSeries σ M →+* MvPowerSeries σ M where
  toFun := scaleFun c
  map_one' := by
    ext n
    rw [coeff_scaleFun, coeff_one]
    by_cases h : n = 0
    · subst h; simp [wt_zero]
    · simp [h]
  map_mul' f g := by
    ext n
    rw [coeff_scaleFun, coeff_mul, coeff_mul, Finset.smul_sum]
    apply Finset.sum_congr rfl
    intro p hp
    have hp' : p.1 + p.2 = n := by simpa using hp
    rw [coeff_scaleFun, coeff_scaleFun, ← hp', wt_add, smul_mul_smul_comm]
  map_zero' := by
    ext n
    rw [coeff_scaleFun, map_zero, smul_zero]
  map_add' f g := by
    ext n
    rw [coeff_scaleFun, map_add, map_add, coeff_scaleFun, coeff_scaleFun, smul_add]

theorem coeff_scaleHom (c : σ → ℚ) (f : MvPowerSeries σ M) (n : σ →₀ ℕ) : coeff n (scaleHom c f) = wt c n • coeff n f := rfl

variable [CoeffBlocks M]

/-- C13 (scale law), concrete model: scaling the perturbation parameters by rationals `c_k` multiplies order `n` of every output by `prod c_k^(n_k)` -/
theorem scale_law (c0 : CoeffUnperturbed M)
    (gap : ∀ x : M, Q kc x + Q kn x = 0 → c0.H0 * x - x * c0.H0 = 0 → x = 0)
    (c : σ → ℚ) (e e' : MainEqs (MvPowerSeries σ M) (lift c0)) (hH : e'.H = scaleHom c e.H) (n : σ →₀ ℕ) :
    coeff n e'.U = wt c n • coeff n e.U ∧ coeff n e'.H_tilde = wt c n • coeff n e.H_tilde ∧ coeff n e'.Ud = wt c n • coeff n e.Ud := by
  have hg : Gapped (lift (σ := σ) c0).H0 := by
    intro k v hv hs hc
    exact gapped_lift (σ := σ) c0.toCoeffUnperturbedNH gap k v hv hs hc
  have h := natural (scaleHom (M := M) c)
    (by intro a; ext m; rw [coeff_scaleHom, coeff_star, coeff_star, coeff_scaleHom, star_smul, star_trivial (wt c m)])
    (by
      intro a; ext m
      show wt c m • coeff m (P kc a + P kn a) = coeff m (P kc (scaleHom c a) + P kn (scaleHom c a))
      rw [map_add, map_add, coeff_P, coeff_P, coeff_P, coeff_P, coeff_scaleHom, map_smul, map_smul, smul_add])
    (by
      intro a ha m hm
      rw [coeff_scaleHom, ha m hm, smul_zero])
    hg e e' hH
  refine ⟨?_, ?_, ?_⟩
  · rw [h.1, coeff_scaleHom]
  · rw [h.2.1, coeff_scaleHom]
  · rw [h.2.2, coeff_scaleHom]

end PV.Laws

namespace PV.Laws
open PV PV.Model PV.MatrixModel MvPowerSeries Finset Filtered Blocks Part CoeffBlocks Matrix

variable {σ : Type*} {ι : Type*} [Fintype ι] [DecidableEq ι]
variable {K : Type*} [Field K] [StarRing K] [Algebra ℚ K] [StarModule ℚ K]

/-- entry-wise complex conjugation of a matrix, as a ring homomorphism (K is commutative) -/
noncomputable def conjM : Matrix ι ι K →+* Matrix ι ι K := (starRingEnd K).mapMatrix

theorem conjM_apply (A : Matrix ι ι K) (i j : ι) : conjM A i j = star (A i j) := rfl

/-- entry-wise complex conjugation of every coefficient of a series -/
noncomputable def conjS : MvPowerSeries σ (Matrix ι ι K) →+* MvPowerSeries σ (Matrix ι ι K) := MvPowerSeries.map conjM

theorem coeff_conjS (f : MvPowerSeries σ (Matrix ι ι K)) (n : σ →₀ ℕ) : coeff n (conjS f) = conjM (coeff n f) :=
  MvPowerSeries.coeff_map _ _ _

/-- C15 (conjugation law), concrete model: complex-conjugating the Hamiltonian conjugates H_tilde, U and U^dagger at every order -/
theorem conj_law (μ : Masks ι) (en : Energies μ K) :
    letI := coeffBlocks (K := K) μ
    ∀ (e e' : MainEqs (MvPowerSeries σ (Matrix ι ι K)) (lift (coeffUnperturbed en))), e'.H = conjS e.H →
      ∀ n : σ →₀ ℕ, coeff n e'.U = conjM (coeff n e.U) ∧ coeff n e'.H_tilde = conjM (coeff n e.H_tilde) ∧ coeff n e'.Ud = conjM (coeff n e.Ud) := by
  letI := coeffBlocks (K := K) μ
  intro e e' hH n
  have h := natural (conjS (σ := σ) (ι := ι) (K := K))
    (by
      intro a; ext m i j
      rw [coeff_conjS, coeff_star, coeff_star, coeff_conjS, conjM_apply, Matrix.star_apply, Matrix.star_apply, conjM_apply])
    (by
      intro a; ext m i j
      show conjM (coeff m (P kc a + P kn a)) i j = coeff m (P kc (conjS a) + P kn (conjS a)) i j
      simp only [map_add, coeff_P, coeff_conjS, Matrix.add_apply, conjM_apply]
      show star (maskMap μ kc (coeff m a) i j + maskMap μ kn (coeff m a) i j) = maskMap μ kc (conjM (coeff m a)) i j + maskMap μ kn (conjM (coeff m a)) i j
      rw [maskMap_apply, maskMap_apply, maskMap_apply, maskMap_apply, conjM_apply]
      by_cases h1 : μ.cls i j = kc <;> by_cases h2 : μ.cls i j = kn <;> simp [h1, h2])
    (by
      intro a ha m hm
      rw [coeff_conjS, ha m hm, map_zero])
    (gapped μ en) e e' hH
  refine ⟨?_, ?_, ?_⟩
  · rw [h.1, coeff_conjS]
  · rw [h.2.1, coeff_conjS]
  · rw [h.2.2, coeff_conjS]

end PV.Laws

namespace PV.Laws
open PV PV.Model MvPowerSeries Finset Filtered Blocks Part CoeffBlocks

variable {σ : Type*}

/-- Laws induced by a homomorphism of the COEFFICIENT algebras (C14 / C15): a star ring homomorphism `θ : M → M'` that respects the kept / eliminated split carries
    every order of the outputs for `H` to the outputs for the coefficient-wise image of `H`.  Instances: conjugation by a unitary (change of basis inside the blocks, rotation
    inside degenerate levels), permutation of basis states (`perm_law`), entry-wise conjugation (`conj_law`), projection of a direct sum onto a summand. -/
theorem coeff_hom_law {M M' : Type*} [Ring M] [StarRing M] [Algebra ℚ M] [StarModule ℚ M] [CoeffBlocks M]
    [Ring M'] [StarRing M'] [Algebra ℚ M'] [StarModule ℚ M'] [CoeffBlocks M']
    (θ : M →+* M') (hstar : ∀ a : M, θ (star a) = star (θ a))
    (hQ : ∀ a : M, θ (Q kc a + Q kn a) = Q kc (θ a) + Q kn (θ a))
    (c0 : CoeffUnperturbed M) (c0' : CoeffUnperturbed M')
    (gap' : ∀ x : M', Q kc x + Q kn x = 0 → c0'.H0 * x - x * c0'.H0 = 0 → x = 0)
    (e : MainEqs (MvPowerSeries σ M) (lift c0)) (e' : MainEqs (MvPowerSeries σ M') (lift c0'))
    (hH : e'.H = MvPowerSeries.map θ e.H) (n : σ →₀ ℕ) :
    coeff n e'.U = θ (coeff n e.U) ∧ coeff n e'.H_tilde = θ (coeff n e.H_tilde) ∧ coeff n e'.Ud = θ (coeff n e.Ud) := by
  classical
  have hg : Gapped (lift (σ := σ) c0').H0 := by
    intro k v hv hs hc
    exact gapped_lift (σ := σ) c0'.toCoeffUnperturbedNH gap' k v hv hs hc
  have h := natural (MvPowerSeries.map (σ := σ) θ)
    (by
      intro a; ext m
      rw [coeff_map, coeff_star, coeff_star, coeff_map, hstar])
    (by
      intro a; ext m
      show coeff m (MvPowerSeries.map θ (P kc a + P kn a)) = coeff m (P kc (MvPowerSeries.map θ a) + P kn (MvPowerSeries.map θ a))
      have h1 : coeff m (P kc a + P kn a) = Q kc (coeff m a) + Q kn (coeff m a) := by rw [map_add, coeff_P, coeff_P]
      have h2 : coeff m (P kc (MvPowerSeries.map θ a) + P kn (MvPowerSeries.map θ a)) = Q kc (θ (coeff m a)) + Q kn (θ (coeff m a)) := by
        rw [map_add, coeff_P, coeff_P, coeff_map]
      rw [coeff_map, h1, h2, hQ])
    (by
      intro a ha m hm
      rw [coeff_map, ha m hm, map_zero])
    hg e e' hH
  refine ⟨?_, ?_, ?_⟩
  · rw [h.1, coeff_map]
  · rw [h.2.1, coeff_map]
  · rw [h.2.2, coeff_map]

end PV.Laws

namespace PV.Laws
open PV PV.Model PV.MatrixModel MvPowerSeries Finset Filtered Blocks Part CoeffBlocks Matrix

variable {σ : Type*} {ι ι' : Type*} [Fintype ι] [DecidableEq ι] [Fintype ι'] [DecidableEq ι']
variable {K : Type*} [Field K] [StarRing K] [Algebra ℚ K] [StarModule ℚ K]

/-- relabelling the basis states along a bijection, as a ring homomorphism of matrices -/
noncomputable def permM (π : ι ≃ ι') : Matrix ι ι K →+* Matrix ι' ι' K where
  toFun A := A.submatrix π.symm π.symm
  map_one' := Matrix.submatrix_one_equiv π.symm
  map_mul' A B := (Matrix.submatrix_mul_equiv A B π.symm π.symm π.symm).symm
  map_zero' := by ext i j; rfl
  map_add' A B := by ext i j; rfl

theorem permM_apply (π : ι ≃ ι') (A : Matrix ι ι K) (i j : ι') : permM π A i j = A (π.symm i) (π.symm j) := rfl

/-- C15 (permutation of basis states / relabelling of blocks), matrix model: if the entry classification and the Hamiltonian are transported along a bijection `π` of the
    basis states, so are `H_tilde`, `U`, `U†` at every order.  The energies of the second problem are only required to satisfy the gap condition of its own masks. -/
theorem perm_law (π : ι ≃ ι') (μ : Masks ι) (μ' : Masks ι') (hcls : ∀ i j : ι', μ'.cls i j = μ.cls (π.symm i) (π.symm j))
    (en : Energies μ K) (en' : Energies μ' K) :
    letI := coeffBlocks (K := K) μ
    letI := coeffBlocks (K := K) μ'
    ∀ (e : MainEqs (MvPowerSeries σ (Matrix ι ι K)) (lift (coeffUnperturbed en)))
      (e' : MainEqs (MvPowerSeries σ (Matrix ι' ι' K)) (lift (coeffUnperturbed en'))),
      e'.H = MvPowerSeries.map (permM π) e.H →
      ∀ n : σ →₀ ℕ, coeff n e'.U = permM π (coeff n e.U) ∧ coeff n e'.H_tilde = permM π (coeff n e.H_tilde) ∧ coeff n e'.Ud = permM π (coeff n e.Ud) := by
  letI i1 := coeffBlocks (K := K) μ
  letI i2 := coeffBlocks (K := K) μ'
  intro e e' hH n
  exact coeff_hom_law (M := Matrix ι ι K) (M' := Matrix ι' ι' K) (permM π)
    (by
      intro a; ext i j
      rw [permM_apply, Matrix.star_apply, Matrix.star_apply, permM_apply])
    (by
      intro a; ext i j
      show permM π (maskMap μ kc a + maskMap μ kn a) i j = (maskMap μ' kc (permM π a) + maskMap μ' kn (permM π a)) i j
      rw [permM_apply, Matrix.add_apply, Matrix.add_apply, maskMap_apply, maskMap_apply, maskMap_apply, maskMap_apply, permM_apply, hcls])
    (coeffUnperturbed en) (coeffUnperturbed en')
    (fun x h1 h2 => coeff_gap en'.toEnergiesNH x h1 h2)
    e e' hH n

/-- conjugation `A ↦ W† A W` by a unitary matrix, as a ring homomorphism -/
noncomputable def unitM (W : Matrix ι ι K) (h1 : star W * W = 1) (h2 : W * star W = 1) : Matrix ι ι K →+* Matrix ι ι K where
  toFun A := star W * A * W
  map_one' := by rw [Matrix.mul_one, h1]
  map_mul' A B := by
    have : star W * A * W * (star W * B * W) = star W * A * (W * star W) * B * W := by simp only [Matrix.mul_assoc]
    rw [this, h2, Matrix.mul_one]
    simp only [Matrix.mul_assoc]
  map_zero' := by simp
  map_add' A B := by rw [Matrix.mul_add, Matrix.add_mul]

/-- C15 / C14 (change of basis by a unitary that respects the kept / eliminated pattern - a rotation inside degenerate levels, a unitary inside the blocks when the
    blocks are kept whole): the outputs for `W† H W` are `W† (outputs for H) W`.  The compatibility of `W` with the masks is the hypothesis `hmask`. -/
theorem unitary_law (W : Matrix ι ι K) (h1 : star W * W = 1) (h2 : W * star W = 1) (μ : Masks ι)
    (hmask : ∀ A : Matrix ι ι K, star W * (maskMap μ kc A + maskMap μ kn A) * W = maskMap μ kc (star W * A * W) + maskMap μ kn (star W * A * W))
    (en : Energies μ K) :
    letI := coeffBlocks (K := K) μ
    ∀ (e e' : MainEqs (MvPowerSeries σ (Matrix ι ι K)) (lift (coeffUnperturbed en))),
      e'.H = MvPowerSeries.map (unitM W h1 h2) e.H →
      ∀ n : σ →₀ ℕ, coeff n e'.U = star W * coeff n e.U * W ∧ coeff n e'.H_tilde = star W * coeff n e.H_tilde * W ∧ coeff n e'.Ud = star W * coeff n e.Ud * W := by
  letI := coeffBlocks (K := K) μ
  intro e e' hH n
  exact coeff_hom_law (M := Matrix ι ι K) (M' := Matrix ι ι K) (unitM W h1 h2)
    (by
      intro a
      show star W * star a * W = star (star W * a * W)
      rw [star_mul, star_mul, star_star, Matrix.mul_assoc])
    (by
      intro a
      exact hmask a)
    (coeffUnperturbed en) (coeffUnperturbed en)
    (fun x hx1 hx2 => coeff_gap en.toEnergiesNH x hx1 hx2)
    e e' hH n

end PV.Laws
