/-
  `PV.Direct.greens_solves` for matrices: the hypotheses on linear maps follow from the matrix facts that `linalg.direct_greens_function` is given -
  kernel bases `K` (n × k) and `Lh = L†` (k × n) with `Lh K = 1`, `M K = 0`, `Lh M = 0` - and from the choice of the replaced rows `R`:
  a vector supported on `R` that `Lh` annihilates is zero (`L[R, :]` is invertible; this is what the pivoted QR of the LEFT basis provides).
-/
import Mathlib.Data.Matrix.Mul
import Mathlib.Data.Matrix.Basic
import Mathlib.LinearAlgebra.Matrix.ToLin
import PV.Direct

namespace PV.Direct
open Matrix

set_option linter.unusedSectionVars false

variable {𝕜 : Type*} [Field 𝕜] {n k : Type*} [Fintype n] [Fintype k] [DecidableEq n] [DecidableEq k]

/-- the complement projector `1 - K L†` -/
def proj (K : Matrix n k 𝕜) (Lh : Matrix k n 𝕜) : Matrix n n 𝕜 := 1 - K * Lh

/-- diagonal projection on the rows `R` -/
def rowProj (R : n → Prop) [DecidablePred R] : Matrix n n 𝕜 := Matrix.diagonal (fun i => if R i then (1 : 𝕜) else 0)

theorem proj_idem (K : Matrix n k 𝕜) (Lh : Matrix k n 𝕜) (hLK : Lh * K = 1) : proj K Lh * proj K Lh = proj K Lh := by
  unfold proj
  have h : K * Lh * (K * Lh) = K * Lh := by
    rw [Matrix.mul_assoc, ← Matrix.mul_assoc Lh K Lh, hLK, Matrix.one_mul]
  rw [Matrix.sub_mul, Matrix.mul_sub, Matrix.mul_sub, Matrix.one_mul, Matrix.mul_one, Matrix.one_mul, h]
  abel

theorem proj_mul (M : Matrix n n 𝕜) (K : Matrix n k 𝕜) (Lh : Matrix k n 𝕜) (hLM : Lh * M = 0) : proj K Lh * M = M := by
  unfold proj
  rw [Matrix.sub_mul, Matrix.one_mul, Matrix.mul_assoc, hLM, Matrix.mul_zero, sub_zero]

theorem mul_proj (M : Matrix n n 𝕜) (K : Matrix n k 𝕜) (Lh : Matrix k n 𝕜) (hMK : M * K = 0) : M * proj K Lh = M := by
  unfold proj
  rw [Matrix.mul_sub, Matrix.mul_one, ← Matrix.mul_assoc, hMK, Matrix.zero_mul, sub_zero]

theorem rowProj_mulVec (R : n → Prop) [DecidablePred R] (w : n → 𝕜) (i : n) :
    ((rowProj R : Matrix n n 𝕜) *ᵥ w) i = if R i then w i else 0 := by
  unfold rowProj
  rw [Matrix.mulVec_diagonal]
  split_ifs <;> simp

/-- matrix form of the constrained solve of `direct_greens_function` -/
theorem matrix_greens_solves (M S : Matrix n n 𝕜) (K : Matrix n k 𝕜) (Lh : Matrix k n 𝕜) (R : n → Prop) [DecidablePred R]
    (hLK : Lh * K = 1) (hMK : M * K = 0) (hLM : Lh * M = 0)
    (hDS : (rowProj R : Matrix n n 𝕜) * S = S)
    (row_gauge : ∀ w : n → 𝕜, (∀ i, ¬ R i → w i = 0) → Lh *ᵥ w = 0 → w = 0)
    (y v : n → 𝕜)
    (hy : (M *ᵥ y - (rowProj R : Matrix n n 𝕜) *ᵥ (M *ᵥ y)) + S *ᵥ y
            = proj K Lh *ᵥ v - (rowProj R : Matrix n n 𝕜) *ᵥ (proj K Lh *ᵥ v)) :
    M *ᵥ (proj K Lh *ᵥ y) = proj K Lh *ᵥ v ∧ proj K Lh *ᵥ (proj K Lh *ᵥ y) = proj K Lh *ᵥ y := by
  have hPP := proj_idem K Lh hLK
  have hPM := proj_mul M K Lh hLM
  have hMP := mul_proj M K Lh hMK
  have hDD : (rowProj R : Matrix n n 𝕜) * rowProj R = rowProj R := by
    unfold rowProj
    rw [Matrix.diagonal_mul_diagonal]
    congr 1
    funext i
    split_ifs <;> simp
  refine greens_solves (Matrix.mulVecLin M) (Matrix.mulVecLin (proj K Lh)) (Matrix.mulVecLin (rowProj R)) (Matrix.mulVecLin S)
    ?_ ?_ ?_ ?_ ?_ ?_ y v ?_
  · intro x; simp only [Matrix.mulVecLin_apply, Matrix.mulVec_mulVec, hPP]
  · intro x; simp only [Matrix.mulVecLin_apply, Matrix.mulVec_mulVec, hPM]
  · intro x; simp only [Matrix.mulVecLin_apply, Matrix.mulVec_mulVec, hMP]
  · intro x; simp only [Matrix.mulVecLin_apply, Matrix.mulVec_mulVec, hDD]
  · intro x; simp only [Matrix.mulVecLin_apply, Matrix.mulVec_mulVec, hDS]
  · intro w hD hP
    simp only [Matrix.mulVecLin_apply] at hD hP
    apply row_gauge w
    · intro i hi
      have := congrFun hD i
      rw [rowProj_mulVec, if_neg hi] at this
      exact this.symm
    · -- P w = w  means  K (Lh w) = 0, hence Lh w = (Lh K) (Lh w) = 0
      have h1 : (K * Lh) *ᵥ w = 0 := by
        have : proj K Lh *ᵥ w = w - (K * Lh) *ᵥ w := by
          unfold proj; rw [Matrix.sub_mulVec, Matrix.one_mulVec]
        rw [this] at hP
        exact sub_eq_self.mp hP
      have h2 : Lh *ᵥ ((K * Lh) *ᵥ w) = Lh *ᵥ w := by
        rw [Matrix.mulVec_mulVec, ← Matrix.mul_assoc, hLK, Matrix.one_mul]
      rw [← h2, h1, Matrix.mulVec_zero]
  · simpa only [Matrix.mulVecLin_apply] using hy

/-- the constrained matrix is injective: `K` spans the whole kernel of `M`, and a kernel vector whose constrained unknowns vanish is zero (`K[C, :]` invertible) -/
theorem matrix_constrained_injective (M S : Matrix n n 𝕜) (K : Matrix n k 𝕜) (Lh : Matrix k n 𝕜) (R : n → Prop) [DecidablePred R]
    (hLK : Lh * K = 1) (hLM : Lh * M = 0)
    (hDS : (rowProj R : Matrix n n 𝕜) * S = S)
    (row_gauge : ∀ w : n → 𝕜, (∀ i, ¬ R i → w i = 0) → Lh *ᵥ w = 0 → w = 0)
    (col_gauge : ∀ c : k → 𝕜, S *ᵥ (K *ᵥ c) = 0 → K *ᵥ c = 0)
    (hker : ∀ x : n → 𝕜, M *ᵥ x = 0 → x = K *ᵥ (Lh *ᵥ x))
    (x : n → 𝕜) (hx : (M *ᵥ x - (rowProj R : Matrix n n 𝕜) *ᵥ (M *ᵥ x)) + S *ᵥ x = 0) : x = 0 := by
  have hPM := proj_mul M K Lh hLM
  have hDD : (rowProj R : Matrix n n 𝕜) * rowProj R = rowProj R := by
    unfold rowProj
    rw [Matrix.diagonal_mul_diagonal]
    congr 1
    funext i
    split_ifs <;> simp
  have hPx : ∀ z : n → 𝕜, proj K Lh *ᵥ z = z - K *ᵥ (Lh *ᵥ z) := by
    intro z; unfold proj; rw [Matrix.sub_mulVec, Matrix.one_mulVec, Matrix.mulVec_mulVec]
  refine constrained_injective (Matrix.mulVecLin M) (Matrix.mulVecLin (proj K Lh)) (Matrix.mulVecLin (rowProj R)) (Matrix.mulVecLin S)
    ?_ ?_ ?_ ?_ ?_ ?_ x ?_
  · intro z; simp only [Matrix.mulVecLin_apply, Matrix.mulVec_mulVec, hPM]
  · intro z; simp only [Matrix.mulVecLin_apply, Matrix.mulVec_mulVec, hDD]
  · intro z; simp only [Matrix.mulVecLin_apply, Matrix.mulVec_mulVec, hDS]
  · intro w hD hP
    simp only [Matrix.mulVecLin_apply] at hD hP
    apply row_gauge w
    · intro i hi
      have := congrFun hD i
      rw [rowProj_mulVec, if_neg hi] at this
      exact this.symm
    · have h1 : K *ᵥ (Lh *ᵥ w) = 0 := by
        rw [hPx] at hP
        exact sub_eq_self.mp hP
      have h2 : Lh *ᵥ (K *ᵥ (Lh *ᵥ w)) = Lh *ᵥ w := by
        rw [Matrix.mulVec_mulVec, hLK, Matrix.one_mulVec]
      rw [← h2, h1, Matrix.mulVec_zero]
  · intro z hP hS
    simp only [Matrix.mulVecLin_apply] at hP hS
    have hz : z = K *ᵥ (Lh *ᵥ z) := by
      rw [hPx] at hP
      exact sub_eq_zero.mp hP
    rw [hz] at hS
    rw [hz]
    exact col_gauge _ hS
  · intro z hM
    simp only [Matrix.mulVecLin_apply] at hM ⊢
    rw [hPx]
    exact sub_eq_zero.mpr (hker z hM)
  · simpa only [Matrix.mulVecLin_apply] using hx

end PV.Direct
