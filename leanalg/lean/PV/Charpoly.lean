/-
  C04: a similarity transformation by an invertible matrix over a commutative ring (here: matrices over
  power series in the perturbation parameters, or their truncations) does not change the characteristic
  polynomial; ring homomorphisms (truncation at total order N) commute with the characteristic polynomial.
  Premises supplied by C01 / C02:  U_inv * U = 1,  U * U_inv = 1,  H_tilde = U_inv * H * U.
-/
import Mathlib.LinearAlgebra.Matrix.Charpoly.Coeff

namespace PV

open Matrix

variable {R S : Type*} [CommRing R] [CommRing S] {n : Type*} [Fintype n] [DecidableEq n]

/-- the block-diagonalised Hamiltonian has the characteristic polynomial of the original one -/
theorem C04_charpoly_similarity (H U Ui Ht : Matrix n n R) (hl : Ui * U = 1) (hr : U * Ui = 1)
    (hs : Ht = Ui * H * U) : Ht.charpoly = H.charpoly := by
  let u : (Matrix n n R)ˣ := ⟨Ui, U, hl, hr⟩
  have h := Matrix.charpoly_units_conj u H
  have hu : ((u : (Matrix n n R)ˣ) : Matrix n n R) = Ui := rfl
  rw [hu] at h
  have hinv : Ui⁻¹ = U := Matrix.inv_eq_right_inv hl
  rw [hs]
  first
    | (rw [hinv] at h; exact h)
    | (have hu2 : ((u⁻¹ : (Matrix n n R)ˣ) : Matrix n n R) = U := rfl
       rw [hu2] at h; exact h)

/-- truncating the perturbation series (any ring homomorphism) commutes with the characteristic polynomial -/
theorem C04_charpoly_truncation (f : R →+* S) (M : Matrix n n R) :
    (M.map f).charpoly = M.charpoly.map f := Matrix.charpoly_map M f

/-- hence the truncated effective Hamiltonian and the truncated exact Hamiltonian have the same characteristic polynomial -/
theorem C04_truncated (f : R →+* S) (H U Ui Ht : Matrix n n R) (hl : Ui * U = 1) (hr : U * Ui = 1)
    (hs : Ht = Ui * H * U) : (Ht.map f).charpoly = (H.map f).charpoly := by
  rw [C04_charpoly_truncation, C04_charpoly_truncation, C04_charpoly_similarity H U Ui Ht hl hr hs]

end PV
