/-
  Non-Hermitian counterpart of PV/Unique.lean: uniqueness of the block-diagonalising similarity
  transformation in the gauge `Sel (U - U_inv) = 0`, and naturality of the output of
  `pymablock.algorithms.nonhermitian` (under the same hypothesis as C05_similarity).
-/
import PV.NonHermProof
import PV.Unique

namespace PV
open Filtered Blocks Part

section CharNH
variable {A : Type*} [Ring A] [StarRing A] [Algebra ℚ A] [StarModule ℚ A] [Filtered A] [Blocks A]

structure LeastActionNH (H U Ui Ht : A) : Prop where
  U_mem : U - 1 ∈ I (A := A) 1
  Ui_mem : Ui - 1 ∈ I (A := A) 1
  inv_left : Ui * U = 1
  inv_right : U * Ui = 1
  sim : Ui * H * U = Ht
  elim : Rem Ht = 0
  gauge : Sel (U - Ui) = 0

theorem nh_step (u : UnperturbedNH A) (hg : Gapped u.H0) {H U1 U2 V1 V2 Ht1 Ht2 : A} (hH : H - u.H0 ∈ I (A := A) 1)
    (h1 : LeastActionNH H U1 V1 Ht1) (h2 : LeastActionNH H U2 V2 Ht2) (n : ℕ) (hn : U1 - U2 ∈ I (A := A) n) :
    U1 - U2 ∈ I (A := A) (n + 1) := by
  set δ := U1 - U2 with hδ
  set δi := V1 - V2 with hδi
  set a := U1 - 1 with ha
  set ai := V1 - 1 with hai
  set bi := V2 - 1 with hbi
  set h := H - u.H0 with hh
  have hU1 : U1 = 1 + a := by rw [ha]; abel
  have hV1 : V1 = 1 + ai := by rw [hai]; abel
  have hV2 : V2 = 1 + bi := by rw [hbi]; abel
  have hHs : H = u.H0 + h := by rw [hh]; abel
  have ham : a ∈ I (A := A) 1 := h1.U_mem
  have haim : ai ∈ I (A := A) 1 := h1.Ui_mem
  have hbim : bi ∈ I (A := A) 1 := h2.Ui_mem
  have e0 : δi = - (V1 * δ * V2) := by
    have : V1 * δ * V2 = (V1 * U1) * V2 - V1 * (U2 * V2) := by rw [hδ]; noncomm_ring
    rw [this, h1.inv_left, h2.inv_right, hδi]; noncomm_ring
  have hδim : δi ∈ I (A := A) n := by
    rw [e0]; exact Submodule.neg_mem _ (mul_mem_right' _ (mul_mem_left' _ hn))
  have hr : δi + δ ∈ I (A := A) (n + 1) := by
    have e1 : δi + δ = - (δ * bi + ai * δ * V2) := by
      rw [e0]
      have : V1 * δ * V2 = (1 + ai) * δ * (1 + bi) := by rw [← hV1, ← hV2]
      rw [this]
      have : ai * δ * V2 = ai * δ * (1 + bi) := by rw [← hV2]
      rw [this]; noncomm_ring
    rw [e1]
    refine Submodule.neg_mem _ (Submodule.add_mem _ (mul_mem_succ_right hbim hn) (mul_mem_right' _ (mul_mem_succ_left haim hn)))
  set r := δi + δ with hrdef
  have hc : (Ht1 - Ht2) - (u.H0 * δ - δ * u.H0) ∈ I (A := A) (n + 1) := by
    have e2 : Ht1 - Ht2 = δi * H * U1 + V2 * H * δ := by
      rw [← h1.sim, ← h2.sim, hδ, hδi]; noncomm_ring
    have e3 : (Ht1 - Ht2) - (u.H0 * δ - δ * u.H0)
        = r * u.H0 + δi * u.H0 * a + δi * h * U1 + bi * u.H0 * δ + V2 * h * δ := by
      rw [e2, hHs]
      have : δi * (u.H0 + h) * U1 + V2 * (u.H0 + h) * δ - (u.H0 * δ - δ * u.H0)
          = (δi + δ) * u.H0 + δi * u.H0 * (U1 - 1) + δi * h * U1 + (V2 - 1) * u.H0 * δ + V2 * h * δ := by
        noncomm_ring
      rw [this]
    rw [e3]
    have t1 : r * u.H0 ∈ I (A := A) (n + 1) := mul_mem_right' _ hr
    have t2 : δi * u.H0 * a ∈ I (A := A) (n + 1) := mul_mem_succ_right ham (mul_mem_right' _ hδim)
    have t3 : δi * h * U1 ∈ I (A := A) (n + 1) := mul_mem_right' _ (mul_mem_succ_right hH hδim)
    have t4 : bi * u.H0 * δ ∈ I (A := A) (n + 1) := by
      rw [mul_assoc]; exact mul_mem_succ_left hbim (mul_mem_left' _ hn)
    have t5 : V2 * h * δ ∈ I (A := A) (n + 1) := by
      rw [mul_assoc]; exact mul_mem_left' _ (mul_mem_succ_left hH hn)
    exact Submodule.add_mem _ (Submodule.add_mem _ (Submodule.add_mem _ (Submodule.add_mem _ t1 t2) t3) t4) t5
  have hrem : Rem δ ∈ I (A := A) (n + 1) := by
    apply hg n (Rem δ) (Rem_mem hn) (Sel_Rem δ)
    have := Rem_mem hc
    rw [Rem_sub, Rem_sub, h1.elim, h2.elim, sub_self, zero_sub, Rem_comm] at this
    have h3 := Submodule.neg_mem _ this
    rwa [neg_neg] at h3
  have hsel : Sel δ ∈ I (A := A) (n + 1) := by
    have g : Sel (δ - δi) = 0 := by
      have : δ - δi = (U1 - V1) - (U2 - V2) := by rw [hδ, hδi]; abel
      rw [this, Sel_sub, h1.gauge, h2.gauge, sub_self]
    have e4 : δ - δi = (2:ℚ) • δ - r := by rw [hrdef]; module
    rw [e4, Sel_sub, Sel_smul] at g
    have e5 : Sel δ = ((1:ℚ)/2) • Sel r := by
      have : (2:ℚ) • Sel δ = Sel r := sub_eq_zero.mp g
      rw [← this, smul_smul]; norm_num
    rw [e5]
    exact Submodule.smul_mem _ _ (Sel_mem hr)
  rw [← Sel_add_Rem δ]
  exact Submodule.add_mem _ hsel hrem

theorem nh_unique (u : UnperturbedNH A) (hg : Gapped u.H0) {H U1 U2 V1 V2 Ht1 Ht2 : A} (hH : H - u.H0 ∈ I (A := A) 1)
    (h1 : LeastActionNH H U1 V1 Ht1) (h2 : LeastActionNH H U2 V2 Ht2) : U1 = U2 ∧ V1 = V2 ∧ Ht1 = Ht2 := by
  have hU : U1 = U2 := by
    have : U1 - U2 = 0 := eq_zero_of_contraction _ (nh_step u hg hH h1 h2)
    exact sub_eq_zero.mp this
  have hV : V1 = V2 := by
    calc V1 = V1 * (U2 * V2) := by rw [h2.inv_right, mul_one]
      _ = (V1 * U1) * V2 := by rw [hU, mul_assoc]
      _ = V2 := by rw [h1.inv_left, one_mul]
  refine ⟨hU, hV, ?_⟩
  rw [← h1.sim, ← h2.sim, hU, hV]

namespace NH

theorem code_least_action {u : UnperturbedNH A} (e : NonHermEqs A u)
    (hk : u.H0 * (P kc e.Up + P kn e.Up) = (P kc e.Up + P kn e.Up) * u.H0) :
    LeastActionNH e.H e.U e.Ud e.H_tilde where
  U_mem := by
    rw [U_eq]
    have : 1 + e.Up - 1 = e.Up := by abel
    rw [this]; exact Up_mem e
  Ui_mem := by
    rw [Ud_eq]
    have : 1 + e.U_invp - 1 = e.U_invp := by abel
    rw [this]; exact G_mem e
  inv_left := C05_inverse_left e
  inv_right := C05_inverse_right e
  sim := C05_similarity e hk
  elim := by
    unfold Rem
    rw [← C05_similarity e hk, C05_eliminated e hk up (Or.inl rfl), C05_eliminated e hk lo (Or.inr (Or.inl rfl)),
      C05_eliminated e hk ed (Or.inr (Or.inr rfl))]
    simp
  gauge := by
    unfold Sel
    rw [C05_gauge e kc (Or.inl rfl), C05_gauge e kn (Or.inr rfl), add_zero]

theorem H_sub_H0_mem {u : UnperturbedNH A} (e : NonHermEqs A u) : e.H - u.H0 ∈ I (A := A) 1 := by
  have h := e.in_H_zeroth
  have : e.H - u.H0 = tl e.H := by rw [← h]; abel
  rw [this]; exact tl_mem _

end NH
end CharNH

section NatNH
variable {A : Type*} [Ring A] [StarRing A] [Algebra ℚ A] [StarModule ℚ A] [Filtered A] [Blocks A]
variable {A' : Type*} [Ring A'] [StarRing A'] [Algebra ℚ A'] [StarModule ℚ A'] [Filtered A'] [Blocks A']

/-- naturality of the non-Hermitian algorithm (no star required of `φ`), under the hypothesis of C05_similarity
    on both sides -/
theorem natural_nh {u : UnperturbedNH A} {u' : UnperturbedNH A'} (φ : A →+* A')
    (hSel : ∀ a : A, φ (Sel a) = Sel (φ a))
    (hI : ∀ a : A, a ∈ I (A := A) 1 → φ a ∈ I (A := A') 1)
    (hg : Gapped u'.H0) (e : NonHermEqs A u) (e' : NonHermEqs A' u') (hH : e'.H = φ e.H)
    (hk : u.H0 * (P kc e.Up + P kn e.Up) = (P kc e.Up + P kn e.Up) * u.H0)
    (hk' : u'.H0 * (P kc e'.Up + P kn e'.Up) = (P kc e'.Up + P kn e'.Up) * u'.H0) :
    e'.U = φ e.U ∧ e'.Ud = φ e.Ud ∧ e'.H_tilde = φ e.H_tilde := by
  have hl := NH.code_least_action e hk
  have hRem : ∀ a : A, φ (Rem a) = Rem (φ a) := by
    intro a; rw [Rem_eq, Rem_eq, map_sub, hSel]
  have hl' : LeastActionNH e'.H (φ e.U) (φ e.Ud) (φ e.H_tilde) :=
    { U_mem := by
        have := hI _ hl.U_mem
        rwa [map_sub, map_one] at this
      Ui_mem := by
        have := hI _ hl.Ui_mem
        rwa [map_sub, map_one] at this
      inv_left := by rw [← map_mul, hl.inv_left, map_one]
      inv_right := by rw [← map_mul, hl.inv_right, map_one]
      sim := by rw [hH, ← map_mul, ← map_mul, hl.sim]
      elim := by rw [← hRem, hl.elim, map_zero]
      gauge := by rw [← map_sub, ← hSel, hl.gauge, map_zero] }
  exact nh_unique u' hg (NH.H_sub_H0_mem e') (NH.code_least_action e' hk') hl'

/-- Hermitian limit (C05): when the Hermitian algorithm's output exists for the same `H`, the
    non-Hermitian algorithm returns the same `U`, `U_inv = U†` and `H_tilde`. -/
theorem C05_hermitian_limit {u : Unperturbed A} (hg : Gapped u.H0) (e : NonHermEqs A u.toUnperturbedNH) (m : MainEqs A u) (hH : e.H = m.H)
    (hk : u.H0 * (P kc e.Up + P kn e.Up) = (P kc e.Up + P kn e.Up) * u.H0) :
    e.U = m.U ∧ e.Ud = m.Ud ∧ e.H_tilde = m.H_tilde := by
  have hm := code_least_action m
  have hm' : LeastActionNH e.H m.U m.Ud m.H_tilde :=
    { U_mem := hm.U_mem
      Ui_mem := by
        rw [Ud_eq]
        have : 1 + m.Upd - 1 = m.Upd := by abel
        rw [this]; exact Upd_mem m
      inv_left := C02_unit_left m
      inv_right := C02_unit_right m
      sim := by rw [hH]; exact C01_similarity m
      elim := hm.elim
      gauge := by rw [C02_adjoint m]; exact hm.gauge }
  exact nh_unique u.toUnperturbedNH hg (NH.H_sub_H0_mem e) (NH.code_least_action e hk) hm'

end NatNH

end PV
