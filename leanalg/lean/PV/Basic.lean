/-
  Algebraic setting for the perturbative block-diagonalisation algorithms (DESIGN.md 1.2).
  `A` is the ring of block series with the Cauchy product; `I n` = "all terms of order < n vanish".
-/
import Mathlib.Algebra.Star.Module
import Mathlib.Algebra.Algebra.Basic
import Mathlib.Algebra.Module.Submodule.Basic
import Mathlib.Algebra.Module.Submodule.Lattice
import Mathlib.Tactic.NoncommRing
import Mathlib.Tactic.Module
import Mathlib.Tactic.Abel
import Mathlib.Tactic.Linarith

namespace PV

/-- A star ring over ℚ with a separated, multiplicative, star-stable descending filtration. -/
class Filtered (A : Type*) [Ring A] [StarRing A] [Algebra ℚ A] [StarModule ℚ A] where
  I : ℕ → Submodule ℚ A
  I_zero : I 0 = ⊤
  I_anti : ∀ n, I (n + 1) ≤ I n
  I_mul : ∀ {m n : ℕ} {a b : A}, a ∈ I m → b ∈ I n → a * b ∈ I (m + n)
  I_star : ∀ {n : ℕ} {a : A}, a ∈ I n → star a ∈ I n
  I_sep : ∀ a : A, (∀ n, a ∈ I n) → a = 0

variable {A : Type*} [Ring A] [StarRing A] [Algebra ℚ A] [StarModule ℚ A] [Filtered A]

open Filtered

theorem mem_I_of_le {m n : ℕ} (h : m ≤ n) {a : A} (ha : a ∈ I (A := A) n) : a ∈ I (A := A) m := by
  induction h with
  | refl => exact ha
  | step _ ih => exact ih (I_anti _ ha)

theorem mul_mem_succ_left {n : ℕ} {p d : A} (hp : p ∈ I (A := A) 1) (hd : d ∈ I (A := A) n) :
    p * d ∈ I (A := A) (n + 1) := by
  have := I_mul (A := A) hp hd
  rwa [Nat.add_comm] at this

theorem mul_mem_succ_right {n : ℕ} {p d : A} (hp : p ∈ I (A := A) 1) (hd : d ∈ I (A := A) n) :
    d * p ∈ I (A := A) (n + 1) := I_mul (A := A) hd hp

/-- Contraction: if `d` is reproduced by a map that raises the order, then `d = 0`. -/
theorem eq_zero_of_contraction (d : A) (h : ∀ n, d ∈ I (A := A) n → d ∈ I (A := A) (n + 1)) : d = 0 := by
  apply I_sep
  intro n
  induction n with
  | zero => rw [I_zero]; trivial
  | succ n ih => exact h n ih

end PV
