/-
  The two-block situation in the concrete model: basis states carry a block label in {false, true}, entries inside a block are
  kept (`kc`), entries between the blocks are eliminated (`up` / `lo`).  This is the situation in which `block_diagonalize` sets
  `two_block_optimized` (two blocks, no `fully_diagonalize`); the class `TwoBlocks` holds, so PV/TwoBlock.lean applies.
-/
import PV.ModelTheorems
import PV.TwoBlockCor

namespace PV.MatrixModel
open PV PV.Model Part Matrix MvPowerSeries Filtered Blocks

variable {ι : Type*} [Fintype ι] [DecidableEq ι]
variable {K : Type*} [Field K] [StarRing K] [Algebra ℚ K] [StarModule ℚ K]
variable {σ : Type*}

/-- classification of entries by the block labels of row and column -/
def cls2 (blk : ι → Bool) (i j : ι) : Part :=
  if blk i = blk j then kc else if blk i = false then up else lo

theorem cls2_kc {blk : ι → Bool} {i j : ι} : cls2 blk i j = kc ↔ blk i = blk j := by
  unfold cls2
  cases hi : blk i <;> cases hj : blk j <;> simp

theorem cls2_cases (blk : ι → Bool) (i j : ι) : cls2 blk i j = kc ∨ cls2 blk i j = up ∨ cls2 blk i j = lo := by
  unfold cls2
  cases hi : blk i <;> cases hj : blk j <;> simp

def masks2 (blk : ι → Bool) : Masks ι where
  cls := cls2 blk
  cls_sw i j := by
    unfold cls2
    by_cases h : blk i = blk j
    · simp [h, Part.sw]
    · have h' : ¬ blk j = blk i := fun e => h e.symm
      cases hi : blk i <;> cases hj : blk j <;> simp_all [Part.sw]
  cls_diag i := by left; exact cls2_kc.mpr rfl
  comm_l i j k hik hr hs := by
    have h1 : blk i = blk k := cls2_kc.mp hik
    have h2 : blk j = blk k := by
      rcases hs with h | h
      · exact cls2_kc.mp h
      · rcases cls2_cases blk j k with c | c | c <;> rw [c] at h <;> cases h
    have h3 : ¬ blk i = blk j := by
      intro e
      have : cls2 blk i j = kc := cls2_kc.mpr e
      rcases hr with h | h | h <;> rw [this] at h <;> cases h
    exact h3 (h1.trans h2.symm)
  comm_r i j k hik hs hr := by
    have h1 : blk i = blk k := cls2_kc.mp hik
    have h2 : blk i = blk j := by
      rcases hs with h | h
      · exact cls2_kc.mp h
      · rcases cls2_cases blk i j with c | c | c <;> rw [c] at h <;> cases h
    have h3 : ¬ blk j = blk k := by
      intro e
      have : cls2 blk j k = kc := cls2_kc.mpr e
      rcases hr with h | h | h <;> rw [this] at h <;> cases h
    exact h3 (h2.symm.trans h1)

theorem no_ed (blk : ι → Bool) (i j : ι) : ¬ cls2 blk i j = ed := by
  rcases cls2_cases blk i j with c | c | c <;> rw [c] <;> decide
theorem no_kn (blk : ι → Bool) (i j : ι) : ¬ cls2 blk i j = kn := by
  rcases cls2_cases blk i j with c | c | c <;> rw [c] <;> decide

/-- the coefficient-level block structure of the two-block model (explicit instance) -/
@[reducible] noncomputable def cb2 (K : Type*) [Field K] [StarRing K] [Algebra ℚ K] [StarModule ℚ K] (blk : ι → Bool) :
    CoeffBlocks (Matrix ι ι K) := coeffBlocks (K := K) (masks2 blk)

/-- entries of the off-diagonal part -/
theorem off_entry (blk : ι → Bool) (A B : Matrix ι ι K) (i j : ι) :
    ((cb2 K blk).Q up A + (cb2 K blk).Q lo B) i j = if blk i = blk j then 0 else (if blk i = false then A i j else B i j) := by
  rw [Matrix.add_apply]
  show (if cls2 blk i j = up then A i j else 0) + (if cls2 blk i j = lo then B i j else 0) = _
  unfold cls2
  cases hi : blk i <;> cases hj : blk j <;> simp

theorem diag_entry2 (blk : ι → Bool) (A : Matrix ι ι K) (i j : ι) :
    (cb2 K blk).Q kc A i j = if blk i = blk j then A i j else 0 := by
  show (if cls2 blk i j = kc then A i j else 0) = _
  by_cases h : blk i = blk j
  · rw [if_pos (cls2_kc.mpr h), if_pos h]
  · rw [if_neg (fun e => h (cls2_kc.mp e)), if_neg h]

theorem bool3 {x y z : Bool} (h1 : ¬ x = y) (h2 : ¬ y = z) : x = z := by
  cases x <;> cases y <;> cases z <;> simp_all

/-- the class `TwoBlocks` for series of two-block matrices -/
theorem twoBlocks (blk : ι → Bool) :
    @TwoBlocks (MvPowerSeries σ (Matrix ι ι K)) _ _ _ _ _ (@Model.blocks σ (Matrix ι ι K) _ _ _ _ (cb2 K blk)) := by
  letI : CoeffBlocks (Matrix ι ι K) := cb2 K blk
  classical
  refine { ed_zero := ?_, kn_zero := ?_, DD := ?_, DO := ?_, OD := ?_, OO := ?_ }
  · intro a; ext n i j
    show (if cls2 blk i j = ed then _ else 0) = 0
    rw [if_neg (no_ed blk i j)]
  · intro a; ext n i j
    show (if cls2 blk i j = kn then _ else 0) = 0
    rw [if_neg (no_kn blk i j)]
  · intro a b; ext n i k
    rw [coeff_P, coeff_mul, diag_entry2]
    by_cases h : blk i = blk k
    · rw [if_pos h]
    · rw [if_neg h, Matrix.sum_apply]
      symm
      apply Finset.sum_eq_zero
      intro p _
      rw [coeff_P, coeff_P, Matrix.mul_apply]
      apply Finset.sum_eq_zero
      intro j _
      rw [diag_entry2, diag_entry2]
      by_cases h1 : blk i = blk j
      · have h2 : ¬ blk j = blk k := fun e => h (h1.trans e)
        rw [if_neg h2, mul_zero]
      · rw [if_neg h1, zero_mul]
  · intro a b; ext n i k
    rw [coeff_P, coeff_mul, diag_entry2]
    by_cases h : blk i = blk k
    · rw [if_pos h, Matrix.sum_apply]
      show _ = (0 : Matrix ι ι K) i k
      rw [Matrix.zero_apply]
      apply Finset.sum_eq_zero
      intro p _
      rw [coeff_P, map_add, coeff_P, coeff_P, Matrix.mul_apply]
      apply Finset.sum_eq_zero
      intro j _
      rw [diag_entry2, off_entry]
      by_cases h1 : blk i = blk j
      · have h2 : blk j = blk k := h1.symm.trans h
        rw [if_pos h2, mul_zero]
      · rw [if_neg h1, zero_mul]
    · rw [if_neg h]; rfl
  · intro a b; ext n i k
    rw [coeff_P, coeff_mul, diag_entry2]
    by_cases h : blk i = blk k
    · rw [if_pos h, Matrix.sum_apply]
      show _ = (0 : Matrix ι ι K) i k
      rw [Matrix.zero_apply]
      apply Finset.sum_eq_zero
      intro p _
      rw [map_add, coeff_P, coeff_P, coeff_P, Matrix.mul_apply]
      apply Finset.sum_eq_zero
      intro j _
      rw [diag_entry2, off_entry]
      by_cases h1 : blk i = blk j
      · rw [if_pos h1, zero_mul]
      · have h2 : ¬ blk j = blk k := fun e => h1 (h.trans e.symm)
        rw [if_neg h2, mul_zero]
    · rw [if_neg h]; rfl
  · intro a b; ext n i k
    rw [coeff_P, coeff_mul, diag_entry2]
    by_cases h : blk i = blk k
    · rw [if_pos h]
    · rw [if_neg h, Matrix.sum_apply]
      symm
      apply Finset.sum_eq_zero
      intro p _
      rw [map_add, map_add, coeff_P, coeff_P, coeff_P, coeff_P, Matrix.mul_apply]
      apply Finset.sum_eq_zero
      intro j _
      rw [off_entry, off_entry]
      by_cases h1 : blk i = blk j
      · rw [if_pos h1, zero_mul]
      · by_cases h2 : blk j = blk k
        · rw [if_pos h2, mul_zero]
        · exact (h (bool3 h1 h2)).elim

/-- C01-C03 for the two-block-optimised variant on two-block matrices of power series -/
theorem two_block_theorems (blk : ι → Bool) (en : Energies (masks2 blk) K) :
    letI : CoeffBlocks (Matrix ι ι K) := cb2 K blk
    ∀ e : MainEqs2b (MvPowerSeries σ (Matrix ι ι K)) (lift (coeffUnperturbed en)),
      e.Ud * e.H * e.U = e.H_tilde ∧ e.Ud * e.U = 1 ∧ e.U * e.Ud = 1 ∧ e.Ud = star e.U ∧
      Rem e.H_tilde = 0 ∧ Sel (e.U - star e.U) = 0 := by
  letI : CoeffBlocks (Matrix ι ι K) := cb2 K blk
  haveI : TwoBlocks (MvPowerSeries σ (Matrix ι ι K)) := twoBlocks (σ := σ) (K := K) blk
  intro e
  have hl := TB.code_least_action e
  exact ⟨TB.C01_similarity e, TB.C02_unit_left e, TB.C02_unit_right e, TB.C02_adjoint e, hl.elim, hl.gauge⟩

end PV.MatrixModel
