import PV.Basic
import PV.Setting
import PV.Generated
import PV.MainProof
