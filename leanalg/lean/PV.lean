import PV.Basic
import PV.Setting
import PV.Lemmas
import PV.Generated
import PV.MainProof
import PV.NonHermProof
import PV.Charpoly
