"""Run the Lean development against the equations extracted from /repo's algorithms.py.

Steps (every run): regenerate PV/Generated.lean from the working tree; `lake build`; parse the
compiler output.  Each *top-level theorem* is one named obligation; it is discharged iff Lean
reports no error for it and `#print axioms` shows no `sorryAx` (Lean keeps elaborating after a
failed declaration, replacing it by sorry, so a broken lemma surfaces in exactly the top-level
theorems that depend on it).  Results are cached by the hash of all Lean inputs, so the
properties that share this development pay for one build.
"""
from __future__ import annotations

import fcntl
import hashlib
import json
import os
import re
import subprocess
import time

from . import genlean

HERE = os.path.dirname(os.path.abspath(__file__))
LEAN_DIR = os.path.join(HERE, "lean")

# top-level theorems (obligation name -> Lean constant), per proof file
TOP = {
    "MainProof": [
        "PV.pairing", "PV.unit_left", "PV.unit_right", "PV.X_comm", "PV.main_similarity",
        "PV.C01_similarity", "PV.C01_eliminated",
        "PV.C02_unit_left", "PV.C02_unit_right", "PV.C02_adjoint", "PV.C02_Htilde_star",
        "PV.C03_gauge",
    ],
    "Charpoly": ["PV.C04_charpoly_similarity", "PV.C04_charpoly_truncation", "PV.C04_truncated"],
    "NonHermProof": [
        "PV.NH.inv_left", "PV.NH.inv_right", "PV.NH.C05_inverse_left", "PV.NH.C05_inverse_right", "PV.NH.C05_gauge",
        "PV.NH.X_comm", "PV.NH.main_similarity", "PV.NH.C05_similarity", "PV.NH.C05_eliminated",
    ],
    "TwoBlock": ["PV.TB.comm_WV", "PV.TB.pairing", "PV.TB.unit_left", "PV.TB.unit_right", "PV.TB.Dx_zero", "PV.TB.X_comm", "PV.TB.toMain",
                 "PV.TB.C01_similarity", "PV.TB.C01_eliminated", "PV.TB.C02_unit_left", "PV.TB.C02_unit_right", "PV.TB.C02_adjoint",
                 "PV.TB.C02_Htilde_star", "PV.TB.C03_gauge"],
    "TwoBlockCor": ["PV.TB.code_least_action", "PV.TB.C03_unique", "PV.TB.same_as_general", "PV.TB.natural"],
    "Instance": ["PV.Inst.filt", "PV.Inst.blocks", "PV.Inst.twoBlocks", "PV.Inst.unperturbed", "PV.Inst.gapped"],
    "GeneratedInst": ["PV.Inst.trivMainEqs", "PV.Inst.trivMainEqs2b", "PV.Inst.trivNonHermEqs"],
    "Model": ["PV.Model.filtered", "PV.Model.blocks", "PV.Model.liftNH", "PV.Model.lift", "PV.Model.gapped_lift"],
    "MatrixModel": ["PV.MatrixModel.coeffBlocks", "PV.MatrixModel.coeffUnperturbedNH", "PV.MatrixModel.coeffUnperturbed", "PV.MatrixModel.coeff_gap"],
    "ModelTheorems": ["PV.MatrixModel.gapped", "PV.MatrixModel.main_theorems", "PV.MatrixModel.gappedNH", "PV.MatrixModel.nh_theorems"],
    "TwoBlockModel": ["PV.MatrixModel.masks2", "PV.MatrixModel.twoBlocks", "PV.MatrixModel.two_block_theorems"],
    "CauchyBridge": ["PV.Bridge.sum_antidiagonal_eq_sum_box", "PV.Bridge.coeff_mul_box", "PV.Bridge.coeff_mul_blocks"],
    "Direct": ["PV.Direct.greens_solves", "PV.Direct.constrained_injective"],
    "DirectMatrix": ["PV.Direct.matrix_greens_solves", "PV.Direct.matrix_constrained_injective"],
    "Rename": ["PV.Rename.pushHom", "PV.Rename.push_law", "PV.Rename.renameHom", "PV.Rename.rename_law", "PV.Rename.rename_law_injective", "PV.Rename.power_law"],
    "DirectSum": ["PV.DirectSum.prodBlocks", "PV.DirectSum.prodUnperturbed", "PV.DirectSum.direct_sum_law"],
    "Laws": ["PV.Laws.scaleHom", "PV.Laws.scale_law", "PV.Laws.conj_law", "PV.Laws.coeff_hom_law", "PV.Laws.perm_law", "PV.Laws.unitary_law"],
    "Unique": ["PV.lsa_unique", "PV.code_least_action", "PV.C03_unique", "PV.shift_cov", "PV.scale_cov", "PV.natural"],
    "UniqueNH": ["PV.nh_unique", "PV.NH.code_least_action", "PV.natural_nh", "PV.C05_hermitian_limit"],
}


def _audit_block(names):
    return "\n/- audit (appended by runlean.py) -/\n" + "\n".join(f"#print axioms {n}" for n in names) + "\n"


def _inputs_hash(extra_files):
    h = hashlib.sha256()
    for root, _d, files in os.walk(os.path.join(LEAN_DIR, "PV")):
        for f in sorted(files):
            if f.endswith(".lean"):
                with open(os.path.join(root, f), "rb") as fh:
                    h.update(f.encode() + b"\0" + fh.read())
    for f in extra_files:
        with open(f, "rb") as fh:
            h.update(fh.read())
    h.update(json.dumps(TOP, sort_keys=True).encode())
    return h.hexdigest()[:24]


def run(timeout=1500, files=None):
    """Return {"theorems": {name: {"ok": bool, "detail": str}}, "secs": float, "output": str, "cached": bool, "error": str|None}"""
    t0 = time.time()
    os.makedirs(os.path.join(LEAN_DIR, ".cache"), exist_ok=True)
    lock = open(os.path.join(LEAN_DIR, ".cache", "lock"), "w")
    fcntl.flock(lock, fcntl.LOCK_EX)
    try:
        try:
            gen_path, meta, _ = genlean.write_all(os.path.join(LEAN_DIR, "PV"))
        except Exception as e:  # the DSL left the fragment the extractor understands
            return {"theorems": {}, "secs": time.time() - t0, "output": "", "cached": False,
                    "error": f"equation extraction failed: {type(e).__name__}: {e}"}
        key = _inputs_hash([])
        cpath = os.path.join(LEAN_DIR, ".cache", key + ".json")
        if os.path.exists(cpath):
            with open(cpath) as f:
                res = json.load(f)
            res["cached"] = True
            res["secs_this_run"] = time.time() - t0
            return res
        # build a scratch copy of the proof files with the audit block appended
        work = os.path.join(LEAN_DIR, ".cache", "work")
        subprocess.run(["rm", "-rf", work], check=False)
        os.makedirs(os.path.join(work, "PV"))
        for f in os.listdir(LEAN_DIR):
            if f in ("lakefile.toml", "PV.lean"):
                subprocess.run(["cp", os.path.join(LEAN_DIR, f), work], check=True)
        for f in os.listdir(os.path.join(LEAN_DIR, "PV")):
            if f.endswith(".lean"):
                src = open(os.path.join(LEAN_DIR, "PV", f)).read()
                mod = f[:-5]
                if mod in TOP:
                    src += _audit_block(TOP[mod])
                open(os.path.join(work, "PV", f), "w").write(src)
        # reuse previous build products when present
        lake_src = os.path.join(LEAN_DIR, ".cache", "lake")
        if os.path.isdir(lake_src):
            subprocess.run(["cp", "-r", lake_src, os.path.join(work, ".lake")], check=False)
        try:
            p = subprocess.run(["lake", "build"], cwd=work, capture_output=True, text=True, timeout=timeout)
            out = p.stdout + p.stderr
        except subprocess.TimeoutExpired as e:
            return {"theorems": {}, "secs": time.time() - t0, "output": str(e)[-2000:], "cached": False, "error": "lake build timed out"}
        if os.path.isdir(os.path.join(work, ".lake")):
            subprocess.run(["rm", "-rf", lake_src], check=False)
            subprocess.run(["cp", "-r", os.path.join(work, ".lake"), lake_src], check=False)
        res = parse(out, work)
        res.update({"secs": time.time() - t0, "cached": False, "hash": key, "meta": meta})
        if res.get("error") is None:
            with open(cpath, "w") as f:
                json.dump(res, f)
        return res
    finally:
        fcntl.flock(lock, fcntl.LOCK_UN)
        lock.close()


def parse(out, work):
    theorems = {}
    errors = []  # (file, line, msg)
    for m in re.finditer(r"error: (PV/\w+\.lean):(\d+):(\d+): (.*?)(?=\n(?:error|warning|info|✖|✔|⚠|Some required|$))", out, re.S):
        errors.append((m.group(1), int(m.group(2)), m.group(4)[:1500]))
    axioms = {}
    for m in re.finditer(r"'([\w.]+)' depends on axioms: \[(.*?)\]", out, re.S):
        axioms[m.group(1)] = [a.strip() for a in m.group(2).split(",")]
    for m in re.finditer(r"'([\w.]+)' does not depend on any axioms", out):
        axioms[m.group(1)] = []
    if "error: build failed" not in out and "Build completed successfully" not in out:
        return {"theorems": {}, "output": out[-4000:], "error": "unrecognised lake output"}
    # map error lines to declarations
    decl_of = {}
    for mod in TOP:
        path = os.path.join(work, "PV", mod + ".lean")
        lines = open(path).read().split("\n")
        cur = None
        for i, l in enumerate(lines, 1):
            mm = re.match(r"\s*(?:theorem|lemma|def|abbrev)\s+([\w.]+)", l)
            if mm:
                cur = mm.group(1)
            decl_of[(f"PV/{mod}.lean", i)] = cur
    failed_decls = {}
    other_errors = []
    for f, ln, msg in errors:
        d = decl_of.get((f, ln))
        if d:
            failed_decls.setdefault(d, msg)
        else:
            other_errors.append(f"{f}:{ln}: {msg[:300]}")
    for mod, names in TOP.items():
        for n in names:
            short = n.split(".")[-1]
            if n not in axioms:
                theorems[n] = {"ok": False, "detail": "declaration missing or its statement does not elaborate: " + (failed_decls.get(short) or "; ".join(other_errors[:2]) or "no #print axioms output")}
            elif "sorryAx" in axioms[n]:
                culprits = {d: m for d, m in failed_decls.items()}
                theorems[n] = {"ok": False, "detail": "depends on a lemma whose proof failed: " + "; ".join(f"{d}: {m[:400]}" for d, m in list(culprits.items())[:4])}
            else:
                bad = [a for a in axioms[n] if a not in ("propext", "Classical.choice", "Quot.sound")]
                theorems[n] = {"ok": not bad, "detail": "axioms: " + ", ".join(axioms[n]) if not bad else f"non-standard axioms used: {bad}"}
    return {"theorems": theorems, "failed_declarations": failed_decls, "other_errors": other_errors[:10], "output": out[-3000:], "error": None}


if __name__ == "__main__":
    r = run()
    print(json.dumps({k: v for k, v in r.items() if k != "output"}, indent=1)[:6000])
