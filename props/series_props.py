"""C18, C19 and the series.py parts of C10, C11, C12: which units make up each property."""
from __future__ import annotations

from .common import Decision, run_units

SP = "contracts.series_product"
SI_ = "contracts.series_index"


def getitem_grid(tier):
    if tier == "thorough":
        return [(f, i) for f in range(0, 4) for i in range(0, 4) if f + i >= 1]
    return [(0, 1), (1, 0), (1, 1), (2, 1), (2, 2), (0, 2)]


def specs_product(tier):
    t = 60000 if tier == "thorough" else 10000
    s = [(SP, "unit_product_by_order", {"timeout_ms": t}), (SP, "unit_cauchy_binary", {"timeout_ms": t}),
         (SP, "unit_cauchy_nary", {"nfactors": 3, "timeout_ms": t}), (SP, "unit_cauchy_nary", {"nfactors": 4, "timeout_ms": t}),
         (SI_, "unit_sentinels", {"timeout_ms": t})]
    if tier == "thorough":
        s.append((SP, "unit_cauchy_nary", {"nfactors": 5, "timeout_ms": t}))
    return s


def specs_index(tier):
    t = 60000 if tier == "thorough" else 10000
    s = [(SI_, "unit_check_finite", {"timeout_ms": t}), (SI_, "unit_check_finite", {"timeout_ms": t, "canary": True}),
         (SI_, "unit_check_number_perturbations", {"timeout_ms": t}), (SI_, "unit_contains_pop", {"timeout_ms": t}),
         (SI_, "unit_sentinels", {"timeout_ms": t})]
    s += [(SI_, "unit_getitem", {"nfin": f, "ninf": i, "timeout_ms": t}) for f, i in getitem_grid(tier)]
    return s


def fold_canaries(results):
    """The canary run of a unit is expected to contain refuted obligations: turn it into a
    canary verdict on the real unit and drop it from the obligation count."""
    out = []
    for r in results:
        if r["name"].endswith("[canary]"):
            refuted = any(o["status"] == "refuted" for o in r["obligations"]) and not r["engine_error"]
            base = r["name"][: -len("[canary]")]
            for q in results:
                if q["name"] == base:
                    q["canaries"].append((f"{base}: deliberately wrong postcondition is refuted", refuted))
        else:
            out.append(r)
    return out
