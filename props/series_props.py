"""C18, C19 and the series.py parts of C10, C11, C12: which units make up each property."""
from __future__ import annotations

from .common import Decision, run_units

SP = "contracts.series_product"
SI_ = "contracts.series_index"


def getitem_grid(tier):
    if tier == "thorough":
        return [(f, i) for f in range(0, 4) for i in range(0, 4) if f + i >= 1]
    return [(0, 1), (1, 0), (1, 1), (2, 1), (2, 2), (0, 2)]


def specs_product(tier):
    t = 60000 if tier == "thorough" else 10000
    s = [(SP, "unit_product_by_order", {"timeout_ms": t}), (SP, "unit_cauchy_binary", {"timeout_ms": t}),
         (SP, "unit_cauchy_nary", {"nfactors": 3, "timeout_ms": t}), (SP, "unit_cauchy_nary", {"nfactors": 4, "timeout_ms": t}),
         (SI_, "unit_sentinels", {"timeout_ms": t})]
    if tier == "thorough":
        s.append((SP, "unit_cauchy_nary", {"nfactors": 5, "timeout_ms": t}))
    return s


def specs_index(tier):
    t = 60000 if tier == "thorough" else 10000
    s = [(SI_, "unit_check_finite", {"timeout_ms": t}), (SI_, "unit_check_finite", {"timeout_ms": t, "canary": True}),
         (SI_, "unit_check_number_perturbations", {"timeout_ms": t}), (SI_, "unit_contains_pop", {"timeout_ms": t}),
         (SI_, "unit_sentinels", {"timeout_ms": t}), (SI_, "unit_series_init", {"timeout_ms": t})]
    s += [(SI_, "unit_getitem", {"nfin": f, "ninf": i, "timeout_ms": t}) for f, i in getitem_grid(tier)]
    views = [(("int",), 1), (("npint", "int"), 2), (("slice",), 1), (("list", "int"), 1), (("list", "list"), 2), (("int", "slice"), 1), (("npint", "list"), 1)]
    if tier == "thorough":
        views += [(("int", "int", "int"), 1), (("slice", "list", "int"), 2), (("list",), 3), (("npint", "npint"), 1), (("slice", "slice"), 1)]
    s += [(SI_, "unit_getitem_view", {"kinds": k, "ninf": i, "timeout_ms": t}) for k, i in views]
    return s


def fold_canaries(results):
    """The canary run of a unit is expected to contain refuted obligations: turn it into a
    canary verdict on the real unit and drop it from the obligation count."""
    out = []
    for r in results:
        if r["name"].endswith("[canary]"):
            refuted = any(o["status"] == "refuted" for o in r["obligations"]) and not r["engine_error"]
            base = r["name"][: -len("[canary]")]
            for q in results:
                if q["name"] == base:
                    q["canaries"].append((f"{base}: deliberately wrong postcondition is refuted", refuted))
        else:
            out.append(r)
    return out


AE = "contracts.algorithm_evals"


def specs_evals(tier, algs=("main", "nonhermitian")):
    from contracts.algorithm_evals import term_names
    t = 60000 if tier == "thorough" else 10000
    s = []
    for a in algs:
        for tn in term_names(a):
            for off in (False, True):
                s.append((AE, "unit_eval", {"alg_name": a, "term_name": tn, "have_offdiag": off, "timeout_ms": t}))
        # one canary per algorithm: a wrong equation must be refuted
        s.append((AE, "unit_eval", {"alg_name": a, "term_name": "B", "have_offdiag": True, "timeout_ms": t, "canary": True}))
    return s


def specs_corpus(tier):
    """translation validation of the compiler on the program corpus contracts/dsl_corpus.py (every grammar production in every context)"""
    from contracts.algorithm_evals import term_names, corpus_programs
    t = 60000 if tier == "thorough" else 10000
    s = []
    for prog in corpus_programs():
        a = "corpus:" + prog
        for tn in term_names(a):
            for off in (False, True):
                s.append((AE, "unit_eval", {"alg_name": a, "term_name": tn, "have_offdiag": off, "timeout_ms": t}))
    s.append((AE, "unit_eval", {"alg_name": "corpus:adj_unconditional", "term_name": "C", "have_offdiag": True, "timeout_ms": t, "canary": True}))
    # series_computation itself on corpus programs: start data (0 / 1 / "<input>_0" incl. input names ending in digits or underscores / none), products, twins, deletions
    progs = corpus_programs() if tier == "thorough" else ["start_from_input", "input_names_ending_in_zero_or_underscore", "identity_start_consumes_started_term", "no_start", "markers",
                                                        "hermitian_triple_product", "no_start_consumes_started_term"]
    for prog in progs:
        s.append((AE, "unit_wiring", {"alg_name": "corpus:" + prog, "nblocks": 2, "ninf": 1, "with_scope": False, "timeout_ms": t}))
    return s


def generated_family(tier, seed):
    """(seed, count) of the generated-program family of this run: fixed in the quick tier, derived from VERIF_SEED in the thorough tier"""
    return (0, 6) if tier != "thorough" else (1000 + int(seed or 0), 30)


def specs_generated(tier, seed):
    """translation validation of the compiler on programs produced by the random generator contracts/dsl_gen.py"""
    from contracts.algorithm_evals import term_names
    t = 60000 if tier == "thorough" else 10000
    gs, count = generated_family(tier, seed)
    s = []
    for k in range(count):
        a = f"gen:{gs}:{count}:{k}"
        for tn in term_names(a):
            for off in (False, True):
                s.append((AE, "unit_eval", {"alg_name": a, "term_name": tn, "have_offdiag": off, "timeout_ms": t}))
    return s


def specs_wiring(tier, algs=("main", "nonhermitian")):
    t = 60000 if tier == "thorough" else 10000
    cfgs = [(2, 1, False), (3, 2, True), (1, 1, False)]
    if tier == "thorough":
        cfgs += [(2, 3, False), (4, 1, True)]
    s = [(AE, "unit_wiring", {"alg_name": a, "nblocks": nb, "ninf": ni, "with_scope": ws, "timeout_ms": t}) for a in algs for nb, ni, ws in cfgs]
    s += [(AE, "unit_helpers", {"nterms": k, "timeout_ms": t}) for k in ((1, 2, 3, 4, 5, 7) if tier == "thorough" else (1, 3, 5))]
    return s


SY = "contracts.sylvester"
BM = "contracts.bd_masks"


def specs_solver(tier):
    t = 60000 if tier == "thorough" else 20000
    s = [(SY, "unit_sylvester_diagonal", {"kind": k, "timeout_ms": t}) for k in ("zero", "dense", "sparse", "sympy")]
    s += [(SY, "unit_sylvester_diagonal", {"kind": k, "timeout_ms": t, "zero_block": zb}) for k in ("dense", "sparse", "sympy") for zb in ("row", "col")]
    s.append((SY, "unit_sylvester_diagonal", {"kind": "dense", "timeout_ms": t, "canary": True}))
    s.append((SY, "unit_sylvester_formula", {"timeout_ms": t}))
    return s


def specs_masks(tier):
    t = 60000 if tier == "thorough" else 20000
    cfg = [("none", 2, None), ("none", 3, None), ("tuple", 2, None), ("dict", 2, None), ("tuple", 1, True), ("dict", 3, False)]
    if tier == "thorough":
        cfg += [("none", 1, None), ("tuple", 3, None), ("dict", 1, True), ("tuple", 4, False)]
    s = [(BM, "unit_masks", {"variant": v, "nb": nb, "hermitian": h, "timeout_ms": t}) for v, nb, h in cfg]
    s.append((BM, "unit_masks", {"variant": "tuple", "nb": 2, "hermitian": None, "timeout_ms": t, "canary": True}))
    # operator-valued masks of second-quantized Hamiltonians (the `else:` branch of the same statement)
    s += [(BM, "unit_masks_operators", {"variant": v, "hermitian": h, "timeout_ms": t}) for v, h in (("dict", True), ("dict", False), ("tuple", True))]
    return s


NF_ = "contracts.nof"


def specs_nof(tier):
    t = 120000 if tier == "thorough" else 60000
    layouts_op = [["boson"], ["ladder"], ["spin"], ["fermion"], ["boson", "fermion"], ["fermion", "fermion"], ["boson", "ladder", "spin", "fermion"]]
    layouts_small = [["boson"], ["fermion"], ["boson", "fermion"], ["boson", "ladder", "spin", "fermion"]]
    layouts_mul = [["boson"], ["fermion", "fermion"], ["boson", "fermion", "fermion"], ["boson", "ladder", "spin", "fermion"]]
    if tier == "thorough":
        layouts_op += [["boson", "boson"], ["fermion", "fermion", "fermion"], ["spin", "fermion", "fermion"], ["ladder", "ladder"]]
        layouts_small += [["fermion", "fermion", "fermion"], ["spin", "spin"], ["boson", "boson", "ladder", "fermion"]]
        layouts_mul += [["fermion", "fermion", "fermion", "fermion"], ["spin", "fermion", "fermion"]]
    s = []
    for lay in layouts_op:
        for i in range(len(lay)):
            s.append((NF_, "unit_multiply_op", {"layout": lay, "op_index": i, "timeout_ms": t}))
    s.append((NF_, "unit_multiply_op", {"layout": ["boson"], "op_index": 0, "timeout_ms": t, "canary": True}))
    for lay in layouts_small:
        s.append((NF_, "unit_multiply_expr", {"layout": lay, "timeout_ms": t}))
        s.append((NF_, "unit_linearize", {"layout": lay, "timeout_ms": t}))
        s.append((NF_, "unit_cancel", {"layout": lay, "timeout_ms": t}))
    s.append((NF_, "unit_multiply_expr", {"layout": ["boson"], "timeout_ms": t, "canary": True}))
    for lay in layouts_mul:
        s.append((NF_, "unit_mul", {"layout": lay, "timeout_ms": t}))
    s.append((NF_, "unit_mul", {"layout": ["fermion", "fermion"], "timeout_ms": t, "canary": True}))
    for lay in layouts_small + [["fermion", "fermion"], ["spin", "fermion", "fermion"]]:
        s.append((NF_, "unit_adjoint", {"layout": lay, "timeout_ms": t}))
    s.append((NF_, "unit_adjoint", {"layout": ["fermion", "fermion"], "timeout_ms": t, "canary": True}))
    for lay in layouts_small[:3]:
        s.append((NF_, "unit_neg", {"layout": lay, "timeout_ms": t}))
        s.append((NF_, "unit_add", {"layout": lay, "timeout_ms": t}))
    s.append((NF_, "unit_add", {"layout": ["boson"], "timeout_ms": t, "canary": True}))
    for lay in layouts_small[:3]:
        s.append((NF_, "unit_pow", {"layout": lay, "timeout_ms": t}))
    B, L, S, F = "boson", "ladder", "spin", "fermion"
    for old, new in (([(B, "a"), (F, "c")], [(B, "a"), (B, "b"), (S, "s"), (F, "c"), (F, "d")]), ([(F, "d")], [(B, "a"), (F, "c"), (F, "d")]), ([(B, "a")], [(B, "a")]),
                     ([(L, "l"), (S, "s")], [(B, "a"), (L, "l"), (S, "s"), (F, "c")])):
        s.append((NF_, "unit_expand_operators", {"old": old, "new": new, "timeout_ms": t}))
    for a_ops, b_ops in (([(B, "a"), (F, "d")], [(B, "b"), (L, "l"), (F, "c")]), ([(B, "a")], [(B, "a")]), ([(S, "s")], [(B, "b"), (S, "s")]), ([(F, "c"), (F, "e")], [(F, "d")])):
        s.append((NF_, "unit_combine_operators", {"a_ops": a_ops, "b_ops": b_ops, "timeout_ms": t}))
    # thin wrappers: which of the operations above they call, on which operands, in which order
    for m in ("__sub__", "__radd__", "__rmul__", "__truediv__"):
        for k in ("nof", "convertible", "inconvertible"):
            s.append(("contracts.nof_wrappers", "unit_wrapper", {"method": m, "other_kind": k, "timeout_ms": t}))
    for nt, nm in ((0, 2), (1, 1), (2, 3), (3, 2)):
        s.append(("contracts.nof_wrappers", "unit_is_particle_conserving", {"nterms": nt, "nmodes": nm, "timeout_ms": t}))
    # conversion back: the word handed to sympy is the word the other contracts take as the meaning of a term
    for no, nt in ((0, 0), (1, 1), (2, 2), (3, 1), (2, 0)) + (((4, 1), (3, 2)) if tier == "thorough" else ()):
        s.append(("contracts.nof_wrappers", "unit_as_expr", {"nops": no, "nterms": nt, "timeout_ms": t}))
    # conversion into number-ordered form: one level of the structural recursion per node kind
    from contracts.nof_from_expr import KINDS as _FE_KINDS
    for k in _FE_KINDS:
        for og in (True, False):
            s.append(("contracts.nof_from_expr", "unit_from_expr", {"kind": k, "operators_given": og, "timeout_ms": t}))
    for k in ("same-operators", "other-operators", "convertible", "inconvertible"):
        s.append(("contracts.nof_wrappers", "unit_eq", {"other_kind": k, "timeout_ms": t}))
    s.append(("contracts.nof_wrappers", "unit_small_accessors", {"timeout_ms": t}))
    s.append(("contracts.nof_wrappers", "unit_applyfunc", {"timeout_ms": t}))
    s.append(("contracts.nof_wrappers", "unit_subs_doit_simplify", {"timeout_ms": t}))
    s.append(("contracts.nof_wrappers", "unit_poly_simplify", {"timeout_ms": t}))
    from contracts.nof_from_expr import VALIDATOR_LAYOUTS as _VL
    for k in _VL:
        s.append(("contracts.nof_from_expr", "unit_validate_operators", {"layout_name": k, "timeout_ms": t}))
    for k in ("none", "length", "non-integer-power", "non-commutative-coefficient"):
        s.append(("contracts.nof_from_expr", "unit_validate_terms", {"defect": k, "timeout_ms": t}))
    for k in ("mixed", "ladder-both-ways", "none"):
        s.append(("contracts.nof_from_expr", "unit_find_operators", {"case": k, "timeout_ms": t}))
    for k in ("BosonOp", "FermionOp", "SigmaOpBase", "LadderOp"):
        s.append(("contracts.nof_from_expr", "unit_number_operator", {"kind": k, "timeout_ms": t}))
    s.append(("contracts.nof_from_expr", "unit_ladder_and_helpers", {"timeout_ms": t}))
    s.append(("contracts.nof_from_expr", "unit_number_operator_new", {"timeout_ms": t}))
    # the constructor establishes the class invariant the other NOF units start from (counts per statistics, placeholders, term layout)
    for lay in (["BosonOp", "SigmaMinus", "FermionOp"], ["BosonOp", "LadderOp", "LadderOp", "FermionOp", "FermionOp"], []):
        for tk in ("dict", "pairs", "Tuple"):
            for v in (False, True):
                s.append(("contracts.nof_from_expr", "unit_new", {"layout": lay, "terms_kind": tk, "validate": v, "timeout_ms": t}))
    return s
