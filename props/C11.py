"""C11 - an exception during evaluation leaves the computation consistent and reusable."""
from .common import Decision, run_units
from .series_props import specs_evals, specs_product, specs_index, specs_solver, fold_canaries


def check(tier, seed):
    d = Decision("C11", tier, seed)
    specs = specs_index(tier) + specs_product(tier) + specs_evals(tier) + specs_solver(tier) + [("contracts.frame", "unit_frame", {})]
    d.add_units(fold_canaries(run_units(specs)))
    d.assumptions += [
        "only synchronous exceptions raised by the callback are covered (any class, incl. KeyboardInterrupt raised by the callback); "
        "an asynchronous signal between `data[index] = PENDING` and `try:` is outside a sequential program logic",
        "rely condition on nested evaluations: they satisfy the same exceptional postcondition (it is the postcondition proved here, applied recursively)",
    ]
    d.explanation = ("Exceptional postconditions of BlockSeries.__getitem__ for an arbitrary addressed index, arbitrary cache state and a "
                     "symbolic exception class (RuntimeError / other Exception / BaseException only): the in-flight marker is removed, no other "
                     "entry is left in flight, the cache invariant holds, non-RuntimeErrors propagate unchanged and RuntimeErrors are chained.  "
                     "Generated evaluators and product_by_order hold no state besides cache deletions, which are value-neutral (C10).  The only other state kept "
                     "across requests is the built-in solver's record of validated block pairs: solve_sylvester_diagonal is proved to record a pair only after a successful "
                     "check (obligation raise-leaves-pair-unrecorded), so a request that raised is not remembered as validated.  That these are the only "
                     "states is itself an obligation: the frame unit lists every store site of the functions under contract, incl. every closure that serves as an eval "
                     "callback (operator_to_BlockSeries/op_eval, the format converters, the solvers), and refutes any write to a captured object or rebinding of a "
                     "nonlocal / global name that is not on the reviewed list.")
    d.run_battery("series_battery.py", ['fault'], "shapes <= (2,3), <= 2 infinite dimensions, orders <= 3, fixed list of index entries, 4x4 two-block problems; see replay/series_battery.py")
    return d.finish(level="proof", trusted_base=["contracts/series_index.py", "contracts/algorithm_evals.py"])
