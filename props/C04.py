"""C04 - the truncated effective Hamiltonian has the exact spectrum to the requested order."""
from .common import Decision, run_units
from .implicit_props import specs_direct
from .series_props import fold_canaries
from .hermitian_common import specs_hermitian, LEAN_SETTING_NOTE, LEAN_VACUITY

LEAN = ["PV.C04_charpoly_similarity", "PV.C04_charpoly_truncation", "PV.C04_truncated",
        "PV.C01_similarity", "PV.C02_unit_left", "PV.C02_unit_right",
        "PV.TB.C01_similarity", "PV.TB.C02_unit_left", "PV.TB.C02_unit_right"]


def check(tier, seed):
    d = Decision("C04", tier, seed)
    from .format_props import specs_keys
    # symbolic input reaches the algorithm through the Taylor expansion of _sympy_to_BlockSeries (mixed monomials x^a y^b): its units run here too
    d.add_units(fold_canaries(run_units(specs_hermitian(tier) + specs_direct(tier) + specs_keys(tier))))
    d.add_lean(LEAN + LEAN_VACUITY)
    d.premises += [["C01", "U_inv H U = H_tilde (Lean: PV.C01_similarity)"], ["C02", "U_inv U = U U_inv = 1 (Lean: PV.C02_unit_left / right)"]]
    d.assumptions += [LEAN_SETTING_NOTE,
                      "A-MATH: a block series with the Cauchy product is one matrix over the commutative ring of formal power series in the perturbation "
                      "parameters (block decomposition is a ring isomorphism); truncation at total order N is the ring map onto the quotient by the ideal of order > N"]
    d.not_decided += ["numerical eigenvalue clause (floating point, A-FP)",
                      "'the diagonal of a fully diagonalised non-degenerate block is the Rayleigh-Schroedinger series': follows because a diagonal matrix's characteristic "
                      "polynomial has its diagonal entries as roots; not mechanised beyond the characteristic-polynomial identity"]
    d.explanation = ("Corollary: over a commutative ring, conjugation by a unit preserves the characteristic polynomial (Mathlib: Matrix.charpoly_units_conj) and ring "
                     "homomorphisms commute with it (Matrix.charpoly_map); instantiated with the premises U_inv U = U U_inv = 1 and H_tilde = U_inv H U, which are the "
                     "C01/C02 theorems machine-checked from the extracted equations on this run (re-checked here together with all their PyVC premises).")
    d.run_battery("bd_battery.py", ["spectrum", "spectrum_symbolic", "spectrum_sparse", "spectrum_implicit", "herm"], "3 exact problems of dimension 3-4, truncation order 3, characteristic polynomial compared coefficient-wise; 3 symbolic two-parameter problems with an x y term (exact rational arithmetic, total order 3); "
                  "one 10x10 problem with 2 explicit levels: eigenvalues of the truncated H_tilde^AA (N = 1..3, lambda = 0.02, 0.01) for explicit / implicit direct / implicit KPM / "
                  "implicit KPM with auxiliary vectors against exact eigenvalues, relative to the explicit truncation error; dense / sparse problems with degenerate levels inside "
                  "fully diagonalized blocks (N = 1..3); plus the `herm` section (premises C01 / C02)")
    return d.finish(level="proof", trusted_base=["leanalg/lean/PV/Charpoly.lean", "leanalg/lean/PV/MainProof.lean", "contracts/*.py"])
