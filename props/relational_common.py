"""Shared by the relational properties C06, C07, C13, C14, C15: the naturality argument."""

NAT_LEAN = ["PV.natural", "PV.lsa_unique", "PV.code_least_action", "PV.C03_unique", "PV.TB.natural", "PV.TB.code_least_action", "PV.TB.toMain",
            "PV.Inst.filt", "PV.Inst.blocks", "PV.Inst.twoBlocks", "PV.Inst.unperturbed", "PV.Inst.gapped", "PV.Inst.trivMainEqs", "PV.Inst.trivMainEqs2b",
            "PV.Model.filtered", "PV.Model.blocks", "PV.Model.lift", "PV.MatrixModel.main_theorems", "PV.MatrixModel.two_block_theorems"]
NAT_LEAN_NH = ["PV.natural_nh", "PV.nh_unique", "PV.NH.code_least_action"]

NAT_NOTE = (
    "Naturality (PV.natural / PV.natural_nh, machine-checked): if phi is a ring homomorphism between two instances of the Lean setting that commutes with "
    "the adjoint (Hermitian case), with the kept/eliminated split (Sel, Rem) and maps order >= 1 to order >= 1, and H0' satisfies the gap condition, then the "
    "outputs (H_tilde, U, U^dagger) of the extracted algorithm for phi(H) are the phi-images of its outputs for H, at every order.  The proof goes through "
    "uniqueness of the least-action block-diagonalising transformation (PV.lsa_unique), so it does not depend on upper/lower block position, on the solver or "
    "on evaluation order.  For the non-Hermitian algorithm the statement holds under the commutation hypothesis of C05 (known finding F-NH) on both sides."
)

INSTANCE_NOTE = (
    "The concrete block series of matrices with the Cauchy product and entry masks form an instance of the Lean setting (mechanised: PV/Model.lean, "
    "MatrixModel.lean); the series-level construction (PV.Model.filtered / blocks / liftNH / lift) holds for ANY coefficient star algebra with complementary block "
    "projections and a coefficient-level solver, so for operator-valued series (NumberOrderedForm) only the coefficient-level facts are assumed (term filters are "
    "complementary projections: filter_terms contract; solve_scalar solves the Sylvester equation: solve_scalar contract).  A-MATH (not mechanised): each transformation named in the property is a "
    "homomorphism of such instances: "
)
