"""Units shared by C01-C04: everything the Lean theorems about `main` rest on."""
from .series_props import specs_evals, specs_wiring, specs_product, specs_index, specs_solver, specs_masks

LEAN_SETTING_NOTE = (
    "Lean setting (leanalg/lean/PV/Basic.lean, Setting.lean): block series form a star ring over Q with a separated, multiplicative, "
    "star-stable filtration by order; the five parts up/lo/kc/kn/ed are complementary idempotent Q-linear projections compatible with "
    "star and the filtration; tl removes the zeroth order; H0 is self-adjoint, has only kept elements and commutes with taking parts; "
    "the solver satisfies H0 V - V H0 = z on upper blocks and on eliminated diagonal elements, preserves orders and is adjoint-compatible "
    "on diagonal blocks; kept x eliminated products have no kept element in blocks whose commuting flag is set.  The setting is instantiated in Lean "
    "(PV/Model.lean, MatrixModel.lean, ModelTheorems.lean, TwoBlockModel.lean): multivariate formal power series (any set of parameters, Cauchy product = "
    "Mathlib's MvPowerSeries multiplication, filtration by total order) over n x n matrices over any field with conjugation, entry masks given by a classification "
    "of entries, H0 = diag(E) with real E, solver = entry-wise division on eliminated entries; PV.MatrixModel.main_theorems / two_block_theorems state C01-C03 for that "
    "model with no abstract class left.  The hypotheses of the model (classification symmetric under transposition, diagonal entries kept, no kept entry in "
    "eliminated x kept products inside commuting blocks, energies of eliminated pairs differ) are the call-site obligations discharged by the PyVC units on masks, "
    "flags and solver in this run.  Still assumed: numpy / scipy / sympy arrays implement matrix arithmetic (A-NP, A-SC, A-SY) ; the finite-sum lemma linking the iteration set of product_by_order to the "
    "antidiagonal sum is PV.Bridge.coeff_mul_blocks (C18).  The two-block-optimised variant of `main` (two_block_optimized = True: exactly two "
    "blocks, no fully_diagonalize) is covered by PV/TwoBlock.lean: under the class TwoBlocks (no eliminated or non-commuting diagonal part; products of "
    "block-diagonal / block-off-diagonal elements are block-diagonal / off-diagonal as for 2 x 2 block matrices - A-MATH; the flag is set only in that "
    "situation - PyVC obligation of unit bd_masks) every solution of the optimised equations solves the general equations (PV.TB.toMain), so all theorems apply."
)


def _specs_head(tier):
    # ... and the projection of every input term on the subspaces (block (i, j) of what the algorithm sees IS L_i^dagger A R_j, whatever the term looks like in the original basis)
    from .format_props import specs_head, specs_projection
    # ... and the implicit-mode solvers (direct and KPM): in implicit mode THEY are "the solver" of the Lean setting (H0 V - V H0 = z on the implicit block)
    from .implicit_props import specs_direct
    return specs_head(tier) + specs_projection(tier) + specs_direct(tier)


def specs_hermitian(tier):
    return (specs_evals(tier, algs=("main",)) + specs_wiring(tier, algs=("main",)) + specs_product(tier) + specs_index(tier)
            + specs_solver(tier) + specs_masks(tier)
            # the closures that block_diagonalize hands to the algorithm (masks, solvers, converters) keep no state between calls: the units above speak about ONE call each
            + [("contracts.frame", "unit_frame", {})]
            # head and tail of block_diagonalize: what reaches the algorithm and what is returned, in which order
            + _specs_head(tier))


# vacuity guard: the class axioms and the generated equation structures are jointly satisfiable (degenerate witness A = Q)
LEAN_MODEL = ['PV.Model.filtered', 'PV.Model.blocks', 'PV.Model.lift', 'PV.MatrixModel.coeffBlocks', 'PV.MatrixModel.coeffUnperturbed', 'PV.MatrixModel.main_theorems', 'PV.MatrixModel.twoBlocks', 'PV.MatrixModel.two_block_theorems']

LEAN_VACUITY = LEAN_MODEL + ["PV.Inst.filt", "PV.Inst.blocks", "PV.Inst.twoBlocks", "PV.Inst.unperturbed", "PV.Inst.gapped", "PV.Inst.trivMainEqs", "PV.Inst.trivMainEqs2b"]
