"""Units shared by C01-C04: everything the Lean theorems about `main` rest on."""
from .series_props import specs_evals, specs_wiring, specs_product, specs_index, specs_solver, specs_masks

LEAN_SETTING_NOTE = (
    "Lean setting (leanalg/lean/PV/Basic.lean, Setting.lean): block series form a star ring over Q with a separated, multiplicative, "
    "star-stable filtration by order; the five parts up/lo/kc/kn/ed are complementary idempotent Q-linear projections compatible with "
    "star and the filtration; tl removes the zeroth order; H0 is self-adjoint, has only kept elements and commutes with taking parts; "
    "the solver satisfies H0 V - V H0 = z on upper blocks and on eliminated diagonal elements, preserves orders and is adjoint-compatible "
    "on diagonal blocks; kept x eliminated products have no kept element in blocks whose commuting flag is set.  Each field is either a "
    "fact about block series / the Cauchy product (C18 bridge, not mechanised: A-MATH) or a call-site obligation discharged by PyVC units "
    "listed in this evidence (masks, solver, flags) when present.  The two-block-optimised variant of `main` (two_block_optimized = True: exactly two "
    "blocks, no fully_diagonalize) is covered by PV/TwoBlock.lean: under the class TwoBlocks (no eliminated or non-commuting diagonal part; products of "
    "block-diagonal / block-off-diagonal elements are block-diagonal / off-diagonal as for 2 x 2 block matrices - A-MATH; the flag is set only in that "
    "situation - PyVC obligation of unit bd_masks) every solution of the optimised equations solves the general equations (PV.TB.toMain), so all theorems apply."
)


def specs_hermitian(tier):
    return (specs_evals(tier, algs=("main",)) + specs_wiring(tier, algs=("main",)) + specs_product(tier) + specs_index(tier)
            + specs_solver(tier) + specs_masks(tier))


# vacuity guard: the class axioms and the generated equation structures are jointly satisfiable (degenerate witness A = Q)
LEAN_VACUITY = ["PV.Inst.filt", "PV.Inst.blocks", "PV.Inst.twoBlocks", "PV.Inst.unperturbed", "PV.Inst.gapped", "PV.Inst.trivMainEqs", "PV.Inst.trivMainEqs2b"]
