"""Entry point:  python -m props.run <Cxx> quick|thorough   |   <Cxx> --replay <file>"""
from __future__ import annotations

import importlib
import json
import os
import sys
import traceback

ROOT = os.path.dirname(os.path.dirname(os.path.abspath(__file__)))
sys.path.insert(0, ROOT)
os.environ.setdefault("PYTHONHASHSEED", "0")


def main(argv):
    if len(argv) < 2:
        print(__doc__)
        return 3
    pid = argv[0]
    if argv[1] == "--replay":
        from props import replaycmd
        return replaycmd.replay(pid, argv[2])
    tier = os.environ.get("VERIF_TIER") or argv[1]
    if tier not in ("quick", "thorough"):
        tier = "quick"
    seed = int(os.environ.get("VERIF_SEED", "0") or 0)
    try:
        mod = importlib.import_module(f"props.{pid}")
    except ModuleNotFoundError:
        print(f"no check for property {pid}")
        return 3
    try:
        return mod.check(tier, seed)
    except SystemExit:
        raise
    except Exception:
        traceback.print_exc()
        print(f"CHECKER-CRASH property={pid}")
        return 3


if __name__ == "__main__":
    sys.exit(main(sys.argv[1:]))
