"""C20 - ill-posed problems are rejected, never answered with silent garbage."""
from .common import Decision, run_units
from .series_props import specs_solver, specs_masks, fold_canaries


def check(tier, seed):
    d = Decision("C20", tier, seed)
    t = 60000 if tier == "thorough" else 20000
    guards = [("contracts.bd_guards", "unit_h0_guards", {"nb": nb, "hermitian": h, "timeout_ms": t}) for nb, h in ((2, True), (2, False), (3, True))]
    if tier == "thorough":
        guards += [("contracts.bd_guards", "unit_h0_guards", {"nb": 3, "hermitian": False, "timeout_ms": t}), ("contracts.bd_guards", "unit_h0_guards", {"nb": 1, "hermitian": True, "timeout_ms": t})]
    guards += [("contracts.bd_guards", "unit_check_biorthonormality", {"nsub": n, "kind": k, "timeout_ms": t})
               for n, k in ((1, "ndarray"), (2, "ndarray"), (3, "ndarray"), (2, "sparse-array"), (2, "sparse-matrix"), (3, "mixed"), (1, "sympy-mutable"), (2, "sympy-immutable"), (3, "sympy-mutable"))]
    guards += [("contracts.bd_guards", "unit_normalize_subspaces", {"timeout_ms": t}), ("contracts.bd_guards", "unit_preprocess_sylvester", {"timeout_ms": t})]
    from .format_props import specs_linalg_misc, specs_keys, specs_head
    d.add_units(fold_canaries(run_units(specs_solver(tier) + specs_masks(tier) + guards + specs_keys(tier) + specs_linalg_misc(tier) + specs_head(tier))))
    d.assumptions += [
        "A-NP2 pointwise models (see C16)",
        "sympy three-valued Hermiticity test (`expr.is_hermitian is False`) is taken as given: rejection of symbolic non-Hermitian input is decided only when sympy decides",
    ]
    d.not_decided += [
        "guards other than those under contract (solve_sylvester_diagonal first use, mask fragment, H_0 block-diagonality / zero-diagonal guard, format converters): "
        "of the mutually exclusive options only those decided in the head of block_diagonalize are under contract (contracts.bd_head: custom solver with fully_diagonalize, (R, L) pairs in Hermitian "
        "mode, and every implicit-mode restriction, each raised before a solver is built); subspace_indices together with subspace_eigenvectors is decided inside operator_to_BlockSeries and exercised by "
        "the bounded battery section 'illposed' only; for bi-orthonormality the decision procedure (np.allclose of L^dagger R with the identity) is taken from numpy",
    ]
    d.explanation = ("Exceptional postconditions proved on the real code: shared energies between coupled blocks raise ValueError on first use of the pair for "
                     "every block index pair (either orientation) and every right-hand-side type; an accepted pair has |E_a-F_b| > atol everywhere, so every "
                     "division is by a non-zero number (finite results) and nothing is silently left uneliminated; masks that eliminate degenerate pairs or are "
                     "asymmetric in Hermitian mode raise ValueError; eliminated elements always have |E_a-E_c| > atol.  The H_0 guard of block_diagonalize raises ValueError "
                     "iff some zeroth-order off-diagonal block - for every pair of blocks, the implicit one included - is a numeric non-zero value, and iff the whole diagonal "
                     "is zero; the format converters reject prefactors in monomial keys, non-commutative symbols, non-Hermitian Taylor coefficients and unsupported types.")
    d.add_callsite_witness("callsite:illposed/implicit-block-sharing-an-explicit-energy-is-rejected", "bd_battery.py", "impl_shared_finding",
                           "an energy shared between an explicit level and the implicit block is rejected with one of the listed exception classes; the witness is replayed on every run")
    d.add_callsite_witness("callsite:illposed/biorthonormality-test-uses-atol-only", "bd_battery.py", "ortho_rtol_finding",
                           "the (bi)orthonormality test has no tolerance besides atol (the contract of _check_biorthonormality treats np.allclose as an opaque predicate of overlap, identity and atol; "
                           "its hidden default rtol is outside that contract); the witness is replayed on every run")
    d.add_callsite_witness("callsite:illposed/operator-valued-non-Hermitian-input-is-rejected-in-Hermitian-mode", "bd_battery.py", "sqherm_finding",
                           "symbolic input that is not Hermitian is rejected in Hermitian mode also when it contains second-quantized operators; the witness is replayed on every run")
    d.run_battery("bd_battery.py", ["illposed"], "fixed list of ill-posed input classes x request orders x outputs x modes on 2-4 dimensional problems; see replay/bd_battery.py")
    return d.finish(level="proof", trusted_base=["contracts/sylvester.py", "contracts/bd_masks.py", "pyvc/pw.py"])
