"""C03 - the result is the unique least-action (Schrieffer-Wolff) transformation."""
from .common import Decision, run_units
from .series_props import fold_canaries
from .hermitian_common import specs_hermitian, LEAN_SETTING_NOTE, LEAN_VACUITY

LEAN = ["PV.C03_unique", "PV.lsa_unique", "PV.code_least_action", "PV.C03_gauge", "PV.C02_adjoint", "PV.C02_unit_left", "PV.C01_similarity", "PV.C01_eliminated",
        "PV.TB.toMain", "PV.TB.C03_gauge", "PV.TB.C03_unique", "PV.TB.same_as_general"]


def check(tier, seed):
    d = Decision("C03", tier, seed)
    t = 60000 if tier == "thorough" else 20000
    norm = [("contracts.bd_guards", "unit_fully_diagonalize_normalisation", {"nb": nb, "given": g, "timeout_ms": t}) for nb in (1, 2, 3) for g in ("empty", "list", "ndarray", "dict")]
    d.add_units(fold_canaries(run_units(specs_hermitian(tier) + norm)))
    d.add_lean(LEAN + LEAN_VACUITY)
    d.assumptions += [LEAN_SETTING_NOTE]
    d.assumptions += ["uniqueness theorem hypothesis Gapped(H0): order by order the map v -> H0 v - v H0 is injective on elements without kept part; for the "
                      "diagonal H0 of block_diagonalize this is 'energies of every eliminated pair differ', established on the real code by the PyVC obligations "
                      "mask:eliminated-implies-solver-divides / accepted-pair-has-nonzero-denominator (units bd_masks, sylvester) discharged in this run"]
    d.not_decided += ["that the independent unoptimised reference solver used by the bounded battery is itself correct (it is only the oracle of the bounded stand-in)"]
    d.explanation = ("Gauge clause machine-checked: the kept parts (kc, kn) of U - star U vanish (U - U^dagger = 2V and V has no kept part). "
                     "Uniqueness clause machine-checked (PV.lsa_unique, PV.C03_unique): any unitary 1 + O(lambda) that eliminates the selected elements of U^dagger H U and whose "
                     "anti-Hermitian part has no kept element equals the series the code computes, at every order (contraction on the difference).")
    d.run_battery("bd_battery.py", ['herm', 'unique'], "<= 3 blocks of size <= 3, <= 2 parameters, total order <= 3, dense/sparse, fixed mask family; see replay/bd_battery.py")
    return d.finish(level="proof", trusted_base=["leanalg/lean/PV/*.lean", "leanalg/genlean.py", "leanalg/extract.py", "contracts/*.py"])
