"""C03 - the result is the unique least-action (Schrieffer-Wolff) transformation."""
from .common import Decision, run_units
from .series_props import fold_canaries
from .hermitian_common import specs_hermitian, LEAN_SETTING_NOTE

LEAN = ["PV.C03_gauge", "PV.C02_adjoint", "PV.C02_unit_left", "PV.C01_similarity", "PV.C01_eliminated"]


def check(tier, seed):
    d = Decision("C03", tier, seed)
    d.add_units(fold_canaries(run_units(specs_hermitian(tier))))
    d.add_lean(LEAN)
    d.assumptions += [LEAN_SETTING_NOTE]
    d.not_decided += ["uniqueness clause ('coincides with an independent unoptimised solver'): follows from the gauge, unitarity and elimination "
                      "theorems by the standard order-by-order uniqueness argument, which is mechanised only when PV.uniqueness is listed among the Lean theorems"]
    d.explanation = ("Gauge clause machine-checked: the kept parts (kc, kn) of U - star U vanish (U - U^dagger = 2V and V has no kept part); "
                     "together with the C01/C02 theorems re-checked here.")
    d.run_battery("bd_battery.py", ['herm', 'unique'], "<= 3 blocks of size <= 3, <= 2 parameters, total order <= 3, dense/sparse, fixed mask family; see replay/bd_battery.py")
    return d.finish(level="proof", trusted_base=["leanalg/lean/PV/*.lean", "leanalg/genlean.py", "leanalg/extract.py", "contracts/*.py"])
