"""C05 - non-Hermitian: U_inv inverts U, U_inv H U = H_tilde, eliminated part zero."""
from .common import Decision, run_units
from .series_props import specs_evals, specs_wiring, specs_product, specs_index, specs_solver, specs_masks, fold_canaries
from .hermitian_common import LEAN_SETTING_NOTE

LEAN = ["PV.NH.inv_left", "PV.NH.inv_right", "PV.NH.C05_inverse_left", "PV.NH.C05_inverse_right", "PV.NH.C05_gauge",
        "PV.NH.X_comm", "PV.NH.main_similarity", "PV.NH.C05_similarity", "PV.NH.C05_eliminated",
        "PV.nh_unique", "PV.NH.code_least_action", "PV.C05_hermitian_limit"]


def check(tier, seed):
    d = Decision("C05", tier, seed)
    specs = (specs_evals(tier, algs=("nonhermitian",)) + specs_wiring(tier, algs=("nonhermitian",)) + specs_product(tier) + specs_index(tier)
             + specs_solver(tier) + specs_masks(tier) + [("contracts.frame", "unit_frame", {})])
    # explicit (R, L) biorthogonal bases and implicit mode: projected Hamiltonian, complement projector, direct solver (both orientations)
    from .format_props import specs_projection
    from .implicit_props import specs_direct
    t = 60000 if tier == "thorough" else 10000
    specs += specs_projection(tier) + [("contracts.linalg_projector", "unit_projector", {"variant": v, "timeout_ms": t}) for v in ("left-none", "left-same", "left-other")]
    from .format_props import specs_head
    specs += specs_direct(tier) + specs_head(tier)
    d.add_units(fold_canaries(run_units(specs)))
    d.add_lean(LEAN + ["PV.Direct.greens_solves", "PV.Direct.constrained_injective", "PV.Direct.matrix_greens_solves", "PV.Direct.matrix_constrained_injective", "PV.natural_nh"] + ["PV.Inst.filt", "PV.Inst.blocks", "PV.Inst.unperturbed", "PV.Inst.gapped", "PV.Inst.trivNonHermEqs",
                       "PV.Model.filtered", "PV.Model.blocks", "PV.Model.liftNH", "PV.MatrixModel.coeffUnperturbedNH", "PV.MatrixModel.nh_theorems"])
    d.add_callsite_witness("callsite:nonhermitian/H0-commutes-with-kept-part-of-U'", "bd_battery.py", "nh_finding",
                           "hypothesis of PV.NH.X_comm / main_similarity: H_0 commutes with the kept part of U'. block_diagonalize(hermitian=False) "
                           "does not establish it; the witness problem is replayed on every run")
    d.add_callsite_witness("callsite:nonhermitian/second-quantized-solver-has-no-non-Hermitian-mode", "nof_battery.py", "nh2q_finding",
                           "hermitian=False with operator-valued input: the second-quantized solver is only specified (and proved, C07 / C16) for Hermitian right-hand sides of diagonal elements; "
                           "block_diagonalize does not reject the combination; the witness is replayed on every run")
    d.assumptions += [LEAN_SETTING_NOTE,
                      "the similarity theorems are proved under the extra hypothesis  H_0 (S U') = (S U') H_0 ; inverse and gauge theorems need no hypothesis",
                      "no symmetry of the masks is used (asymmetric masks are covered)",
                      "the non-Hermitian theorems use the adjoint-free part of the setting only (UnperturbedNH): complex energies are covered; PV.MatrixModel.nh_theorems "
                      "states them for matrices of multivariate power series over any field, with entry masks and energies differing on eliminated pairs"]
    d.assumptions += ["Hermitian-limit clause (PV.C05_hermitian_limit) and uniqueness (PV.nh_unique) use Gapped(H0) (energies of eliminated pairs differ: mask / solver obligations of this run) "
                      "and, for the non-Hermitian side, the same commutation hypothesis as the similarity theorems"]
    d.not_decided += [
                      "explicit (R, L) biorthogonal bases: the projection contract (blocks L_i^dagger A R_j, complement projector 1 - R L^dagger under every operator "
                      "operation, direct solver with both orientations) is under contract here; that the projected problem is again an instance of the setting is the naturality "
                      "theorem PV.natural_nh; numerical conditioning of a non-unitary eigenbasis is not decided"]
    d.explanation = ("Inverse relations (both sides, by contraction) and the gauge are machine-checked in Lean from the equations extracted from "
                     "algorithms.nonhermitian without further hypotheses.  X = [H_S, U'] and U_inv H U = H_tilde are machine-checked under the hypothesis that "
                     "H_0 commutes with the kept part of U' - exactly what the code silently assumes; that hypothesis fails on the unchanged tree for kept blocks "
                     "with different unperturbed energies (known finding), which the check replays natively and reports as KNOWN-FINDING while still failing "
                     "on any other violation.  Hermitian-limit clause: machine-checked (PV.C05_hermitian_limit) - both algorithms' outputs are block-diagonalising transformations in the "
                     "gauge Sel(U - U_inv) = 0, which is unique (PV.nh_unique).")
    d.run_battery("bd_battery.py", ["nonherm"], "inputs on which the shipped algorithm is exact (block-degenerate H_0 or all blocks fully diagonalized): <= 3 blocks, <= 2 parameters, order <= 3, complex energies")
    d.run_battery("rel_battery.py", ["nh_frames"], "4-dimensional two-block problem, biorthogonal and rescaled (R, L) frames, Hermitian perturbation, dense / sparse, orders <= 3")
    d.run_battery("rel_battery.py", ["implicit"], "implicit mode against the explicit computation, incl. non-Hermitian problems with biorthogonal (R, L) bases, direct solver; sizes 8-9, order 3")
    return d.finish(level="proof", trusted_base=["leanalg/lean/PV/*.lean", "leanalg/genlean.py", "leanalg/extract.py", "contracts/*.py"])
