"""C15 - covariance under relabelling, permutation, degenerate rotation, conjugation, shift, scaling, direct sums."""
from .common import Decision, run_units
from .series_props import specs_masks, specs_solver, specs_evals, specs_wiring, fold_canaries
from .relational_common import NAT_LEAN, NAT_LEAN_NH, NAT_NOTE, INSTANCE_NOTE


def check(tier, seed):
    d = Decision("C15", tier, seed)
    from .implicit_props import specs_direct
    # implicit mode: the laws hold iff the implicit solver meets its contract for explicit levels listed in any order (per-level Green's functions)
    d.add_units(fold_canaries(run_units(specs_masks(tier) + specs_solver(tier) + specs_evals(tier) + specs_wiring(tier) + specs_direct(tier))))
    d.add_lean(NAT_LEAN + NAT_LEAN_NH + ["PV.shift_cov", "PV.scale_cov", "PV.C02_adjoint", "PV.Laws.conj_law", "PV.Laws.coeff_hom_law", "PV.Laws.perm_law", "PV.Laws.unitary_law",
                           "PV.DirectSum.prodBlocks", "PV.DirectSum.prodUnperturbed", "PV.DirectSum.direct_sum_law"])
    d.assumptions += [NAT_NOTE,
                      INSTANCE_NOTE + "conjugation by a block-permutation / state-permutation matrix, by a unitary acting inside levels of H_0 that the kept pattern treats "
                      "as a whole, entry-wise complex conjugation, and for direct sums the projections of the product algebra M x M' together with its block-diagonal embedding; for these the kept/eliminated split is preserved because "
                      "the pattern computed by block_diagonalize is a function of the block labels and of the energy differences only (PyVC obligations "
                      "mask:kept-iff-energies-within-atol, mask:complementary, mask:symmetric, commuting-flag obligations of unit bd_masks)",
                      "conjugation law: fully mechanised for the matrix model (PV.Laws.conj_law: entry-wise conjugation of every order of H conjugates every order of H_tilde, U, U^dagger); "
                      "permutation of basis states and relabelling of blocks: fully mechanised (PV.Laws.perm_law: transporting the entry classification and the Hamiltonian along a bijection of the basis "
                      "states transports every order of the outputs); change of basis by a unitary compatible with the masks - a rotation inside degenerate levels - : PV.Laws.unitary_law (the "
                      "compatibility of W with the kept / eliminated pattern is its hypothesis); all three are instances of PV.Laws.coeff_hom_law (any star ring homomorphism of the coefficient "
                      "algebras that respects the split); direct sums: PV.DirectSum.direct_sum_law - over the product algebra M x M' with component-wise block structure, unperturbed Hamiltonian and solver, every order of U, H_tilde, U^dagger for a Hamiltonian (H_A, H_B) is the pair of the corresponding orders for H_A and H_B (both projections are instances of coeff_hom_law); that the block-diagonal embedding of M x M' into the matrix algebra of the direct sum space is a star ring monomorphism compatible with the masks (true entry-wise: products, adjoints and masks of block-diagonal matrices are block-diagonal and computed block by block) is not mechanised; ",
                      "shift: PV.shift_cov with z = c * identity (central, kept); scaling: PV.scale_cov (any non-zero rational factor; the code's thresholds `atol` are "
                      "absolute, so the statement concerns inputs whose kept pattern is unchanged by the scaling - the property's threshold clause)"]
    d.not_decided += ["threshold behaviour (absolute atol, relative 1e-5 of np.isclose) under scaling and shifts: floating point (A-FP); bounded battery only",
                      "non-Hermitian algorithm outside the inputs on which it is exact (known finding F-NH of C05)"]
    d.explanation = ("Every transformation in the statement is a structure-preserving map of the setting in which uniqueness of the least-action transformation is "
                     "machine-checked, so outputs are carried to outputs (PV.natural); the asymmetric treatment of upper and lower blocks, of block 0 and of the last "
                     "block in the code is immaterial because the characterisation (unitarity, elimination, gauge) is symmetric.  Shift and scaling are separate "
                     "machine-checked corollaries.  The code-level obligations are those on the masks, flags and solver, discharged on the real code in this run.")
    d.add_callsite_witness("callsite:scale/shared-eigenvalue-test-is-scale-covariant", "bd_battery.py", "scale_finding",
                           "the shared-eigenvalue test that guards every off-diagonal solve is covariant under scaling of the whole Hamiltonian (it holds for the atol part only up to "
                           "the documented absolute tolerance; the np.isclose part has an absolute tolerance of its own); the witness is replayed on every run")
    d.add_callsite_witness("callsite:shift/kpm-rescale-accepts-shifted-spectra", "bd_battery.py", "kpm_shift_finding",
                           "the KPM solver accepts H_0 + c for every shift c within the property's quantifier (gap/|energy| > 1e-5); the witness is replayed on every run")
    d.run_battery("rel_battery.py", ["covariance"], "8 layouts (<= 3 blocks, n <= 5, full and selective diagonalization, Hermitian and non-Hermitian-exact), all block "
                  "relabellings, one random state permutation, random unitaries inside degenerate levels, conjugation, 2 shifts, 2 scales, direct sum with a 3-level system; orders <= 3")
    d.run_battery("rel_battery.py", ["covariance_masks"], "3 blocks (3 + 3 + 1 states), 3 mask dictionaries, all 6 relabellings x 2 key orders, orders <= 3")
    d.run_battery("rel_battery.py", ["covariance_implicit"], "implicit mode with the direct solver, n = 9 (+7), 3 (+2) explicit levels, real / complex: 3 permutations of the explicit "
                  "eigenvectors, shift, direct sum of two systems whose explicit levels interleave in energy; orders <= 3")
    return d.finish(level="proof", trusted_base=["leanalg/lean/PV/*.lean", "leanalg/genlean.py", "leanalg/extract.py", "contracts/*.py"])
