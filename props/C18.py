"""C18 - cauchy_dot_product is the multivariate Cauchy product."""
from .common import Decision, run_units
from .series_props import specs_product, specs_index, fold_canaries


def check(tier, seed):
    d = Decision("C18", tier, seed)
    # the product relies on BlockSeries.__contains__ / __getitem__ (which terms are skipped, each factor element evaluated once): their units run here too
    d.add_units(fold_canaries(run_units(specs_product(tier) + specs_index(tier))))
    d.add_lean(["PV.Bridge.sum_antidiagonal_eq_sum_box", "PV.Bridge.coeff_mul_box", "PV.Bridge.coeff_mul_blocks", "PV.Model.filtered"])
    d.assumptions += [
        "P-ONE (sentinel discipline, precondition): the `one` sentinel never meets another non-zero contribution in a sum "
        "(series.One supports no arithmetic by design); paths on which it would are excluded and counted in the evidence",
        "pairing precondition of hermitian=True: second[k,s,p] = Dagger(first[s,k,p]) on the orders paired; the literal wording "
        "'for a product that is Hermitian' is weaker and not sufficient (known finding F-H)",
        "finite-sum lemma: the sum of the per-iteration contributions over the iteration set product(range(n_blocks), box 0 <= m <= n) is the coefficient of the "
        "product in the ring of block matrices of multivariate power series (Lean: PV.Bridge.coeff_mul_blocks, sum_antidiagonal_eq_sum_box); the m <-> n-m involution "
        "under lexicographic order used by the hermitian shortcut is covered by the per-iteration obligations (pairing) but its summation is not mechanised",
    ]
    d.not_decided += ["rounding of floating-point sums (A-FP)"]
    d.explanation = ("Per-iteration obligations of the real loop body of product_by_order (symbolic block indices, symbolic number of "
                     "parameters and orders, symbolic sentinel tags), footprint and laziness obligations at every element read, "
                     "structure of cauchy_dot_product for 2..n factors (induction step on the number of factors).")
    d.add_callsite_witness("statement:hermitian-flag/product-hermitian-is-not-enough", "series_battery.py", "herm_flag_finding",
                           "literal clause of C18: hermitian=True 'for a product that is Hermitian' leaves values unchanged. The code needs the stronger "
                           "precondition second = adjoint(first) (under which the clause is proved); the weaker literal condition has a counterexample")
    d.run_battery("series_battery.py", ['product'], "shapes <= (2,3), <= 2 infinite dimensions, orders <= 3, fixed list of index entries, 4x4 two-block problems; see replay/series_battery.py")
    return d.finish(level="proof", trusted_base=["contracts/series_product.py", "contracts/series_index.py", "leanalg/lean/PV/CauchyBridge.lean", "leanalg/lean/PV/Model.lean"])
