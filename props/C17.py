"""C17 - the complement projector equals the matrix 1 - R L^dagger under every operator operation."""
from .common import Decision, run_units

LP = "contracts.linalg_projector"


def check(tier, seed):
    d = Decision("C17", tier, seed)
    t = 60000 if tier == "thorough" else 10000
    # the frame unit: applying the projector writes into nothing the caller can reach (its operand in particular) - `P v` is a value, not an update of v
    d.add_units(run_units([(LP, "unit_projector", {"variant": v, "timeout_ms": t}) for v in ("left-none", "left-same", "left-other")] + [("contracts.frame", "unit_frame", {})]))
    d.assumptions += [
        "A-NP1: numpy `@`, `.conj()`, `.T`, `-` are matrix product, entry-wise conjugation, transposition and subtraction (free matrix algebra with two involutions)",
        "A-SC: scipy.sparse.linalg.LinearOperator and its composite operators dispatch matvec/matmat/rmatvec/rmatmat/adjoint/transpose/dot/+/@ to the "
        "_matvec/_matmat/_rmatvec/_rmatmat/_adjoint/_transpose hooks and `conjugate` of a subclass; exercised by the bounded battery only",
        "np.iscomplexobj(conj(x)) = np.iscomplexobj(x.T) = np.iscomplexobj(x); a real array equals its conjugate",
    ]
    d.not_decided += ["dtype promotion of results (numpy type promotion rules) beyond the dtype reported by the operator"]
    d.explanation = ("Every method body of ComplementProjector is executed symbolically from the class definition with arrays as elements of the free "
                     "matrix algebra with conjugation and transposition: _apply = P v, _apply_left = P^H v, and every object reachable by up to three of "
                     "adjoint / conjugate / transpose (all 39 words, both hermitian and biorthogonal construction, real or complex vectors) denotes the "
                     "correspondingly transformed dense matrix; memoisation is consistent; the base class is initialised with shape (n,n) and the promoted "
                     "dtype; P P = P under L^H R = 1.")
    d.run_battery("bd_battery.py", ["projector", "batch_finding"], "n = 6, 2 vectors, real/complex and biorthogonal combinations, 9 views x 10 operator operations incl. scipy composites")
    return d.finish(level="proof", trusted_base=["contracts/linalg_projector.py", "contracts/frame.py", "pyvc/effects.py", "pyvc/matnf.py"])
