"""C01 - Hermitian: U^dagger H U equals H_tilde on kept elements, zero on eliminated ones."""
from .common import Decision, run_units
from .series_props import fold_canaries, specs_nof
from .secondq_props import specs_secondq
from .hermitian_common import specs_hermitian, LEAN_SETTING_NOTE, LEAN_VACUITY

LEAN = ["PV.pairing", "PV.unit_left", "PV.X_comm", "PV.main_similarity", "PV.C01_similarity", "PV.C01_eliminated",
        "PV.TB.toMain", "PV.TB.C01_similarity", "PV.TB.C01_eliminated", "PV.TB.Dx_zero", "PV.TB.comm_WV"]


def check(tier, seed):
    d = Decision("C01", tier, seed)
    t = 60000 if tier == "thorough" else 20000
    norm = [("contracts.bd_guards", "unit_fully_diagonalize_normalisation", {"nb": nb, "given": g, "timeout_ms": t}) for nb in (1, 2) for g in ("empty", "list", "ndarray", "dict")]
    guards = [("contracts.bd_guards", "unit_h0_guards", {"nb": 2, "hermitian": True, "timeout_ms": t})]
    # operator-valued (second-quantized) Hermitian input: operator algebra and solver under the C07 / C08 contracts
    d.add_units(fold_canaries(run_units(specs_hermitian(tier) + norm + guards + specs_nof(tier) + specs_secondq(tier))))
    d.add_lean(LEAN + LEAN_VACUITY)
    d.assumptions += [LEAN_SETTING_NOTE,
                      "input precondition: H is Hermitian (H[i,j,n]^dagger = H[j,i,n]) and masks are symmetric",
                      "all three variants of the equations (general, commuting_blocks, two_block_optimized) are covered by the Lean theorems; the two-block one "
                      "through PV.TB.toMain under the class TwoBlocks (see the setting note)"]
    d.not_decided += ["rounding clause for floating-point inputs (A-FP)"]
    d.explanation = ("T-main is machine-checked in Lean 4 from the equations extracted from algorithms.main on this run: "
                     "(1+U'^dagger) H (1+U') = H_tilde in every filtered star ring with the block structure above, hence for all block counts and "
                     "sizes, numbers of parameters, orders and masks; the evaluators, products, cache and wiring that make the extracted equations "
                     "the equations that run are discharged by the PyVC units of C09/C18/C19 re-run here.")
    d.run_battery("nof_battery.py", ["secondq"], "operator-valued input: 6 second-quantized models + 2 operator masks against numpy block_diagonalize on truncated Fock spaces; "
                  "U^dagger U = 1 and U^dagger H U = H_tilde within the operator algebra (see C07)", timeout=3000)
    d.run_battery("bd_battery.py", ['herm'], "<= 3 blocks of size <= 3, <= 2 parameters, total order <= 3, dense/sparse, fixed mask family; see replay/bd_battery.py")
    return d.finish(level="proof", trusted_base=["leanalg/lean/PV/*.lean", "leanalg/genlean.py", "leanalg/extract.py", "contracts/*.py"])
