"""C16 - Sylvester and Green's-function solvers return solutions of their equations."""
from .common import Decision, run_units
from .secondq_props import specs_secondq
from .implicit_props import specs_direct
from .series_props import specs_solver, fold_canaries


def check(tier, seed):
    d = Decision("C16", tier, seed)
    d.add_units(fold_canaries(run_units(specs_solver(tier) + specs_secondq(tier) + specs_direct(tier))))
    d.assumptions += [
        "A-NP2 pointwise models of the numpy / scipy.sparse / sympy-matrix functions used by solve_sylvester_diagonal (listed under assumed_contracts_used)",
        "np.isclose: equal values are close (only this direction is used)",
        "COO representation of a sparse right-hand side is canonical (no duplicate entries)",
    ]
    d.not_decided += [
        "kpm.greens_function: loop-exit postcondition proved for any number of iterations (residual of the returned vector <= atol unless a RuntimeWarning was issued); "
        "direct_greens_function / _constrain_matrix, _group_close_energies and solve_sylvester_KPM's rescaling are not under deductive contract: they are covered by the bounded "
        "battery section 'solvers' only (scipy LU, KDTree / argsort grouping, KPM convergence are external); solve_sylvester_direct is under a structural contract "
        "(which Green's function serves which level / row, projections, sign), its numerical content rests on direct_greens_function; "
        "KPM accuracy is a numerical-analysis statement outside this technique",
        "implicit-mode branches of solve_sylvester_diagonal (vecs_implicit) are not instantiated",
    ]
    d.explanation = ("solve_sylvester_diagonal.solve_sylvester is executed symbolically from the real AST in a pointwise array model for dense, sparse and "
                     "symbolic right-hand sides with symbolic block sizes, complex energies, tolerance and block indices: the returned element is proved "
                     "equal to Y_ab/(E_a-F_b) where |E_a-F_b| > atol and 0 elsewhere (sympy: where E_a = F_b), the first-use check raises exactly for "
                     "shared energies and records the pair only on success; the formula is proved to solve E_a V - V F_b = Y (nlsat).  Second-quantized solver: solve_scalar is "
                     "proved to satisfy H_ii V - V H_jj = Y on every occupation state for an arbitrary term (contracts/secondq.py), and solve_sylvester_2nd_quant to fill every "
                     "entry from the scalar problem of its row and column energies.")
    d.run_battery("bd_battery.py", ["solvers"], "matrices of size <= 30, 2 explicit blocks, real/complex, degenerate explicit levels, KPM with 0/1/5 auxiliary vectors; see replay/bd_battery.py")
    return d.finish(level="proof", trusted_base=["contracts/sylvester.py", "pyvc/pw.py"])
