"""C16 - Sylvester and Green's-function solvers return solutions of their equations."""
from .common import Decision, run_units
from .secondq_props import specs_secondq
from .implicit_props import specs_direct
from .series_props import specs_solver, fold_canaries


def check(tier, seed):
    d = Decision("C16", tier, seed)
    d.add_units(fold_canaries(run_units(specs_solver(tier) + specs_secondq(tier) + specs_direct(tier))))
    d.add_lean(["PV.Direct.greens_solves", "PV.Direct.constrained_injective", "PV.Direct.matrix_greens_solves", "PV.Direct.matrix_constrained_injective"])
    d.assumptions += [
        "direct_greens_function: preconditions - kernel_vectors K / left_kernel_vectors L are bases of the right / left kernel of E - h with L^H K = 1 (established by the caller's "
        "biorthonormality check, contracts/bd_guards.py) and K spans the whole kernel; A-SC: pivoted QR of a full-column-rank n x k matrix returns k leading pivots whose rows form an "
        "invertible k x k submatrix (this is what turns 'pivots of L' / 'pivots of K' into the row_gauge / col_gauge hypotheses; PV.Direct.matrix_greens_solves / matrix_constrained_injective derive everything else - idempotence of P, P M = M P = M, the gauge conditions on linear maps - from the matrix facts L^H K = 1, M K = 0, L^H M = 0); the sparse LU / MUMPS solve is exact; "
        "a real factorisation applied to real and imaginary part separately is the complex solve; with MUMPS and an empty kernel the symmetric storage flag additionally needs h symmetric "
        "(true for Hermitian real h; not checkable here - MUMPS is not installed)",
        "A-NP2 (linalg._constrain_matrix): tocoo() enumerates the stored entries once; boolean-mask indexing of parallel arrays keeps them aligned; np.concatenate appends; "
        "csr_array((data,(rows,cols))) has exactly the entries given (pivot rows are pairwise distinct)",
        "A-NP2 pointwise models of the numpy / scipy.sparse / sympy-matrix functions used by solve_sylvester_diagonal (listed under assumed_contracts_used)",
        "np.isclose: equal values are close (only this direction is used)",
        "COO representation of a sparse right-hand side is canonical (no duplicate entries)",
    ]
    d.not_decided += [
        "kpm.greens_function: loop-exit postcondition proved for any number of iterations (residual of the returned vector <= atol unless a RuntimeWarning was issued); "
        "_kernel_pivot_rows is under a structural contract (leading k pivots of the column-pivoted QR of the transposed basis); that these rows form an invertible submatrix is the assumed QR fact, exercised by the bounded "
        "battery section 'solvers' only (scipy LU, QR, KPM convergence are external; _group_close_energies is under contract: levels within atol are never separated, groups are chains, contracts/grouping.py); solve_sylvester_direct is under a structural contract "
        "(which Green's function serves which level / row, projections, sign); direct_greens_function under an assembly contract and _constrain_matrix under an entry-wise contract, "
        "joined by the Lean lemmas PV.Direct.greens_solves / constrained_injective; "
        "KPM accuracy is a numerical-analysis statement outside this technique",
        "implicit-mode branches of solve_sylvester_diagonal (vecs_implicit) are not instantiated",
    ]
    d.explanation = ("solve_sylvester_diagonal.solve_sylvester is executed symbolically from the real AST in a pointwise array model for dense, sparse and "
                     "symbolic right-hand sides with symbolic block sizes, complex energies, tolerance and block indices: the returned element is proved "
                     "equal to Y_ab/(E_a-F_b) where |E_a-F_b| > atol and 0 elsewhere (sympy: where E_a = F_b), the first-use check raises exactly for "
                     "shared energies and records the pair only on success; the formula is proved to solve E_a V - V F_b = Y (nlsat).  Second-quantized solver: solve_scalar is "
                     "proved to satisfy H_ii V - V H_jj = Y on every occupation state for an arbitrary term (contracts/secondq.py), and solve_sylvester_2nd_quant to fill every "
                     "entry from the scalar problem of its row and column energies.  Direct Green's function: _constrain_matrix is proved entry-wise to return (1 - D)(E - h) + S "
                     "(D = projection on the replaced rows, S = unit rows of the constrained unknowns); direct_greens_function is proved to factorise exactly that matrix with the rows taken from the "
                     "pivots of the LEFT kernel basis and the unknowns from the RIGHT one, and its closure to return P solve((1 - D) P v) without touching the caller's vector; the Lean lemma "
                     "PV.Direct.greens_solves then gives (E - h) x = P v and P x = x, PV.Direct.constrained_injective that the factorised matrix is non-singular.")
    d.run_battery("bd_battery.py", ["solvers"], "matrices of size <= 30, 2 explicit blocks, real/complex, degenerate explicit levels, non-normal H_0 with biorthogonal bases (incl. left vector vanishing on the right pivot), KPM with 0/1/5 auxiliary vectors; see replay/bd_battery.py")
    d.run_battery("nof_battery.py", ["solver"], "second-quantized solver as an exact operator identity: 11 problems over boson / ladder / spin / fermion combinations, diagonal elements "
                  "and off-diagonal blocks, symbolic parameters; residual simplified to the zero operator in number-ordered form")
    return d.finish(level="proof", trusted_base=["contracts/sylvester.py", "contracts/linalg_direct.py", "pyvc/pw.py", "leanalg/lean/PV/Direct.lean"])
