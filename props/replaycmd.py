"""./check <Cxx> --replay <file>: print the recorded violation; re-run the native failing input if one is recorded."""
import json
import os
import subprocess
import sys

ROOT = os.path.dirname(os.path.dirname(os.path.abspath(__file__)))


def replay(pid, path):
    with open(path) as f:
        rec = json.load(f)
    print(f"property {rec.get('property')} failed obligation: {rec.get('failed_obligation')} ({rec.get('instances')} instance(s))")
    for v in rec.get("verifier_output", [])[:3]:
        print("  verifier:", v.get("status"), (v.get("detail") or "")[:600])
        if v.get("model"):
            print("  counter-model:", json.dumps(v["model"])[:600])
    fi = rec.get("failing_input")
    if not fi:
        print("no failing input was found for this obligation (no-failing-input-found)")
        return 1
    print("failing input:", json.dumps(fi, default=str)[:1500])
    cmd = fi.get("replay_cmd") if isinstance(fi, dict) else None
    if cmd:
        print("re-running:", cmd)
        r = subprocess.run(cmd, shell=True, cwd=ROOT)
        print("replay exit", r.returncode, "(1 = failure reproduced)")
        return 1 if r.returncode != 0 else 0
    return 1
