"""C14 - all input formats and eigenbases give the same result; operator_to_BlockSeries returns L_i^dagger A R_j."""
from .common import Decision, run_units
from .series_props import specs_solver, specs_masks, fold_canaries
from .format_props import specs_linalg_misc, specs_keys, specs_projection, specs_blocks, specs_head
from .relational_common import NAT_LEAN, NAT_LEAN_NH, NAT_NOTE, INSTANCE_NOTE


def check(tier, seed):
    d = Decision("C14", tier, seed)
    t = 60000 if tier == "thorough" else 20000
    sub = [("contracts.bd_guards", "unit_check_biorthonormality", {"nsub": n, "kind": k, "timeout_ms": t}) for n, k in ((1, "ndarray"), (3, "mixed"), (2, "sympy-mutable"), (2, "sympy-immutable"))] + [("contracts.bd_guards", "unit_normalize_subspaces", {"timeout_ms": t})]
    d.add_units(fold_canaries(run_units(specs_keys(tier) + specs_projection(tier) + specs_blocks(tier) + specs_solver(tier) + specs_masks(tier) + sub + specs_linalg_misc(tier) + specs_head(tier))))
    d.add_lean(NAT_LEAN + NAT_LEAN_NH + ["PV.Laws.coeff_hom_law", "PV.Laws.unitary_law", "PV.Laws.perm_law"])
    d.assumptions += [NAT_NOTE,
                      INSTANCE_NOTE + "a change of (bi)orthonormal eigenbasis is conjugation A -> L^dagger A R with L^dagger R = 1, a ring homomorphism of the block algebra "
                      "that commutes with adjoint (unitary case) and with the kept/eliminated split defined in the eigenbasis",
                      "library calls are uninterpreted in the format contracts: sympy diff / subs / expand and partial derivatives commuting (A-SY3), scipy csr_array / "
                      "identity / fancy column indexing and np.compress returning the selected elements in order (A-NP, A-SC), copy() being a shallow copy",
                      "dense / sparse / symbolic branches of the diagonal solver and of the masks have the same element-wise postcondition (units sylvester, bd_masks)"]
    d.not_decided += ["value equality of results across dense / sparse / symbolic arithmetic of numpy, scipy and sympy themselves (A-NP, A-SC, A-SY): bounded battery only",
                      "the part of block_diagonalize after operator_to_BlockSeries that is not under a contract of its own (choice of the multiplication operator, assembly of the scope "
                      "dictionary) is exercised by the battery only; its head (converters -> eigenvector normalisation -> biorthonormality check -> implicit solvers -> operator_to_BlockSeries) is under contract (contracts.bd_head)"]
    d.explanation = ("Each format converter is under contract on the real code: lists map perturbation k to the unit vector e_k; monomial keys map to exponent vectors in "
                     "name-sorted symbol order (any set iteration order), prefactors and non-commutative symbols are rejected; _dict_to_BlockSeries keeps keys and values "
                     "and never mutates the caller's dict; the Taylor recursion yields prod 1/n_k! d^n/ds^n at s = 0 times the monomial; nested block lists are "
                     "unpacked element [i][j]; subspace_indices select identity columns per label in order; operator_to_BlockSeries.op_eval returns "
                     "convert_if_zero(L_i^dagger A R_j) in the free matrix algebra for every block, including the Hermitian shortcut for lower blocks (valid under "
                     "A^dagger = A, L = R) and the implicit last block; _to_scalar_BlockSeries dispatches each type to its converter with arguments forwarded.  "
                     "Equivalence of eigenbases is an instance of the machine-checked naturality theorem.")
    d.add_callsite_witness("callsite:formats/legacy-sparse-matrix-values-behave-like-arrays", "bd_battery.py", "spm_finding",
                           "value types: the equivalence is proved for ndarray, sparse ARRAY and sympy values (element-wise contracts of masks and solver); values of the legacy scipy.sparse MATRIX "
                           "classes turn into numpy.matrix when added to dense terms, for which `*` is a matrix product; the witness is replayed on every run")
    d.run_battery("rel_battery.py", ["formats"], "4 layouts x 11 container/value-type variants (list, dict with tuples or monomials, sympy matrix incl. analytic dependence, "
                  "BlockSeries, nested blocks; dense, sparse csr/coo/csc, mixed, sympy rationals), indices vs eigenvectors, random unitary and biorthogonal bases, "
                  "exact L^dagger A R check for n = 6, 11, 24, 48 with interleaved labels; orders <= 3")
    return d.finish(level="proof", trusted_base=["contracts/formats.py", "pyvc/matnf.py", "leanalg/lean/PV/*.lean", "leanalg/genlean.py", "leanalg/extract.py"])
