"""C10 - results independent of evaluation order/history; returned values and inputs not mutated."""
from .common import Decision, run_units
from .series_props import specs_evals, specs_wiring, specs_product, specs_index, specs_solver, fold_canaries
from .format_props import specs_keys


def check(tier, seed):
    d = Decision("C10", tier, seed)
    specs = specs_index(tier) + specs_product(tier) + specs_evals(tier) + specs_wiring(tier) + [("contracts.frame", "unit_frame", {})] + specs_keys(tier) + specs_solver(tier)
    d.add_units(fold_canaries(run_units(specs)))
    d.assumptions += [
        "user callbacks (Hamiltonian evaluation, custom solve_sylvester, element multiplication) are deterministic and do not mutate their arguments (as in the statement of C10)",
        "numpy / scipy / sympy operators `+ - @ * /`, Dagger, .multiply, .multiply_elementwise return new objects and leave operands unchanged (A-NP1)",
        "interleaving of several computations built from the same inputs shares only the input series' caches, which satisfy the cache invariant",
    ]
    d.explanation = ("History independence = cache invariant: every cached entry is in flight or denotes val(series, index), val being a function "
                     "of the inputs only (evaluators, products and wrappers are proved to denote their equations; deletions are proved never to "
                     "remove start data or an in-flight entry).  No-mutation = frame obligations: one per store site of every function under "
                     "contract (pyvc/effects.py), plus aliasing obligations on in-place updates inside the symbolic execution, plus the input-not-mutated "
                     "postconditions of the format converters (_list_to_dict, _dict_to_BlockSeries works on a copy, _symbolic_keys_to_tuples).  The default solver carries the "
                     "only other state that survives a request (its memo of validated block pairs): its contract says that a pair is accepted iff the two blocks "
                     "share no energy, whatever the right-hand side, and that a refusal records nothing - so the memo cannot change a later outcome.")
    d.run_battery("bd_battery.py", ["inputs_untouched"], "list / dict (tuple and monomial keys) / BlockSeries inputs with dense, diagonal-dense, csr, coo, dia values: entries of the caller's "
                  "containers are the same objects with the same contents after defining and evaluating the result to order 3")
    d.run_battery("series_battery.py", ['history', 'history_illposed', 'fault', 'index'], "shapes <= (2,3), <= 2 infinite dimensions, orders <= 3, fixed list of index entries, 4x4 two-block problems; see replay/series_battery.py")
    return d.finish(level="proof", trusted_base=["contracts/series_index.py", "contracts/series_product.py", "contracts/algorithm_evals.py", "contracts/frame.py", "contracts/sylvester.py", "pyvc/effects.py"])
