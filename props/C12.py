"""C12 - lazy and causal: order n uses only Hamiltonian terms of order <= n."""
from .common import Decision, run_units
from .series_props import specs_evals, specs_wiring, specs_product, specs_index, fold_canaries


def check(tier, seed):
    d = Decision("C12", tier, seed)
    specs = specs_product(tier) + specs_evals(tier) + specs_wiring(tier) + specs_index(tier) + [("contracts.definition_time", "unit_definition_time", {})]
    # the input-normalisation chain in front of the algorithm: a BlockSeries is used as it is (its cache is the at-most-once guarantee), the
    # wrappers read the wrapped series at the requested order only
    from .format_props import specs_keys, specs_blocks, specs_projection
    specs += specs_keys(tier) + specs_blocks(tier) + specs_projection(tier)
    # the second-quantization wrapper of the Hamiltonian reads the caller's series exactly once, at the requested index (and the exit wrapper likewise)
    t_sq = 60000 if tier == "thorough" else 20000
    specs += [("contracts.secondq", "unit_h_eval", {"kind": k, "scalar_input": si, "timeout_ms": t_sq}) for k, si in (("zero", False), ("scalar", True), ("matrix", False), ("immutable", False), ("ndarray", False), ("sparse", False))]
    specs += [("contracts.secondq", "unit_postprocessing_eval", {"kind": k, "scalar_input": si, "timeout_ms": t_sq}) for k, si in (("zero", True), ("matrix1x1", True), ("matrix", False))]
    d.add_units(fold_canaries(run_units(specs)))
    d.assumptions += [
        "typing assumption of the definition-time check: the BlockSeries-typed variables are those declared in contracts/definition_time.py",
        "input-normalisation wrappers (_to_scalar_BlockSeries, _unpack_blocks.op_eval, operator_to_BlockSeries.op_eval) are under contract in this run: a BlockSeries input is used directly "
        "(obligation BlockSeries-used-directly), the wrappers read the wrapped series through its cache at the requested order only; H_eval / postprocessing of the second-quantized path: C07",
    ]
    d.explanation = ("Footprint obligations at every series read: product_by_order requests factors only at orders 0 <= m <= n (componentwise) "
                     "and only when the complementary element is not known to vanish; every generated evaluator reads other series only at the "
                     "requested order and block (or its transpose); at-most-once follows from the cache protocol (C19) because inputs are never "
                     "deleted (delete:not-blacklisted); definition-time reads are structurally zeroth-order.")
    d.run_battery("series_battery.py", ['lazy', 'index', 'product'], "shapes <= (2,3), <= 2 infinite dimensions, orders <= 3, fixed list of index entries, 4x4 two-block problems; see replay/series_battery.py")
    return d.finish(level="proof", trusted_base=["contracts/series_product.py", "contracts/algorithm_evals.py", "contracts/definition_time.py"])
