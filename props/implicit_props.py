"""Units for the direct implicit solver (C06, C16)."""
DR = "contracts.direct"


def specs_direct(tier):
    t = 60000 if tier == "thorough" else 20000
    s = [(DR, "unit_grouped_greens_functions", {"nsub": n, "conjugate": c, "timeout_ms": t}) for n, c in ((1, False), (1, True), (2, True), (3, False))]
    s += [(DR, "unit_direct_solve", {"nsub": n, "nonhermitian": nh, "timeout_ms": t}) for n, nh in ((1, False), (1, True), (2, True), (3, False))]
    s += [(DR, "unit_direct_setup", {"nsub": n, "nonhermitian": nh, "opts": o, "timeout_ms": t})
          for n, nh, o in ((1, False, "none"), (2, True, "none"), (2, False, "eigenvalue_atol"), (1, True, "atol"), (1, False, "eps"), (2, True, "extra"), (3, False, "extra"))]
    s += [("contracts.kpm", "unit_greens_function", {"timeout_ms": t}), ("contracts.kpm", "unit_kpm_vectors", {"timeout_ms": t})]
    s += [("contracts.kpm", "unit_solve_sylvester_KPM", {"nsub": n, "with_aux": a, "timeout_ms": t}) for n, a in ((1, False), (1, True), (2, True))]
    s += [("contracts.kpm", "unit_solve_sylvester_KPM", {"nsub": n, "with_aux": a, "timeout_ms": t, "defaults": True}) for n, a in ((2, False), (1, True))]
    s += [("contracts.kpm", "unit_rescale", {"kind": k, "bounds_given": bg, "with_lower_bounds": lb, "timeout_ms": t})
          for k, bg, lb in (("dense", True, False), ("sparse", False, False), ("dense", False, True), ("sparse", True, True), ("other", True, False))]
    s += [("contracts.linalg_direct", "unit_constrain_matrix", {"cols_given": cg, "timeout_ms": t}) for cg in (True, False)]
    s += [("contracts.linalg_direct", "unit_direct_greens_function", {"kernel": k, "mumps": m, "timeout_ms": t}) for k in ("none", "same", "pair") for m in (False, True)]
    s += [("contracts.linalg_direct", "unit_kernel_pivot_rows", {"timeout_ms": t})]
    s += [("contracts.grouping", "unit_group_close_energies", {"kind": k, "timeout_ms": t}) for k in ("empty", "real", "complex")]
    return s
