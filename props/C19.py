"""C19 - BlockSeries indexing follows numpy semantics with exactly-once evaluation."""
from .common import Decision, run_units
from .series_props import specs_index, fold_canaries, getitem_grid


def check(tier, seed):
    d = Decision("C19", tier, seed)
    d.add_units(fold_canaries(run_units(specs_index(tier))))
    d.assumptions += [
        "N1-N3 / A-NP2: numpy index resolution (np.zeros/np.where/a[item]/np.isscalar/np.min/np.max/ma.masked_where) as stated in contracts/series_index.py",
        "rely condition on the eval callback: returns an object denoting the element or raises; keeps in-flight entries in flight; leaves no new in-flight entry",
        "slices are forward slices (step None or >= 1), as in the statement of C19",
    ]
    d.not_decided += ["the finite-dimension-only (view) branch of __getitem__ is checked structurally only when listed among the units"]
    d.explanation = ("_check_finite / _check_number_perturbations proved for tuples of arbitrary length; the cache protocol of the "
                     "__getitem__ loop body proved for an arbitrary addressed index and arbitrary cache state satisfying the invariant; "
                     f"bounded in the number of dimensions: (n_finite, n_infinite) in {getitem_grid(tier)}.")
    d.run_battery("series_battery.py", ['index'], "shapes <= (2,3), <= 2 infinite dimensions, orders <= 3, fixed list of index entries, 4x4 two-block problems; see replay/series_battery.py")
    return d.finish(level="proof", trusted_base=["contracts/series_index.py"])
