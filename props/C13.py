"""C13 - multi-parameter order bookkeeping (scale, merge, permute, vanishing perturbation, substitution)."""
from .common import Decision, run_units
from .series_props import specs_product, specs_evals, specs_wiring, specs_solver, fold_canaries
from .relational_common import NAT_LEAN, NAT_LEAN_NH, NAT_NOTE, INSTANCE_NOTE
from .format_props import specs_keys


def check(tier, seed):
    d = Decision("C13", tier, seed)
    d.add_units(fold_canaries(run_units(specs_product(tier) + specs_evals(tier) + specs_wiring(tier) + specs_keys(tier) + specs_solver(tier))))
    d.add_lean(NAT_LEAN + NAT_LEAN_NH + ["PV.Laws.scaleHom", "PV.Laws.scale_law", "PV.Bridge.coeff_mul_blocks", "PV.Rename.pushHom", "PV.Rename.push_law", "PV.Rename.renameHom", "PV.Rename.rename_law", "PV.Rename.rename_law_injective", "PV.Rename.power_law"])
    d.assumptions += [NAT_NOTE,
                      "scale law: fully mechanised for the concrete model (PV.Laws.scale_law: for block series over any coefficient algebra with a block structure, rational scale factors, "
                      "any number of parameters, order n of H_tilde, U, U^dagger is multiplied by prod_k c_k^(n_k)); merge / permute / vanishing-perturbation laws: fully mechanised as well "
                      "(PV.Rename.rename_law: for ANY map f between parameter sets with finite fibres, order m of the outputs for the renamed Hamiltonian is the sum of the orders n of the original "
                      "outputs with mapDomain f n = m - identifying two parameters gives the sum over n1 + n2 = m; PV.Rename.rename_law_injective: an injective f (permutation, adjoining unused "
                      "parameters) only relabels orders and the new orders outside the range vanish); the substitution lambda -> lambda^p: PV.Rename.power_law (order p n of the new outputs "
                      "is order n of the old ones, all other orders vanish) - all instances of one general push-forward construction (PV.Rename.pushHom / push_law) for non-commutative coefficients; "
                      "real / complex (non-rational) scale factors remain an instance of naturality whose homomorphism property is not mechanised:",
                      INSTANCE_NOTE + "scaling lambda_k -> c_k lambda_k by a non-rational factor is an order-filtration preserving ring homomorphism of multivariate power series "
                      "over the block algebra that acts on coefficients only through the order index, hence commutes with adjoint and with the kept/eliminated split",
                      "the generated evaluators depend on the order index only through Cauchy products and the zeroth-order test (proved per evaluator by translation "
                      "validation against order-independent equations: units contracts.algorithm_evals)"]
    d.not_decided += ["the laws for the non-Hermitian algorithm outside the inputs on which it is exact (known finding F-NH of C05)",
                      "sympy differentiation / substitution used by the Taylor expansion (A-SY3): only the recursion that combines them is under contract"]
    d.explanation = ("Each law is an instance of the machine-checked naturality theorem for the equations extracted from the code; the code-level obligations are the "
                     "multi-index contract of product_by_order / cauchy_dot_product (all parameter counts, symbolic orders), the evaluators' order-uniformity, and the "
                     "built-in solver being the element-wise division V_ab = Y_ab / (E_a - F_b) (linear in the right-hand side, no threshold on its size: the laws' hypothesis "
                     "that the solver is a linear map; units contracts.sylvester), and the key normalisation of the input formats: _list_to_dict maps perturbation k to the unit vector e_k, _symbolic_keys_to_tuples maps a monomial to its "
                     "exponent vector in name-sorted symbol order and rejects prefactors, the Taylor recursion of _sympy_to_BlockSeries divides each derivative step "
                     "by the order of the differentiated axis (so the accumulated factor is prod n_k!), _dict_to_BlockSeries keeps keys and values.")
    d.run_battery("rel_battery.py", ["multi"], "8 layouts (<= 3 blocks, n <= 5, Hermitian and non-Hermitian-exact), dense/sparse, 2-3 parameters, total order <= 3-4, "
                  "scale/merge/permute/vanish/substitute/group, symbolic input with mixed monomials")
    return d.finish(level="proof", trusted_base=["leanalg/lean/PV/*.lean", "leanalg/genlean.py", "leanalg/extract.py", "contracts/*.py"])
