"""C09 - compiling a series mini-language algorithm preserves its meaning."""
from .common import Decision, run_units
from .series_props import specs_evals, specs_wiring, specs_product, specs_index, fold_canaries


def check(tier, seed):
    d = Decision("C09", tier, seed)
    specs = specs_evals(tier) + specs_wiring(tier) + specs_product(tier) + specs_index(tier)
    d.add_units(fold_canaries(run_units(specs)))
    d.assumptions += [
        "specification = equations read from pymablock/algorithms.py by an independent reader (leanalg/extract.py) that shares no code with the repository's compiler",
        "scope functions (diag, offdiag, solve_sylvester) are opaque functions of (value, index); linear-operator wrapping denotes the same value (A-SC: scipy aslinearoperator)",
        "P-ONE sentinel discipline (see C18)",
        "well-foundedness of the shipped recurrences (termination) is not proved here; detection of direct self-reference is (C19)",
    ]
    d.not_decided += [
        "quantifier 'all generated well-founded programs in the documented grammar': only the two shipped algorithms are validated deductively "
        "(all flag combinations, all index classes, symbolic block count / orders / parameter count); a generated-program family is not claimed",
    ]
    d.explanation = ("Translation validation of the output of the repository's own compiler on every run: each generated series_eval AST is "
                     "executed symbolically for every index class and flag valuation and its denotation is compared (free *-algebra normal form) "
                     "with the independently extracted equation; deletions are proved to touch only non-start, non-blacklisted, not-in-flight "
                     "entries; series_computation's wiring (start data, evaluators, products and their flags, linear-operator twins, scope) is "
                     "proved for concrete block/parameter counts; the Cauchy product and cache units it relies on are re-run here.")
    return d.finish(level="proof", trusted_base=["contracts/algorithm_evals.py", "leanalg/extract.py", "contracts/series_product.py", "contracts/series_index.py"])
