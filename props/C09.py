"""C09 - compiling a series mini-language algorithm preserves its meaning."""
from .common import Decision, run_units
from .series_props import specs_evals, specs_corpus, specs_generated, generated_family, specs_wiring, specs_product, specs_index, fold_canaries


def check(tier, seed):
    d = Decision("C09", tier, seed)
    specs = specs_evals(tier) + specs_corpus(tier) + specs_generated(tier, seed) + specs_wiring(tier) + specs_product(tier) + specs_index(tier)
    d.add_units(fold_canaries(run_units(specs)))
    d.assumptions += [
        "specification = equations read from pymablock/algorithms.py by an independent reader (leanalg/extract.py) that shares no code with the repository's compiler",
        "scope functions (diag, offdiag, solve_sylvester) are opaque functions of (value, index); linear-operator wrapping denotes the same value (A-SC: scipy aslinearoperator)",
        "P-ONE sentinel discipline (see C18)",
        "well-foundedness of the shipped recurrences (termination) is not proved here; detection of direct self-reference is (C19)",
    ]
    d.not_decided += [
        "quantifier 'all generated well-founded programs in the documented grammar': the two shipped algorithms and the twenty programs of the corpus "
        "contracts/dsl_corpus.py (every grammar production in every documented context) are validated deductively, each for all flag combinations, all "
        "index classes, symbolic block count / orders / parameter count; so is a family of programs drawn by a random generator of well-founded programs (contracts/dsl_gen.py; 6 programs with a fixed seed in the quick tier, "
        "30 from VERIF_SEED in the thorough tier); a proof for EVERY program would be a proof about the compiler itself (a set of Python AST transformers), which is outside this technique's reach",
    ]
    d.explanation = ("Translation validation of the output of the repository's own compiler on every run: each generated series_eval AST is "
                     "executed symbolically for every index class and flag valuation and its denotation is compared (free *-algebra normal form) "
                     "with the independently extracted equation; deletions are proved to touch only non-start, non-blacklisted, not-in-flight "
                     "entries; series_computation's wiring (start data, evaluators, products and their flags, linear-operator twins, scope) is "
                     "proved for concrete block/parameter counts; the Cauchy product and cache units it relies on are re-run here.  The same translation validation runs on a "
                     "corpus of twenty further programs (contracts/dsl_corpus.py: adjoints of series and products in unconditional / diagonal / offdiagonal / lower "
                     "context, scope functions of series and expressions, (anti)hermitian markers at any position, all start kinds, divisions, flags, terms "
                     "deleted after a single use), against the documented meaning read by the independent reader.")
    d.run_battery("dsl_battery.py", ["all"], "the twenty corpus programs compiled and run natively by series_computation against a direct interpreter of the extracted definitions: "
                  "2-3 blocks of sizes 1-3, 1-2 parameters, total order <= 3, four request schedules (ascending; descending, off-diagonal first; shuffled with repeats; "
                  "intermediates and declared products before outputs), offdiag given / None, both values of the flags")
    gs, count = generated_family(tier, seed)
    d.run_battery("dsl_battery.py", [f"gen:{gs}:{count}"], f"{count} programs produced by the random generator contracts/dsl_gen.py (seed {gs}): 1-3 series, 0-2 declared products of 2-3 factors, markers at "
                  "any position, 1-3 clauses per series with all conditions, expression depth <= 3 incl. nested scope calls and chained divisions; same layouts and schedules as the corpus")
    return d.finish(level="proof", trusted_base=["contracts/algorithm_evals.py", "contracts/dsl_corpus.py", "leanalg/extract.py", "contracts/series_product.py", "contracts/series_index.py"])
