"""Shared driver: run units in parallel, decide a property, write evidence, report violations."""
from __future__ import annotations

import importlib
import json
import multiprocessing as mp
import os
import sys
import time
import traceback

ROOT = os.path.dirname(os.path.dirname(os.path.abspath(__file__)))
EVID = os.environ.get("VERIF_EVIDENCE_DIR") or os.path.join(ROOT, "evidence")     # overridden only by the seed-evaluation tools (scratch output)
REPLAY = os.path.join(EVID, "replay")

EXTRACTION_DROPS = ("extraction reads the function's AST from /repo's working tree on every run and drops only: "
                    "docstrings, type annotations, decorators and comments; `assert` statements of the source are obligations")

BASE_ASSUMPTIONS = [
    "A-PY: CPython semantics of the accepted subset as encoded in pyvc/core.py (tuples, comparisons incl. lexicographic order, "
    "closures, exceptions, comprehensions); integers are mathematical (Python ints are unbounded)",
    "A-FP: floating-point / complex arithmetic treated as exact field arithmetic; rounding clauses of the properties are not decided",
]


def _run_one(spec):
    modname, fname, kwargs = spec
    t0 = time.time()
    try:
        mod = importlib.import_module(modname)
        out = getattr(mod, fname)(**kwargs)
        if not isinstance(out, (list, tuple)):
            out = [out]
        return [_pack(r) for r in out]
    except Exception as e:  # pragma: no cover
        return [{"name": f"{modname}.{fname}", "engine_error": f"unit crashed: {type(e).__name__}: {e}\n{traceback.format_exc()[-1200:]}",
                 "obligations": [], "functions": [], "paths": 0, "solver_secs": 0.0, "queries": 0, "wall": time.time() - t0,
                 "used_models": [], "covers": [], "canaries": [], "bounded": [], "pruned": {}, "notes": []}]


def _pack(r):
    return {
        "name": r.name, "engine_error": r.engine_error,
        "obligations": [dict(o.as_dict(), smt2=getattr(o, "smt2", None)) for o in r.obligations],
        "functions": r.functions, "paths": r.paths, "solver_secs": r.solver_secs, "queries": r.queries, "wall": r.wall,
        "used_models": sorted(r.used_models), "covers": r.covers, "canaries": r.canaries, "bounded": r.bounded,
        "pruned": getattr(r, "pruned", {}), "notes": r.notes,
    }


def run_units(specs, jobs=None):
    jobs = jobs or min(16, max(1, len(specs)))
    if len(specs) <= 1 or jobs == 1:
        out = [_run_one(s) for s in specs]
    else:
        ctx = mp.get_context("fork")
        with ctx.Pool(jobs) as pool:
            out = pool.map(_run_one, specs, chunksize=1)
    return [r for group in out for r in group]


def load_known_findings():
    p = os.path.join(ROOT, "known_findings.json")
    with open(p) as f:
        return json.load(f)


class Decision:
    def __init__(self, pid, tier, seed):
        self.pid, self.tier, self.seed = pid, tier, seed
        self.t0 = time.time()
        self.units = []
        self.lean = []       # dicts: name, ok, secs, output
        self.bounded = []    # dicts: name, ok, cases, failing
        self.premises = []   # (property id, ok)
        self.assumptions = list(BASE_ASSUMPTIONS)
        self.not_decided = []
        self.explanation = ""
        self.violations = []  # dicts: obligation, detail, replay
        self.known_lines = []
        self.undecided = []
        self.callsite = []

    # -- helpers ---------------------------------------------------------------------
    def add_units(self, results):
        self.units += results

    def run_battery(self, script, sections, bound, timeout=900):
        """Native bounded battery on the tree under check (replay source + labelled bounded stand-in)."""
        import subprocess
        repo = os.environ.get("PYVC_REPO", "/repo")
        cmd = [sys.executable, os.path.join(ROOT, "replay", script), repo, ",".join(sections)]
        t0 = time.time()
        try:
            out = subprocess.run(cmd, capture_output=True, text=True, timeout=timeout, env=dict(os.environ, VERIF_TIER=self.tier))
            data = json.loads(out.stdout.strip().splitlines()[-1])
            fails = data["failures"]
            rec = {"name": f"bounded:{script}[{','.join(sections)}]", "ok": not fails, "cases": data["cases"], "bound": bound,
                   "failing": None, "secs": time.time() - t0}
            if fails:
                rec["failing"] = {"battery": script, "first_failure": fails[0], "n_failures": len(fails),
                                  "replay_cmd": f".venv/bin/python replay/{script} {repo} {fails[0]['section']}"}
        except Exception as e:
            rec = {"name": f"bounded:{script}[{','.join(sections)}]", "ok": True, "cases": 0, "bound": bound, "failing": None,
                   "secs": time.time() - t0, "error": f"battery could not run: {type(e).__name__}: {e}"}
            self.undecided.append({"unit": rec["name"], "reason": rec["error"]})
        self.bounded.append(rec)
        return rec

    def add_lean(self, names, note=None):
        """Top-level Lean theorems as named obligations (leanalg/runlean.py; cached by input hash)."""
        from leanalg import runlean
        res = runlean.run()
        self.lean_meta = {"hash": res.get("hash"), "cached": res.get("cached"), "secs": res.get("secs"), "error": res.get("error")}
        if res.get("error"):
            self.undecided.append({"unit": "lean", "reason": res["error"]})
            return res
        for n in names:
            t = res["theorems"].get(n)
            if t is None:
                self.lean.append({"name": f"lean:{n}", "ok": False, "failed_proof": True, "secs": 0, "output": "theorem not part of the audited list"})
                continue
            self.lean.append({"name": f"lean:{n}", "ok": t["ok"], "failed_proof": not t["ok"], "secs": (res.get("secs") or 0) / max(1, len(names)),
                              "output": t["detail"]})
        return res

    def add_callsite_witness(self, name, script, section, detail):
        """A call-site obligation that is decided by a native witness (used for premises known to be false on
        the unchanged tree: the witness is replayed on every run and reported through known_findings)."""
        import subprocess
        repo = os.environ.get("PYVC_REPO", "/repo")
        out = subprocess.run([sys.executable, os.path.join(ROOT, "replay", script), repo, section], capture_output=True, text=True, timeout=900)
        try:
            data = json.loads(out.stdout.strip().splitlines()[-1])
        except Exception:
            self.undecided.append({"unit": name, "reason": "witness battery did not run: " + (out.stderr or out.stdout)[-300:]})
            return
        ok = not data["failures"]
        self.callsite.append({"name": name, "ok": ok, "detail": detail, "failing": None if ok else
                              {"battery": script, "first_failure": data["failures"][0], "replay_cmd": f".venv/bin/python replay/{script} {repo} {section}"}})

    def totals(self):
        obl = sum(len(u["obligations"]) for u in self.units) + len(self.lean)
        dis = sum(1 for u in self.units for o in u["obligations"] if o["status"] == "proved") + sum(1 for l in self.lean if l["ok"])
        return obl, dis

    def finish(self, level="proof", checker_cmd="", trusted_base=(), extra=None, replay_hook=None):
        known = load_known_findings().get("known", [])
        failed = []
        for u in self.units:
            if u["engine_error"]:
                self.undecided.append({"unit": u["name"], "reason": u["engine_error"]})
            for o in u["obligations"]:
                if o["status"] != "proved":
                    failed.append((u, o))
            for name, ok in u["canaries"]:
                if not ok:
                    self.undecided.append({"unit": u["name"], "reason": f"canary not refuted (engine may be unsound here): {name}"})
            for name, ok in u["covers"]:
                if not ok:
                    self.undecided.append({"unit": u["name"], "reason": f"precondition cover unsatisfiable (vacuous contract): {name}"})
        for l in self.lean:
            if not l["ok"]:
                failed.append(({"name": "lean"}, {"name": l["name"], "status": "refuted" if l.get("failed_proof") else "unknown",
                                                  "detail": l.get("output", "")[-3000:], "model": None, "kind": "lean", "path": None, "solver": "lean", "secs": l.get("secs", 0)}))
        for c in self.callsite:
            if not c["ok"]:
                failed.append(({"name": "callsite"}, {"name": c["name"], "status": "refuted", "detail": c["detail"], "model": None, "kind": "callsite",
                                                      "path": None, "solver": "native-witness", "secs": 0, "native": c["failing"]}))
        for b in self.bounded:
            if not b["ok"]:
                ff = (b.get("failing") or {}).get("first_failure", {})
                failed.append(({"name": "bounded"}, {"name": f"{b['name']}:{ff.get('section', '')}:{ff.get('what', '')}", "status": "refuted", "detail": json.dumps(b.get("failing"))[:3000],
                                                     "model": None, "kind": "bounded", "path": None, "solver": "native", "secs": 0, "native": b.get("failing")}))
        # group failures by obligation name
        groups = {}
        for u, o in failed:
            groups.setdefault(_kind_of(o["name"]), []).append((u, o))
        os.makedirs(REPLAY, exist_ok=True)
        exit_code = 0
        for name, items in sorted(groups.items()):
            statuses = {o["status"] for _, o in items}
            u, o = items[0]
            match = _match_known(known, self.pid, name)
            if match is not None:
                line = f"KNOWN-FINDING: property={self.pid} {match['what']}"
                if line not in self.known_lines:
                    self.known_lines.append(line)
                continue
            if statuses == {"unknown"}:
                self.undecided.append({"unit": u["name"], "reason": f"obligation {name} not decided by any solver: {o['detail'][:300]}"})
                continue
            native = o.get("native")
            if native is None:
                native = next((b["failing"] for b in self.bounded if b.get("failing")), None)
            if native is None and replay_hook is not None:
                try:
                    native = replay_hook(name, o)
                except Exception as e:  # pragma: no cover
                    native = {"replay_error": f"{type(e).__name__}: {e}"}
                    native = None
            rp = os.path.join(REPLAY, f"{self.pid}-{_slug(name)}.json")
            with open(rp, "w") as f:
                json.dump({"property": self.pid, "failed_obligation": name, "instances": len(items),
                           "verifier_output": [dict(status=o2["status"], detail=o2["detail"], model=o2["model"], path=o2["path"], solver=o2["solver"]) for _, o2 in items[:5]],
                           "failing_input": native}, f, indent=1, default=str)
            suffix = "" if native else " no-failing-input-found"
            print(f"VIOLATION property={self.pid} replay={rp} obligation={name}{suffix}" if False else f"VIOLATION property={self.pid} replay={rp}{suffix}")
            print(f"  failed obligation: {name} ({len(items)} instance(s)); {o['detail'][:400]}")
            self.violations.append({"obligation": name, "replay": rp, "failing_input_found": bool(native)})
            exit_code = 1
        for line in self.known_lines:
            print(line)
        if exit_code == 0 and self.undecided:
            exit_code = 2
            for ud in self.undecided[:20]:
                print(f"UNDECIDED property={self.pid} unit={ud['unit']} reason={ud['reason'][:500]}")
        obl, dis = self.totals()
        if exit_code == 0 and obl == 0:
            print(f"UNDECIDED property={self.pid} reason=zero obligations generated (vacuity guard)")
            exit_code = 2
        self.write_evidence(level, checker_cmd, list(trusted_base), extra or {}, obl, dis)
        print(f"{self.pid} {self.tier}: obligations={obl} discharged={dis} units={len(self.units)} lean={len(self.lean)} "
              f"bounded={len(self.bounded)} violations={len(self.violations)} known={len(self.known_lines)} undecided={len(self.undecided)} "
              f"wall={time.time() - self.t0:.1f}s -> exit {exit_code}")
        return exit_code

    def write_evidence(self, level, checker_cmd, trusted_base, extra, obl, dis):
        os.makedirs(EVID, exist_ok=True)
        samples = []
        seen = set()
        for u in self.units:
            for o in u["obligations"]:
                if o["name"] not in seen and len(samples) < 12:
                    seen.add(o["name"])
                    samples.append({"obligation": o["name"], "status": o["status"], "solver": o["solver"], "detail": o["detail"][:240]})
        for l in self.lean[:6]:
            samples.append({"obligation": l["name"], "status": "proved" if l["ok"] else "failed", "solver": "lean4+mathlib"})
        names = {o["name"] for u in self.units for o in u["obligations"]} | {l["name"] for l in self.lean}
        models = sorted({m for u in self.units for m in u["used_models"]})
        by_solver = {}
        for u in self.units:
            for o in u["obligations"]:
                by_solver[o["solver"]] = by_solver.get(o["solver"], 0) + 1
        if self.lean:
            by_solver["lean4+mathlib"] = len(self.lean)
        cov = {
            "obligations": obl, "discharged": dis,
            "distinct_obligation_names": len(names),
            "checker_cmd": checker_cmd or f"./check {self.pid} {self.tier}",
            "trusted_base": trusted_base + ["z3 4.15/5.x (z3-solver wheel)", "pyvc VC generator + free *-algebra normaliser (/verif/pyvc)"] + (["Lean 4.33 kernel + Mathlib"] if self.lean else []),
            "samples": samples,
            "functions_under_contract": _uniq([f for u in self.units for f in u["functions"]]),
            "units": [{"unit": u["name"], "paths": u["paths"], "obligations": len(u["obligations"]),
                       "discharged": sum(1 for o in u["obligations"] if o["status"] == "proved"),
                       "solver_secs": round(u["solver_secs"], 3), "queries": u["queries"], "wall_s": round(u["wall"], 2),
                       "engine_error": u["engine_error"], "canaries": u["canaries"], "covers": u["covers"],
                       "paths_excluded_by_documented_precondition": u["pruned"], "bounded_in": u["bounded"]} for u in self.units],
            "obligations_by_back_end": by_solver,
            "solver_secs_total": round(sum(u["solver_secs"] for u in self.units) + sum(l.get("secs", 0) for l in self.lean), 2),
            "lean_theorems": [{"name": l["name"], "ok": l["ok"], "secs": round(l.get("secs", 0), 1)} for l in self.lean],
            "bounded_stand_ins": [{"name": b["name"], "ok": b["ok"], "cases": b.get("cases"), "bound": b.get("bound"), "note": "bounded: never counted as proved"} for b in self.bounded],
            "premises_from_other_properties": self.premises,
            "call_site_obligations_decided_by_native_witness": [{"name": c["name"], "holds_on_witness": c["ok"], "detail": c["detail"]} for c in self.callsite],
            "assumed_contracts_used": models,
            "clauses_not_decided": self.not_decided,
            "extraction": EXTRACTION_DROPS,
            "explanation": self.explanation,
            "undecided": self.undecided[:20],
            "known_findings_reported": self.known_lines,
            "evaluations": obl, "distinct_nontrivial": len(names),
            "rule": "one obligation per (function under contract, path, assertion); distinct = distinct obligation names; every one is a solver query or a normal-form identity, none is a constant",
        }
        cov.update(extra)
        ev = {
            "property_id": self.pid, "tier": self.tier, "seed": self.seed, "level": level,
            "coverage": cov, "assumptions": self.assumptions + models, "wall_s": round(time.time() - self.t0, 2),
            "violations": len(self.violations),
        }
        with open(os.path.join(EVID, f"{self.pid}.json"), "w") as f:
            json.dump(ev, f, indent=1, default=str)


def _kind_of(name):
    """Obligation name without the instantiation brackets of its unit and without call-site line numbers."""
    import re
    name = re.sub(r"@L\d+", "", re.sub(r"\[[^\]]*\]", "", name))
    return re.sub(r"(cache|orbit):[HCT]{1,3}([:-])", r"\1:*\2", name)


def _uniq(xs):
    out, seen = [], set()
    for x in xs:
        k = json.dumps(x, sort_keys=True)
        if k not in seen:
            seen.add(k)
            out.append(x)
    return out


def _slug(s):
    return "".join(c if c.isalnum() or c in "-_." else "_" for c in s)[:120]


def _match_known(known, pid, obligation_name):
    for k in known:
        if k.get("property") == pid and any(pat in obligation_name for pat in k.get("obligations", [])):
            return k
    return None
