"""C02 - Hermitian: U unitary at every order, U^dagger its adjoint, H_tilde Hermitian."""
from .common import Decision, run_units
from .series_props import fold_canaries, specs_nof
from .secondq_props import specs_secondq
from .hermitian_common import specs_hermitian, LEAN_SETTING_NOTE, LEAN_VACUITY

LEAN = ["PV.pairing", "PV.unit_left", "PV.unit_right", "PV.C02_unit_left", "PV.C02_unit_right", "PV.C02_adjoint", "PV.C02_Htilde_star",
        "PV.TB.toMain", "PV.TB.C02_unit_left", "PV.TB.C02_unit_right", "PV.TB.C02_adjoint", "PV.TB.C02_Htilde_star", "PV.TB.pairing"]


def check(tier, seed):
    d = Decision("C02", tier, seed)
    # operator-valued (second-quantized) Hermitian input is also 'accepted by block_diagonalize': the operator algebra and its solver are under the C07 / C08 contracts
    d.add_units(fold_canaries(run_units(specs_hermitian(tier) + specs_nof(tier) + specs_secondq(tier))))
    d.add_lean(LEAN + LEAN_VACUITY)
    d.assumptions += [LEAN_SETTING_NOTE, "input precondition: H is Hermitian and masks are symmetric",
                      "bridge C18 -> Lean for the product declared hermitian: if U'^dagger - star U' vanishes below order n then the "
                      "hermitian-flagged product equals the plain product below order n+1 (both factors start at order 1)"]
    d.not_decided += ["rounding clause for floating-point inputs (A-FP)"]
    d.explanation = ("T-adj (pairing U'^dagger = star U' by contraction on the pairing defect), T-unit (U^dagger U = U U^dagger = 1), the adjoint "
                     "relation between the second and third outputs and Hermiticity of H_tilde are machine-checked in Lean from the extracted equations.")
    d.run_battery("nof_battery.py", ["secondq"], "operator-valued input: 6 second-quantized models + 2 operator masks against numpy block_diagonalize on truncated Fock spaces; "
                  "U^dagger U = 1 and U^dagger H U = H_tilde within the operator algebra (see C07)", timeout=3000)
    d.run_battery("bd_battery.py", ['herm'], "<= 3 blocks of size <= 3, <= 2 parameters, total order <= 3, dense/sparse, fixed mask family; see replay/bd_battery.py")
    return d.finish(level="proof", trusted_base=["leanalg/lean/PV/*.lean", "leanalg/genlean.py", "leanalg/extract.py", "contracts/*.py"])
