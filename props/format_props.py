"""Units for the input-format contracts (C13, C14, C06)."""
FM = "contracts.formats"


def specs_keys(tier):
    t = 60000 if tier == "thorough" else 20000
    s = [(FM, "unit_list_to_dict", {"nparam": n, "timeout_ms": t}) for n in ((0, 1, 2, 3, 4, 6) if tier == "thorough" else (0, 1, 3))]
    s += [(FM, "unit_taylor", {"ninf": n, "timeout_ms": t}) for n in ((1, 2, 3, 4) if tier == "thorough" else (1, 2, 3))]
    s += [(FM, "unit_taylor", {"ninf": 2, "timeout_ms": t, "check_hermitian": True}), (FM, "unit_taylor", {"ninf": 2, "timeout_ms": t, "canary": True})]
    s += [(FM, "unit_symbolic_keys", {"nsym": a, "nkeys": b, "timeout_ms": t}) for a, b in (((1, 1), (2, 2), (3, 2), (2, 3)) if tier == "thorough" else ((1, 1), (2, 2), (3, 2)))]
    s += [(FM, "unit_symbolic_keys", {"nsym": 2, "nkeys": 2, "timeout_ms": t, "noncommutative": True})]
    s += [(FM, "unit_symbolic_keys", {"nsym": a, "nkeys": b, "timeout_ms": t, "given": True}) for a, b in ((2, 2), (3, 2))]
    s += [(FM, "unit_dict_to_blockseries", {"h0_kind": k, "symbolic_keys": sk, "timeout_ms": t}) for k, sk in (("ndarray", False), ("sparse", False), ("sympy", True), ("ndarray", True))]
    s += [(FM, "unit_dict_keys_validated", {"bad": b, "timeout_ms": t}) for b in ("ragged", "negative", "non-tuple")]
    s += [(FM, "unit_to_scalar_dispatch", {"timeout_ms": t})]
    s += [(FM, "unit_sympy_prologue", {"given": g, "timeout_ms": t}) for g in ("user-order", "none", "foreign")]
    return s


def specs_projection(tier, implicit_only=False):
    t = 60000 if tier == "thorough" else 20000
    cfg = [(2, True, True), (3, False, True), (3, True, True), (2, False, True)]
    if not implicit_only:
        cfg += [(2, True, False), (3, False, False), (1, True, False)]
        if tier == "thorough":
            cfg += [(4, True, False), (4, False, True)]
    s = [(FM, "unit_operator_op_eval", {"nblocks": nb, "hermitian": h, "implicit": im, "timeout_ms": t}) for nb, h, im in cfg]
    s.append((FM, "unit_operator_op_eval", {"nblocks": 2, "hermitian": True, "implicit": False, "timeout_ms": t, "canary": True}))
    # the callee of every projection: which blocks become the zero sentinel (tolerance = the caller's atol, nothing else)
    s += [("contracts.bd_guards", "unit_convert_if_zero", {"kind": k, "timeout_ms": t}) for k in ("dense", "sparse", "sympy", "scalar")]
    return s


def specs_blocks(tier):
    t = 60000 if tier == "thorough" else 20000
    s = [(FM, "unit_unpack_blocks", {"nb": n, "timeout_ms": t}) for n in ((1, 2, 3, 4) if tier == "thorough" else (2, 3))]
    s += [(FM, "unit_subspaces_from_indices", {"nb": n, "symbolic": sy, "timeout_ms": t}) for n, sy in ((1, False), (2, False), (3, True))]
    s += [(FM, "unit_extract_diagonal", {"nb": n, "implicit": im, "timeout_ms": t}) for n, im in ((1, False), (2, False), (3, True))]
    return s


def specs_linalg_misc(tier):
    """linalg.is_diagonal (which H_0 blocks count as diagonal: C20 guard, C14 storage format) and linalg.aslinearoperator (sentinel passthrough)"""
    t = 60000 if tier == "thorough" else 20000
    s = [("contracts.linalg_misc", "unit_is_diagonal", {"kind": k, "timeout_ms": t}) for k in ("zero", "masked", "sympy", "dense", "sparse", "other")]
    s.append(("contracts.linalg_misc", "unit_aslinearoperator", {"timeout_ms": t}))
    return s


def specs_head(tier):
    """the head of block_diagonalize (entry -> operator_to_BlockSeries): wiring of converters, eigenvector normalisation / check and implicit-mode solvers"""
    t = 60000 if tier == "thorough" else 20000
    cfgs = [dict(), dict(vectors="full"), dict(vectors="full", hermitian=False), dict(vectors="partial"), dict(vectors="partial", direct=False, options="foreign"),
            dict(vectors="pairs-partial", hermitian=False, options="tolerance"), dict(vectors="pairs-full", hermitian=False), dict(vectors="pairs-full", hermitian=True),
            dict(vectors="partial", solver="custom"), dict(solver="custom", fully=True), dict(vectors="partial", h0_kind="sympy"), dict(vectors="partial", h_shape="blocks"),
            dict(vectors="partial", vec_kind="sparse"), dict(vectors="pairs-partial", hermitian=False, direct=False), dict(vectors="partial", hermitian=False, direct=False)]
    if tier == "thorough":
        cfgs += [dict(vectors="partial", h0_kind="sparse", options="tolerance"), dict(vectors="pairs-partial", hermitian=False, solver="custom"), dict(vectors="full", h0_kind="sympy"),
                 dict(vectors="partial", options="foreign"), dict(vectors="full", fully=True), dict(vectors="partial", direct=False, vec_kind="sparse")]
    return [("contracts.bd_head", "unit_bd_head", dict(c, timeout_ms=t)) for c in cfgs] + [("contracts.bd_head", "unit_bd_tail", {"second_quantized": q, "hermitian": h, "timeout_ms": t}) for q in (False, True) for h in (True, False)] + [
        ("contracts.bd_head", "unit_bd_middle", dict(c, timeout_ms=t)) for c in (
            dict(), dict(kind="scalar-operators"), dict(kind="matrix-operators"), dict(solver="custom"), dict(solver="custom", legacy=True), dict(solver="custom", legacy=True, hermitian=False), dict(solver="custom", legacy="varargs"), dict(solver="custom", legacy="varargs", hermitian=False),
            dict(implicit=True), dict(implicit=True, fully_last=True), dict(implicit=True, solver="custom"), dict(kind="matrix-operators", solver="custom"), dict(kind="scalar-operators", implicit=True))]
