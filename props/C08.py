"""C08 - NumberOrderedForm arithmetic faithfully represents the operator algebra."""
from .common import Decision, run_units
from .series_props import specs_nof, fold_canaries


def check(tier, seed):
    d = Decision("C08", tier, seed)
    d.add_units(fold_canaries(run_units(specs_nof(tier))))
    d.assumptions += [
        "A-SY1: sympy xreplace / Mul / Add / unary minus on coefficient expressions are substitution and point-wise arithmetic; "
        "`x is One` for sympified integers is equality; `coeff == 0` holds only for identically vanishing coefficients",
        "coefficients are real-valued functions of the occupations in the model (complex conjugation of coefficients is not exercised deductively)",
        "canonical-form representation invariant (coefficient independent of a binary mode's number when that mode's power is non-zero): "
        "precondition of _multiply_op, proved preserved by it and established by _cancel_binary_operator_numbers; the public constructor does not enforce it",
        "ghost falling factorial ff with the law ff(n,a+b) = ff(n,a) ff(n-a,b), ff(n,0) = 1, ff(n,1) = n (instances generated per obligation)",
    ]
    d.not_decided += [
        "__sub__ (= add of neg)/from_expr/as_expr are not under deductive contract: "
        "they are exercised by the bounded battery (matrix representation) only",
        "Function arguments, non-integer powers, _poly_simplify / simplify (A-SY2), printing",
        "associativity / distributivity / adjoint-reverses-products are consequences of faithfulness of _multiply_op, _multiply_expr and __mul__ "
        "(the operator algebra has these laws); they are additionally checked by the bounded battery",
    ]
    d.explanation = ("The real bodies of _multiply_op, _multiply_expr, _linearize_binary_operators, _cancel_binary_operator_numbers are executed symbolically "
                     "for an arbitrary term (symbolic powers, symbolic occupation state, uninterpreted coefficient function) and proved to act on occupation "
                     "states exactly as the operator product they stand for, including Jordan-Wigner signs; __mul__ is proved to apply the factors of each "
                     "term of the right operand in the order in which the term denotes them (creators ascending, number part, annihilators descending), "
                     "using the callee contracts.  _eval_adjoint is proved to be the adjoint with respect to the Fock inner product (matrix elements between every pair of physical "
                     "occupation states, norms of the unnormalised boson basis and Jordan-Wigner signs included); __neg__ negates every amplitude; __add__ adds each term's coefficient "
                     "to the entry of its own powers (so the result denotes the sum, by linearity of a term in its coefficient).  Number of modes is concrete per unit (bounded), "
                     "everything else symbolic.  _expand_operators keeps every coefficient and puts each old power at the position of its operator in the new list (0 for new operators); _combine_operators expands both operands to "
                     "one list, the canonically sorted union (or returns them unchanged for equal lists).  __pow__ with a non-negative integer exponent: exponent 0 constructs the identity form, a positive exponent returns the exp-fold "
                     "product of self with itself (loop rule with invariant result = self^(j+1), any exponent), the product being the contract of __mul__.")
    d.add_callsite_witness("callsite:as_expr/coefficient-functions-keep-their-position", "nof_battery.py", "asexpr_finding",
                           "conversion back (as_expr) is exercised by the bounded battery only; for coefficient functions that sympy regards as commutative (Abs ...) sympy reorders the product; "
                           "the witness is replayed on every run")
    d.run_battery("nof_battery.py", ["algebra", "convert"], "<= 4 modes of mixed statistics, powers <= 2, Fock cutoff 6-9, 72 random triples + 80 single-term forms (powers 0-3, Fock cutoff up to 14) + 14 expressions, fixed seeds")
    return d.finish(level="proof", trusted_base=["contracts/nof.py", "concretiser/fock.py (battery oracle only)"])
