"""C06 - implicit (incomplete eigenvectors) mode equals the explicit computation."""
from .common import Decision, run_units
from .series_props import specs_evals, specs_wiring, fold_canaries
from .format_props import specs_projection, specs_linalg_misc, specs_head
from .relational_common import NAT_LEAN, NAT_LEAN_NH, NAT_NOTE, INSTANCE_NOTE

LP = "contracts.linalg_projector"


def check(tier, seed):
    d = Decision("C06", tier, seed)
    t = 60000 if tier == "thorough" else 10000
    specs = (specs_projection(tier, implicit_only=True) + [(LP, "unit_projector", {"variant": v, "timeout_ms": t}) for v in ("left-none", "left-same", "left-other")]
             + specs_evals(tier) + specs_wiring(tier) + specs_linalg_misc(tier) + specs_head(tier))
    try:
        from .implicit_props import specs_direct
        specs += specs_direct(tier)
    except ImportError:
        pass
    d.add_units(fold_canaries(run_units(specs)))
    d.add_lean(NAT_LEAN + NAT_LEAN_NH + ["PV.Direct.greens_solves", "PV.Direct.constrained_injective", "PV.Direct.matrix_greens_solves", "PV.Direct.matrix_constrained_injective"])
    d.assumptions += [NAT_NOTE,
                      INSTANCE_NOTE + "the embedding of the explicit computation into the ambient space (last block compressed by Q = 1 - R_E L_E^dagger) is a homomorphism "
                      "that commutes with products, adjoints and the block structure; it commutes with the Sylvester solver iff the implicit solver meets its contract",
                      "A-SC: scipy aslinearoperator / _ProductLinearOperator / _SumLinearOperator / _AdjointLinearOperator honour the LinearOperator protocol; sparse LU "
                      "factorisation solves exactly (rounding not modelled)"]
    d.not_decided += ["KPM clause (tolerance proportional to the requested accuracy): the loop-exit postcondition of kpm.greens_function is proved for any number of iterations "
                      "(on return without a RuntimeWarning the residual of the returned vector is <= atol); that the Chebyshev expansion converges, and how the residual tolerance "
                      "propagates to H_tilde, is not decided (bounded battery of C16 / C04 only)",
                      "dtype mixtures (numpy promotion rules)",
                      "the pivoted-QR fact behind _kernel_pivot_rows (external; bounded battery of C16); _group_close_energies is under contract (contracts/grouping.py); direct_greens_function / _constrain_matrix are under contract "
                      "(contracts/linalg_direct.py + PV.Direct.greens_solves: the returned vector solves (E - h) x = P v in the range of P, rows replaced taken from the LEFT kernel basis); "
                      "solve_sylvester_direct is under a "
                      "structural contract: every level is solved with the Green's function built for a member of its own degeneracy group and that group's kernel columns, row k of "
                      "Y P by the k-th function of the row block, result projected again; left-implicit branch column-wise with a minus sign"]
    d.explanation = ("The projected Hamiltonian of implicit mode is under contract (blocks L_i^dagger A R_j, L_i^dagger A Q, Q A R_j, Q A Q with Q the complement projector of "
                     "C17, only the last diagonal block wrapped as a linear operator); ComplementProjector denotes 1 - R L^dagger under every operation (C17 units re-run "
                     "here); the generated evaluators compute the same equations whether or not a block is kept as a linear operator (translation validation for both "
                     "values of use_linear_operator); the equivalence of the two computations is then an instance of the machine-checked naturality theorem.")
    d.add_callsite_witness("callsite:implicit/solver-tolerance-consistent-with-the-masks", "bd_battery.py", "tol_finding",
                           "precondition under which the explicit part of the implicit solvers agrees with the masks: its degeneracy tolerance (solver option eigenvalue_atol of the direct solver) "
                           "does not exceed the spacing of explicit levels that the masks (tolerance atol) separate; the library does not check it; the witness is replayed on every run")
    d.run_battery("rel_battery.py", ["implicit"], "7 problems of size 8-9: real / complex, Hermitian / non-Hermitian with biorthogonal bases, 1-2 explicit blocks, degenerate explicit "
                  "levels, explicit eigenvectors supplied out of energy order and interleaved; direct solver; all blocks of H_tilde, U, U_inv to order 3")
    d.run_battery("bd_battery.py", ["solvers"], "direct and KPM solver residuals (C16 battery)")
    return d.finish(level="proof", trusted_base=["contracts/formats.py", "contracts/linalg_projector.py", "pyvc/matnf.py", "leanalg/lean/PV/*.lean"])
