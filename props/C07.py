"""C07 - second-quantized block diagonalization agrees with matrices on Fock states."""
from .common import Decision, run_units
from .series_props import specs_nof, specs_evals, specs_wiring, fold_canaries
from .relational_common import NAT_LEAN, NAT_NOTE, INSTANCE_NOTE


def check(tier, seed):
    d = Decision("C07", tier, seed)
    specs = specs_nof(tier) + specs_evals(tier, algs=("main",)) + specs_wiring(tier, algs=("main",))
    try:
        from .secondq_props import specs_secondq
        specs += specs_secondq(tier)
    except ImportError:
        pass
    d.add_units(fold_canaries(run_units(specs)))
    d.add_lean(NAT_LEAN + ["PV.C02_unit_left", "PV.C02_unit_right", "PV.C01_similarity"])
    d.add_callsite_witness("callsite:second-quantization/coefficients-have-no-pole-on-shifted-occupations", "nof_battery.py", "sq_finding",
                           "precondition of the multiplication contracts (A-SY1: coefficient arithmetic is point-wise on every occupation that is reached): the coefficient "
                           "functions returned by solve_scalar have no pole on the occupations to which normal ordering shifts them.  It fails when a physical level of H_0 coincides with "
                           "an unphysical one (E(n) = E(n - k) with n < k); the witness H_0 = N + N^2 is replayed on every run")
    d.assumptions += [NAT_NOTE,
                      INSTANCE_NOTE + "the Fock representation (operator -> matrix on a truncated Fock space, restricted to states at distance > order x degree from the edge) is "
                      "multiplicative and adjoint-preserving on those states because order-n terms move occupations by at most n x degree (locality lemma, not mechanised)",
                      "A-SY1/A-SY2: sympy xreplace / simplify / collect_const / doit are value-preserving on coefficient expressions"]
    d.not_decided += ["NumberOrderedForm from_expr / as_expr, _combine_operators / _expand_operators, __pow__, _poly_simplify: bounded battery (C08) only",
                      "solve_scalar with diagonal=True returns R - R^dagger: that this solves the positive-shift terms is the identity [H, -R^dagger] = [H, R]^dagger for Hermitian Y (paper argument) on top of the adjoint contract",
                      "detection of the operators and of `scalar_input` in block_diagonalize (find_operators, type tests): bounded battery only; the wrappers H_eval / postprocessing_eval are under contract"]
    d.explanation = ("U^dagger U = 1 and U^dagger H U = H_tilde *within the operator algebra* are the C01/C02 theorems instantiated at the algebra of number-ordered forms, "
                     "whose multiplication is proved faithful on Fock states (C08 units re-run here).  Agreement with block-diagonalized truncated matrices is an instance of "
                     "naturality (the Fock representation preserves the kept / eliminated split: number-conserving terms are diagonal in the Fock basis) together with the "
                     "solver contracts of second_quantization.py: solve_scalar is proved, for an arbitrary term (symbolic powers, uninterpreted coefficient and energy functions of the occupations, "
                     "concrete mode layout), to satisfy H_ii V - V H_jj = Y on every occupation state whenever the two coupled levels differ in energy; solve_sylvester_2nd_quant fills "
                     "each entry from the scalar problem of its row and column energies (upper triangle of a diagonal block by minus the adjoint); apply_mask_to_operator / filter_terms "
                     "with keep=True and keep=False are complementary projections on terms.")
    d.run_battery("nof_battery.py", ["secondq"], "6 models (anharmonic boson, two bosons with squeezing, Jaynes-Cummings with counter-rotating terms, three fermions with pairing, "
                  "spin + two fermions + boson, matrix-valued two-block) + 2 operator-valued masks incl. a symbolic power; orders <= 2 (quick) / 3 (thorough); Fock cutoff 7-14; "
                  "interior states only", timeout=3000)
    return d.finish(level="proof", trusted_base=["contracts/nof.py", "concretiser/fock.py (battery oracle only)", "leanalg/lean/PV/*.lean"])
