"""Units for second_quantization.py (C07, C16)."""
SQ = "contracts.secondq"


def specs_secondq(tier):
    t = 120000 if tier == "thorough" else 60000
    lay = [["boson"], ["fermion"], ["spin"], ["ladder"], ["boson", "fermion"], ["spin", "fermion"], ["fermion", "fermion"], ["boson", "ladder", "spin", "fermion"]]
    if tier == "thorough":
        lay += [["boson", "boson"], ["fermion", "fermion", "fermion"], ["boson", "spin", "fermion", "fermion"]]
    s = [(SQ, "unit_solve_scalar", {"layout": l, "diagonal": False, "timeout_ms": t}) for l in lay]
    s += [(SQ, "unit_solve_scalar", {"layout": l, "diagonal": True, "timeout_ms": t}) for l in (["boson"], ["fermion", "fermion"], ["boson", "fermion"])]
    s += [(SQ, "unit_solve_scalar", {"layout": ["boson"], "diagonal": False, "timeout_ms": t, "canary": True})]
    s += [(SQ, "unit_solve_sylvester_2nd_quant", {"rows": r, "cols": c, "same_block": sb, "timeout_ms": t}) for r, c, sb in ((1, 1, True), (2, 2, True), (3, 3, True), (2, 3, False), (1, 2, False))]
    # an identically zero block of H_0 (energies filled in at the first use, sized by the right-hand side): row block / column block, more rows than columns and the reverse
    s += [(SQ, "unit_solve_sylvester_2nd_quant", {"rows": r, "cols": c, "same_block": False, "zero_block": zb, "timeout_ms": t}) for r, c, zb in ((1, 2, "col"), (3, 1, "row"), (2, 3, "row"), (3, 2, "col"))]
    s += [(SQ, "unit_solve_sylvester_2nd_quant", {"rows": 2, "cols": 2, "same_block": True, "zero_block": "row", "timeout_ms": t})]
    s += [(SQ, "unit_filter_terms", {"nmodes": a, "nconds": b, "timeout_ms": t}) for a, b in (((1, 1), (2, 2), (3, 1)) if tier == "thorough" else ((1, 1), (2, 2)))]
    s += [(SQ, "unit_apply_mask", {"timeout_ms": t})]
    s += [(SQ, "unit_operator_diag_offdiag", {"variant": v, "timeout_ms": t}) for v in ("dict", "list")]
    # entry / exit wrappers of block_diagonalize for operator-valued input (the terms of a matrix-valued Hamiltonian are sympy matrices or numeric arrays, dense or sparse)
    s += [(SQ, "unit_h_eval", {"kind": k, "scalar_input": si, "timeout_ms": t}) for k, si in (("zero", True), ("zero", False), ("scalar", True), ("matrix", True), ("matrix", False),
                                                                                          ("immutable", True), ("immutable", False), ("ndarray", False), ("sparse", False))]
    s += [(SQ, "unit_postprocessing_eval", {"kind": k, "scalar_input": si, "timeout_ms": t}) for k in ("zero", "one", "matrix1x1", "matrix") for si in (True, False)]
    # callee of solve_scalar: _cancel_binary_operator_numbers establishes the canonical-form invariant the solver relies on (layouts with ladder operators between
    # the bosons and the binary modes: the slice of the powers that is paired with the binary operators matters)
    for l in (["fermion"], ["ladder", "fermion"], ["boson", "ladder", "spin", "fermion"]) + ((["ladder", "spin"], ["boson", "ladder", "fermion", "fermion"]) if tier == "thorough" else ()):
        s.append(("contracts.nof", "unit_cancel", {"layout": l, "timeout_ms": t}))
    return s
