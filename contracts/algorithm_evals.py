"""C09 (and the evaluator part of C01-C05, C10, C12): translation validation of the evaluators
that the repository's own compiler (`pymablock.algorithm_parsing._parse_algorithm`) generates
for the shipped algorithms.  The AST objects validated are the ones `series_computation`
compiles and executes.  Specification: the equation read independently from algorithms.py by
leanalg/extract.py, evaluated element-wise:

  val(T,(i,j,n)) =  +-Dagger(val(T,(j,i,n)))                       if T is (anti)hermitian and i > j
                 =  sum over clauses:
                      [None]        E
                      [diagonal]    diag(E, index)            if i == j
                      [offdiagonal] E                         if i != j
                                    offdiag(E, index)         if i == j and an offdiag wrapper is in scope
  with  "S" -> val(S,(i,j,n)),  "S".adj -> Dagger(val(S,(j,i,n))),  e / k -> (1/k) e,
        f(e) -> f(e, index),  `zero if flag else e` by the value of the scope flag.
"""
from __future__ import annotations

import ast
import importlib
import os
import sys
from fractions import Fraction

import z3

from leanalg import extract
from pyvc import frontend
from pyvc.core import (
    Closure, Env, STup, SVec, SI, SB, SExc, Model, Builtin, PyRaise, Unsupported, StarTail, wrap_bool, zi,
)
from pyvc.models import SSeries, SObj, ZERO, ONE, TAG_ZERO, TAG_ONE, TAG_VAL
from pyvc.nf import NF, Atom, ZK, fn_atom
from pyvc.unit import run_unit

_vzero = z3.Function("is_zero_order", z3.ArraySort(z3.IntSort(), z3.IntSort()), z3.IntSort(), z3.BoolSort())
_cb = z3.Function("commuting_blocks", z3.IntSort(), z3.BoolSort())
_uselo = z3.Function("use_linear_operator", z3.IntSort(), z3.IntSort(), z3.BoolSort())


CORPUS = os.path.join(os.path.dirname(os.path.abspath(__file__)), "dsl_corpus.py")


def split_name(alg_name):
    """`main` / `nonhermitian`: shipped algorithm; `corpus:<name>`: a program of contracts/dsl_corpus.py;
    `gen:<seed>:<count>:<k>`: the k-th of `count` programs generated from `seed` by contracts/dsl_gen.py"""
    if alg_name.startswith("corpus:"):
        return alg_name[7:], CORPUS
    if alg_name.startswith("gen:"):
        from contracts import dsl_gen
        _g, seed, count, k = alg_name.split(":")
        return f"gen_{k}", dsl_gen.module_path(int(seed), int(count))
    return alg_name, None


def read_spec(alg_name):
    nm, path = split_name(alg_name)
    return extract.read_algorithm(nm, path=path)


def program_inputs(alg):
    """names that are read but neither defined as a series nor as a product"""
    defined = {s.name for s in alg.series} | {p.name for p in alg.products}
    used = {t for s in alg.series for _c, e in s.clauses for t, _a in extract.terms_of(e)} | {t for p in alg.products for t in p.terms}
    return used - defined


def program_functions(alg):
    out = set()

    def walk(e):
        if e[0] in ("call", "callseries"):
            out.add(e[1])
        for x in e[1:]:
            if isinstance(x, tuple) and x and isinstance(x[0], str):
                walk(x)
    for s in alg.series:
        for _c, e in s.clauses:
            walk(e)
    return out


def parsed_algorithm(alg_name):
    """Run the repository's own compiler (from the tree under check) and return its output."""
    repo = frontend.REPO
    if sys.path[0] != repo:
        sys.path.insert(0, repo)
    for m in [k for k in sys.modules if k == "pymablock" or k.startswith("pymablock.")]:
        f = getattr(sys.modules[m], "__file__", "") or ""
        if not f.startswith(repo):
            del sys.modules[m]
    ap = importlib.import_module("pymablock.algorithm_parsing")
    algs = importlib.import_module("pymablock.algorithms")
    if not ap.__file__.startswith(repo):
        raise Unsupported(f"pymablock imported from {ap.__file__}, not from {repo}")
    nm, path = split_name(alg_name)
    if path is None:
        func = getattr(algs, nm)
    else:
        import importlib.util as _ilu
        spec = _ilu.spec_from_file_location("dsl_corpus_under_check", path)
        mod = _ilu.module_from_spec(spec)
        spec.loader.exec_module(mod)
        func = getattr(mod, nm)
    terms, products, outputs = ap._parse_algorithm(func)
    return terms, products, outputs


class ScopeFn(Model):
    """A scope function (diag / offdiag / solve_sylvester): opaque, applied as f(value, index)."""

    def __init__(self, name, calls):
        self.name, self.calls = name, calls

    def m_call(self, eng, args, kwargs):
        if len(args) != 2 or kwargs:
            eng.oblige(f"scope-call:{self.name}-gets-value-and-index", False, detail=f"called with {len(args)} positional arguments")
            raise Unsupported("scope function call shape")
        x, index = args
        idx = eng.as_seq(index)
        if isinstance(x, SSeries):
            x = x.m_getitem(eng, index)  # f(series, index) == f(series[index], index)  (isinstance(x, BlockSeries) branch)
        if not isinstance(x, SObj):
            raise Unsupported(f"{self.name}({x!r}, index)")
        self.calls.append((self.name, x, idx))
        tag = eng.fresh(f"{self.name}_tag")
        eng.assume(z3.And(tag >= 0, tag <= 2, tag != TAG_ONE))
        nf = fn_atom(self.name, x.nf, ZK(zi(idx.items[0])), ZK(zi(idx.items[1])), ZK(idx.tail.arr))
        (atom,) = nf.atoms()
        eng.add_fact(tag == TAG_ZERO, atom, NF.zero())  # a scope function that returns the zero sentinel denotes 0
        return SObj(tag, nf)

    def m_is(self, eng, other):
        return other is self


class FlagVec(Model):
    def m_getitem(self, eng, key):
        return wrap_bool(_cb(zi(key)))


class UseLO(Model):
    def m_getitem(self, eng, key):
        s = eng.as_seq(key)
        return wrap_bool(_uselo(zi(s.items[0]), zi(s.items[1])))


def zero_sum_contract(eng, *terms):
    """Contract of algorithm_parsing._zero_sum (its body is verified in unit_helpers): the sum of
    the non-zero terms, the zero sentinel if there is none."""
    eng.used_models.add("contract:_zero_sum (verified as its own unit)")
    nf = NF.zero()
    tags = []
    for t in terms:
        if not isinstance(t, SObj):
            raise Unsupported(f"_zero_sum argument {t!r}")
        nf = nf + t.nf
        tags.append(t.tag)
    allzero = z3.And(*[t == TAG_ZERO for t in tags]) if tags else z3.BoolVal(True)
    nonzero = [z3.If(t != TAG_ZERO, 1, 0) for t in tags]
    count = z3.Sum(*nonzero) if nonzero else z3.IntVal(0)
    # P-ONE: `one` may only appear as the single non-zero term
    bad = z3.And(z3.Or(*[t == TAG_ONE for t in tags]), count > 1) if tags else z3.BoolVal(False)
    if eng.branch(bad):
        raise PyRaise(SExc("TypeError", ("one + value",), tag="sentinel-arith"))
    tag = eng.fresh("zs_tag")
    only_one = z3.And(z3.Or(*[t == TAG_ONE for t in tags]), count == 1) if tags else z3.BoolVal(False)
    eng.assume(tag == z3.If(allzero, TAG_ZERO, z3.If(only_one, TAG_ONE, TAG_VAL)))
    alias = "fresh"
    return SObj(tag, nf, alias="unknown" if len(terms) else "fresh")


def safe_divide_contract(eng, num, den):
    eng.used_models.add("contract:_safe_divide (verified as its own unit)")
    if not isinstance(num, SObj) or not isinstance(den, int) or den == 0:
        raise Unsupported(f"_safe_divide({num!r}, {den!r})")
    if eng.branch(num.tag == TAG_ZERO):
        return num
    if eng.branch(num.tag == TAG_VAL):
        return SObj(TAG_VAL, num.nf.scale(Fraction(1, den)))
    raise PyRaise(SExc("TypeError", ("one / k",), tag="sentinel-arith"))


class Ctx:
    pass


def spec_value(eng, alg, sdef, i, j, n, ser, have_offdiag, two_block):
    """Element-wise meaning of the extracted equation of `sdef` at (i, j, n) as a normal form."""
    def elem(name, a, b):
        return ser(name).element(eng, SI(a), SI(b), n).nf

    def F(name, x):
        return fn_atom(name, x, ZK(i), ZK(j), ZK(n.arr))

    def E(e, diag_ctx):
        k = e[0]
        if k == "term":
            if e[2]:
                return elem(e[1], j, i).dagger()
            return elem(e[1], i, j)
        if k == "zero":
            return NF.zero()
        if k == "neg":
            return -E(e[1], diag_ctx)
        if k == "add":
            return E(e[1], diag_ctx) + E(e[2], diag_ctx)
        if k == "sub":
            return E(e[1], diag_ctx) - E(e[2], diag_ctx)
        if k == "div":
            return E(e[1], diag_ctx).scale(Fraction(1, e[2]))
        if k == "scale":
            return E(e[1], diag_ctx).scale(Fraction(e[2]))
        if k == "call":
            return F(e[1], E(e[2], diag_ctx))
        if k == "callseries":
            return F(e[1], elem(e[2], i, j))
        if k == "ifflag":
            flag = e[1]
            cond = two_block if flag == ("name", "two_block_optimized") else (_cb(i) if flag == ("indexed", "commuting_blocks") else None)
            if cond is None:
                raise Unsupported(f"unknown scope flag {flag}")
            return E(e[2], diag_ctx) if eng.branch(cond) else E(e[3], diag_ctx)
        raise Unsupported(f"spec expression {k}")

    if sdef.marker is not None and eng.branch(i > j):
        v = elem(sdef.name, j, i).dagger()
        return -v if sdef.marker == "antihermitian" else v
    total = NF.zero()
    for cond, e in sdef.clauses:
        if cond is None:
            total = total + E(e, False)
        elif cond == "diagonal":
            if eng.branch(i == j):
                total = total + F("diag", E(e, True))
        elif cond == "offdiagonal":
            if eng.branch(i != j):
                total = total + E(e, False)
            elif have_offdiag:
                total = total + F("offdiag", E(e, False))
        elif cond == "lower":
            # documented reading: a condition like the others, the clause contributes on indices below the diagonal (the corpus places such a
            # clause last, where the compiler's early return after it agrees with this reading)
            if eng.branch(i > j):
                total = total + E(e, False)
        else:
            raise Unsupported(f"condition {cond}")
    return total


def make_eval_harness(alg_name, term_name, have_offdiag, canary=False):
    def harness(eng):
        terms, products, outputs = parsed_algorithm(alg_name)
        alg = read_spec(alg_name)
        inputs = program_inputs(alg) | ({"H"} if split_name(alg_name)[1] is None else set())
        sdefs = alg.series_by_name()
        term = next((t for t in terms if t.name == term_name), None)
        if term is None or term_name not in sdefs:
            raise Unsupported(f"term {term_name} missing from compiler output or from the extracted equations")
        sdef = sdefs[term_name]
        fdefs = [n for n in term.definition.body if isinstance(n, ast.FunctionDef)]
        if len(fdefs) != 1 or fdefs[0].name != "series_eval":
            raise Unsupported("compiler output is not a single `series_eval` definition")
        fdef = fdefs[0]
        # symbolic index
        B, N = z3.Ints("n_blocks N")
        eng.assume(z3.And(B >= 1, N >= 1))
        i, j = z3.Ints("i j")
        eng.assume(z3.And(i >= 0, i < B, j >= 0, j < B))
        n = SVec(z3.Array("n", z3.IntSort(), z3.IntSort()), N)
        eng.assume_forall(lambda k: z3.Implies(z3.And(k >= 0, k < N), n.at(k) >= 0))
        nz = _vzero(n.arr, N)
        # an evaluator runs only for indices without start data
        start = {"zero_data": "all", "identity_data": "diag", None: "none"}.get(term.start, "all")
        if start == "all":
            eng.assume(z3.Not(nz))
        elif start == "diag":
            eng.assume(z3.Not(z3.And(nz, i == j)))
        two_block = z3.Bool("two_block_optimized")
        names = set(sdefs) | {p.name for p in alg.products} | inputs
        series = {nm: SSeries(nm, SI(B), SI(B), SI(N)) for nm in sorted(names)}
        lo_series = {nm: SSeries(nm, SI(B), SI(B), SI(N), sid=1000 + series[nm].sid) for nm in names}
        reads, dels, calls = [], [], []

        def on_read(which):
            def h(eng_, s, a, b, vec):
                reads.append((which, s.name, a, b, vec))
                eng_.oblige(f"footprint:read-at-requested-order:{s.name}@{eng_.site()}", z3.BoolVal(vec.arr.get_id() == n.arr.get_id()),
                            detail="an evaluator reads other series only at the order it was asked for")
                eng_.oblige(f"footprint:read-at-block-or-transpose:{s.name}@{eng_.site()}",
                            z3.Or(z3.And(zi(a) == i, zi(b) == j), z3.And(zi(a) == j, zi(b) == i)))
            return h

        for nm in names:
            series[nm].hooks["on_read"] = on_read("series")
            lo_series[nm].hooks["on_read"] = on_read("lo")

        def del_(eng_, name, index):
            idx = eng_.as_seq(index)
            dels.append((name, idx))
            return None

        scope = {
            "series": series, "linear_operator_series": lo_series, "del_": Builtin("del_", del_),
            "use_linear_operator": UseLO(), "offdiag": ScopeFn("offdiag", calls) if have_offdiag else None,
            "diag": ScopeFn("diag", calls), "solve_sylvester": ScopeFn("solve_sylvester", calls),
            "_zero_sum": Builtin("_zero_sum", zero_sum_contract), "_safe_divide": Builtin("_safe_divide", safe_divide_contract),
            "two_block_optimized": SB(two_block), "commuting_blocks": FlagVec(),
        }
        for fname in sorted(program_functions(alg) - set(scope)):
            scope[fname] = ScopeFn(fname, calls)
        clo = Closure(fdef, Env(None, scope), f"series_eval<{term_name}>")
        res = eng.call(clo, [SI(i), SI(j), StarTail(STup([], n))], {})
        if not isinstance(res, SObj):
            eng.oblige("returns-element-value", False, detail=f"returned {res!r}")
            return
        which_lo = _uselo(i, j)
        want = spec_value(eng, alg, sdef, i, j, n, lambda nm: series[nm], have_offdiag, two_block)
        if canary:
            want = want + NF.atom(("canary",))
        eng.oblige_nf("value-equals-extracted-equation", res.nf, want,
                      detail=f"den(series_eval<{term_name}>(i,j,n)) = equation of {term_name!r} read from algorithms.py")
        # linear-operator mode: all reads come from the dictionary selected by use_linear_operator[i,j]
        for which, nm, a, b, vec in reads:
            eng.oblige(f"lo-mode:reads-from-selected-dict:{nm}", z3.BoolVal(which == "lo") == which_lo)
        # deletions: never the evaluating element, only at the requested (non-zero) order, never inputs/outputs/product factors
        blacklist = set(outputs) | inputs | {t for p in alg.products for t in p.terms}
        for nm, idx in dels:
            eng.oblige(f"delete:not-blacklisted:{nm}", z3.BoolVal(nm not in blacklist),
                       detail="terms of inputs, outputs and product factors are never deleted")
            eng.oblige(f"delete:at-requested-order:{nm}", z3.BoolVal(idx.tail is not None and idx.tail.arr.get_id() == n.arr.get_id()))
            # a request that addresses a start value (possible only when this evaluator runs at zeroth order) is ignored by del_ itself:
            # callee contract, verified on series_computation's own del_ (unit_wiring: wiring:del_-never-removes-a-start-value)
            eng_ = eng
            eng_.used_models.add("contract:del_ removes the addressed element from both dictionaries unless it is a start value (verified in unit_wiring)")
            same = z3.And(z3.BoolVal(nm == term_name), zi(idx.items[0]) == i, zi(idx.items[1]) == j)
            eng.oblige(f"delete:not-the-element-in-flight:{nm}", z3.Not(same))
            eng.oblige(f"delete:block-or-transpose:{nm}", z3.Or(z3.And(zi(idx.items[0]) == i, zi(idx.items[1]) == j),
                                                                 z3.And(zi(idx.items[0]) == j, zi(idx.items[1]) == i)))
        # scope functions get the evaluator's own index
        for fname, x, idx in calls:
            eng.oblige(f"scope-call:{fname}-index-is-requested-index",
                       z3.And(zi(idx.items[0]) == i, zi(idx.items[1]) == j, z3.BoolVal(idx.tail is not None and idx.tail.arr.get_id() == n.arr.get_id())))

    return harness


def unit_eval(alg_name, term_name, have_offdiag, timeout_ms=10000, canary=False):
    nm = f"algorithm_parsing:series_eval<{alg_name}:{term_name}>[offdiag={'given' if have_offdiag else 'None'}]" + ("[canary]" if canary else "")
    r = run_unit(nm, make_eval_harness(alg_name, term_name, have_offdiag, canary=canary),
                 functions=([("algorithms", alg_name)] if split_name(alg_name)[1] is None else []) + [("algorithm_parsing", "_parse_algorithm"), ("algorithm_parsing", "_EvalTransformer"),
                            ("algorithm_parsing", "_HermitianTransformer"), ("algorithm_parsing", "_LiteralTransformer"),
                            ("algorithm_parsing", "_SumTransformer"), ("algorithm_parsing", "_DivideTransformer"),
                            ("algorithm_parsing", "_FunctionTransformer"), ("algorithm_parsing", "_find_delete_candidates")],
                 timeout_ms=timeout_ms)
    return r


def term_names(alg_name):
    return [s.name for s in read_spec(alg_name).series]


def corpus_programs():
    import ast as _ast
    with open(CORPUS, encoding="utf8") as f:
        return [n.name for n in _ast.parse(f.read()).body if isinstance(n, _ast.FunctionDef)]


# ======================================================================================
# series_computation: wiring of start data, evaluators, products, linear-operator wrappers
# ======================================================================================


class SNative(Model):
    """Read-only view of a native object produced by the repository's compiler."""

    def __init__(self, obj):
        self.obj = obj

    def m_getattr(self, eng, name):
        v = getattr(self.obj, name)
        return wrap_native(v)


def wrap_native(v):
    if isinstance(v, (str, int, bool, type(None))):
        return v
    if isinstance(v, (list, tuple)):
        return STup([wrap_native(x) for x in v], None, isinstance(v, list))
    return SNative(v)


class Created(SSeries):
    """A BlockSeries constructed inside series_computation."""

    def __init__(self, kw, shape, ninf):
        super().__init__(str(kw.get("name")), shape[0], shape[1], ninf)
        self.kw = kw
        self.popped = []

    def pop(self, eng, key, default):
        self.popped.append(key)
        return None


class FrozenKeys(Model):
    """frozenset of concrete dictionary keys (tuples of ints)"""

    def __init__(self, keys):
        self.keys = frozenset(keys)

    def m_contains(self, eng, item):
        return eng.hashable(item) in self.keys

    def m_truth(self, eng):
        return bool(self.keys)


def _frozenset(eng, x=()):
    if isinstance(x, dict):
        return FrozenKeys(x.keys())
    s = eng.as_seq(x)
    if s.tail is not None:
        raise Unsupported("frozenset of a symbolic-length sequence")
    return FrozenKeys(eng.hashable(k) for k in s.items)


def make_wiring_harness(alg_name, nblocks, ninf, with_scope):
    node = frontend.find("algorithm_parsing", "series_computation")

    def harness(eng):
        terms, products, outputs = parsed_algorithm(alg_name)
        alg = read_spec(alg_name)
        H = SSeries("H", nblocks, nblocks, ninf)
        H.dimension_names = "dims"
        # further input series of corpus / generated programs (names read but not defined, and the inputs named by `start = "<input>_0"`)
        more_inputs = {}
        for nm_ in sorted(program_inputs(alg) | {sd_.start[:-2] for sd_ in alg.series if isinstance(sd_.start, str) and sd_.start.endswith("_0")}):
            if nm_ != "H":
                more_inputs[nm_] = SSeries(nm_, nblocks, nblocks, ninf)
                more_inputs[nm_].dimension_names = "dims"
        created = []
        cauchy_calls = []

        def ctor(eng_, *args, **kw):
            if args:
                raise Unsupported("positional BlockSeries args")
            shp = eng_.as_seq(kw.get("shape")).items
            c = Created(kw, shp, kw.get("n_infinite"))
            c.dimension_names = kw.get("dimension_names")
            created.append(c)
            return c

        def cauchy(eng_, *factors, operator=None, hermitian=False):
            c = Created({"name": "prod"}, [factors[0].shape0, factors[-1].shape1], factors[0].n_inf)
            c.factors, c.operator, c.hermitian = factors, operator, hermitian
            cauchy_calls.append(c)
            return c

        def parse(eng_, algorithm):
            return STup([wrap_native(terms), wrap_native(products), wrap_native(outputs)])

        def compile_(eng_, src, filename=None, mode=None):
            return src

        def exec_(eng_, module, scope):
            if not isinstance(module, SNative) or not isinstance(scope, dict):
                raise Unsupported("exec arguments")
            fdefs = [n for n in module.obj.body if isinstance(n, ast.FunctionDef)]
            env = Env(None, {})
            env.vars = scope
            for f in fdefs:
                scope[f.name] = Closure(f, env, f.name)
            return None

        user_sylv = ScopeFn("solve_sylvester", [])
        user_diag = ScopeFn("user_diag", [])
        op = Builtin("operator", lambda *a: None)
        lo_wrap_calls = []

        def aslo(eng_, x):
            lo_wrap_calls.append(x)
            return x

        g = {"BlockSeries": Builtin("BlockSeries", ctor), "cauchy_dot_product": Builtin("cauchy_dot_product", cauchy),
             "_parse_algorithm": Builtin("_parse_algorithm", parse), "compile": Builtin("compile", compile_), "exec": Builtin("exec", exec_),
             "aslinearoperator": Builtin("aslinearoperator", aslo), "_safe_divide": Builtin("_safe_divide", safe_divide_contract),
             "_zero_sum": Builtin("_zero_sum", zero_sum_contract), "frozenset": Builtin("frozenset", _frozenset),
             "np": __import__("pyvc.core", fromlist=["Namespace"]).Namespace("np", {"zeros": Builtin("np.zeros", lambda e, shape, dtype=None: UseLO())}),
             }
        eng.globals.update(g)
        scope = {"solve_sylvester": user_sylv, "two_block_optimized": False, "commuting_blocks": FlagVec()}
        if with_scope:
            scope["diag"] = user_diag
        clo = Closure(node, Env(None, {}), "series_computation")
        # a second input series that the algorithm does not use (series_computation accepts any number of inputs): listed AFTER "H", so that
        # anything that confuses the inputs (e.g. closures sharing a loop variable) shows up at "H"
        G2 = SSeries("G_extra_input", nblocks, nblocks, ninf)
        G2.dimension_names = "dims"
        res = eng.call(clo, [{"H": H, **more_inputs, "G_extra_input": G2}, SNative(object())], {"scope": scope, "operator": op})
        out = eng.as_seq(res).items
        series, lo = out[0], out[1]
        sdefs = alg.series_by_name()
        zeroth = [0] * ninf
        for t in terms:
            sd = sdefs.get(t.name)
            c = series.get(t.name)
            ok = isinstance(c, Created) and sd is not None
            eng.oblige(f"wiring:series-created:{t.name}", z3.BoolVal(ok))
            if not ok:
                continue
            ev = c.kw.get("eval")
            eng.oblige(f"wiring:evaluator-is-compiled-definition:{t.name}",
                       z3.BoolVal(isinstance(ev, Closure) and ev.node is [n for n in t.definition.body if isinstance(n, ast.FunctionDef)][0]),
                       detail="the series' eval is the function compiled from this term's own definition")
            eng.oblige(f"wiring:shape-and-dims:{t.name}", z3.BoolVal(c.shape0 == nblocks and c.shape1 == nblocks and c.n_inf == ninf and c.dimension_names == "dims"))
            data = c.kw.get("data")
            want = {}
            if sd.start == 0:
                want = {(i, j, *zeroth): "zero" for i in range(nblocks) for j in range(nblocks)}
            elif sd.start == 1:
                want = {(i, i, *zeroth): "one" for i in range(nblocks)}
            elif isinstance(sd.start, str):
                base = sd.start[:-2] if sd.start.endswith("_0") else None
                want = {(i, j, *zeroth): ("elem", base, i, j) for i in range(nblocks) for j in range(nblocks)}
            got = {}
            good = True
            for k, v in (data or {}).items():
                if v is ZERO:
                    got[k] = "zero"
                elif v is ONE:
                    got[k] = "one"
                elif isinstance(v, SObj) and v.origin is not None:
                    s_, a, b, vec = v.origin
                    zero_order = all(z3.is_int_value(z3.simplify(vec.at(z3.IntVal(q)))) and z3.simplify(vec.at(z3.IntVal(q))).as_long() == 0 for q in range(ninf))
                    got[k] = ("elem", s_.name, a, b) if zero_order else ("elem?", s_.name)
                else:
                    good = False
            eng.oblige(f"wiring:start-data:{t.name}", z3.BoolVal(good and got == want),
                       detail=f"start={sd.start!r}: expected zeroth-order data {sorted(want.items())[:3]}..., got {sorted(got.items(), key=str)[:3]}...")
            # its linear-operator twin wraps exactly this series
            cl = lo.get(t.name)
            ok2 = isinstance(cl, Created) and isinstance(cl.kw.get("eval"), Closure)
            eng.oblige(f"wiring:linear-operator-twin:{t.name}", z3.BoolVal(ok2))
            if ok2:
                lo_wrap_calls.clear()
                i, j = 0, nblocks - 1
                idx = [i, j] + [3] * ninf
                r = eng.call(cl.kw["eval"], idx, {})
                okr = isinstance(r, SObj) and r.origin is not None and r.origin[0] is c and lo_wrap_calls and lo_wrap_calls[-1] is r
                eng.oblige(f"wiring:lo-twin-evaluates-aslinearoperator(original[index]):{t.name}", z3.BoolVal(bool(okr)))
        # the input series also gets a linear-operator twin
        clH = lo.get("H")
        okH = isinstance(clH, Created) and isinstance(clH.kw.get("eval"), Closure)
        if okH:
            lo_wrap_calls.clear()
            r = eng.call(clH.kw["eval"], [0, nblocks - 1] + [3] * ninf, {})
            okH = isinstance(r, SObj) and r.origin is not None and r.origin[0] is H and lo_wrap_calls and lo_wrap_calls[-1] is r
        eng.oblige("wiring:lo-twin-of-input-series", z3.BoolVal(bool(okH)), detail="linear_operator_series['H'][index] = aslinearoperator(H[index])")
        clG = lo.get("G_extra_input")
        okG = isinstance(clG, Created) and isinstance(clG.kw.get("eval"), Closure)
        if okG:
            lo_wrap_calls.clear()
            r = eng.call(clG.kw["eval"], [0, nblocks - 1] + [3] * ninf, {})
            okG = isinstance(r, SObj) and r.origin is not None and r.origin[0] is G2 and lo_wrap_calls and lo_wrap_calls[-1] is r
        eng.oblige("wiring:lo-twin-of-every-input-series-wraps-that-series", z3.BoolVal(bool(okG)))
        eng.oblige("wiring:input-series-kept-under-their-keys", z3.BoolVal(series.get("H") is H and series.get("G_extra_input") is G2 and all(series.get(k_) is v_ for k_, v_ in more_inputs.items())))
        eng.oblige("wiring:no-extra-series", z3.BoolVal(set(series) == {"H", "G_extra_input"} | set(more_inputs) | set(sdefs) | {p.name for p in alg.products}),
                   detail=f"{sorted(series)}")
        for p in alg.products:
            for which, nm in ((series, "series"), (lo, "linear_operator_series")):
                c = which.get(p.name)
                ok = isinstance(c, Created) and hasattr(c, "factors") and len(c.factors) == len(p.terms) \
                    and all(f is which.get(tn) for f, tn in zip(c.factors, p.terms))
                eng.oblige(f"wiring:product-factors-in-order:{p.name}:{nm}", z3.BoolVal(bool(ok)))
                if ok:
                    eng.oblige(f"wiring:product-hermitian-flag:{p.name}:{nm}", z3.BoolVal(bool(c.hermitian) == p.hermitian),
                               detail=f"declared hermitian={p.hermitian}")
                    eng.oblige(f"wiring:product-operator:{p.name}:{nm}", z3.BoolVal(c.operator is op))
        # scope given to the evaluators
        ev0 = series[terms[0].name].kw["eval"]
        sc = ev0.env.vars
        eng.oblige("wiring:scope-series-dicts", z3.BoolVal(sc.get("series") is series and sc.get("linear_operator_series") is lo))
        eng.oblige("wiring:scope-user-entries-override", z3.BoolVal(sc.get("solve_sylvester") is user_sylv and (sc.get("diag") is user_diag) == with_scope))
        eng.oblige("wiring:scope-default-offdiag-None", z3.BoolVal(sc.get("offdiag") is None))
        eng.oblige("wiring:scope-helpers", z3.BoolVal(sc.get("zero") is ZERO and isinstance(sc.get("_zero_sum"), Builtin) and isinstance(sc.get("_safe_divide"), Builtin)))
        if not with_scope:
            dflt = sc.get("diag")
            x = SObj(TAG_VAL, NF.atom(("x",)))
            r1 = eng.call(dflt, [x, STup([0, 0, 1])], {})
            r2 = eng.call(dflt, [H, STup([0, 0] + [1] * ninf)], {})
            eng.oblige("wiring:default-diag-is-identity", z3.BoolVal(r1 is x and isinstance(r2, SObj) and r2.origin is not None and r2.origin[0] is H),
                       detail="without a mask, diag(x, index) is x (or x[index] for a series)")
        # del_ removes the element from both dictionaries
        d = sc.get("del_")
        nm0 = terms[0].name
        key = STup([0, 0] + [2] * ninf)
        eng.call(d, [nm0, key], {})
        eng.oblige("wiring:del_-pops-both-dicts", z3.BoolVal(series[nm0].popped[-1:] == [key] and lo[nm0].popped[-1:] == [key]))
        # ... but never a start value (start values cannot be recomputed): a deletion request for a key of the start data is ignored,
        # for a series without start data the zeroth order is deleted like any other element
        for t in terms:
            for blk in ((0, 0), (0, nblocks - 1)):
                k0 = STup(list(blk) + [0] * ninf)
                n_before = (len(series[t.name].popped), len(lo[t.name].popped))
                eng.call(d, [t.name, k0], {})
                removed = (len(series[t.name].popped), len(lo[t.name].popped)) != n_before
                has_start = t.start is not None and (t.start != "identity_data" or blk[0] == blk[1])
                eng.oblige(f"wiring:del_-never-removes-a-start-value:{t.name}:{blk}", z3.BoolVal(removed == (not has_start)),
                           detail=f"start={t.start!r}: deletion request at zeroth order {'must be ignored' if has_start else 'is carried out'}")

    return harness


def unit_wiring(alg_name, nblocks=2, ninf=1, with_scope=False, timeout_ms=10000):
    r = run_unit(f"algorithm_parsing:series_computation<{alg_name}>[blocks={nblocks},params={ninf},user-diag={with_scope}]",
                 make_wiring_harness(alg_name, nblocks, ninf, with_scope),
                 functions=[("algorithm_parsing", "series_computation")], timeout_ms=timeout_ms)
    r.bounded.append(f"block count {nblocks} and parameter count {ninf} are concrete in this unit (start-data dictionaries are enumerated)")
    return r



# ======================================================================================
# helper bodies: _zero_sum, _safe_divide
# ======================================================================================


def unit_helpers(nterms=3, timeout_ms=10000):
    """_zero_sum(*terms) = sum of the non-zero terms (zero sentinel if none), for `nterms` symbolic
    terms (bounded in the number of terms; the callers use at most 7); _safe_divide(x, k) = x / k,
    falling back to x * (1/k) only on the TypeError of the division itself."""
    nzs = frontend.find("algorithm_parsing", "_zero_sum")
    nsd = frontend.find("algorithm_parsing", "_safe_divide")

    def harness(eng):
        terms = []
        for q in range(nterms):
            t = eng.fresh(f"tag{q}")
            eng.assume(z3.And(t >= 0, t <= 2))
            atom = Atom(("x", q))
            eng.add_fact(t == TAG_ZERO, atom, NF.zero())
            eng.add_fact(t == TAG_ONE, atom, NF.one())
            terms.append(SObj(t, NF({(atom,): 1}), alias="cache"))
        r = eng.call(Closure(nzs, Env(None, {}), "_zero_sum"), terms, {})
        total = NF.zero()
        for t in terms:
            total = total + t.nf
        eng.oblige("_zero_sum:returns-element-value", z3.BoolVal(isinstance(r, SObj)))
        if isinstance(r, SObj):
            eng.oblige_nf("_zero_sum:value-is-sum-of-terms", r.nf, total)
            allzero = z3.And(*[t.tag == TAG_ZERO for t in terms])
            eng.oblige("_zero_sum:zero-sentinel-iff-all-terms-zero", (r.tag == TAG_ZERO) == allzero)
        # _safe_divide
        x = terms[0]
        for k in (2, -2):
            try:
                q = eng.call(Closure(nsd, Env(None, {}), "_safe_divide"), [x, k], {})
            except PyRaise as pr:
                eng.oblige("_safe_divide:raises-only-for-one", x.tag == TAG_ONE, detail=str(pr.exc))
                continue
            eng.oblige_nf(f"_safe_divide:value-is-x/{k}", q.nf, x.nf.scale(Fraction(1, k)))
            eng.oblige(f"_safe_divide:zero-stays-zero/{k}", (q.tag == TAG_ZERO) == (x.tag == TAG_ZERO))

    r = run_unit(f"algorithm_parsing:_zero_sum/_safe_divide[{nterms} terms]", harness,
                 functions=[("algorithm_parsing", "_zero_sum"), ("algorithm_parsing", "_safe_divide")], timeout_ms=timeout_ms)
    r.bounded.append(f"number of summands = {nterms}")
    return r
