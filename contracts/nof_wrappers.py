"""Contracts for the thin arithmetic wrappers of NumberOrderedForm (C08: "sum, difference, product, ... denote the same operator"):
    __sub__, __radd__, __rmul__, __truediv__  reduce to __add__, __neg__, __mul__, __pow__ (each under its own contract in contracts/nof.py) -
what has to be proved here is WHICH of those operations they call, on which operands and in which ORDER (the algebra is non-commutative:
`c * x` must convert c and multiply from the left, `x / y` must multiply by the inverse from the right), and what happens when the other
operand cannot be converted (NotImplemented, so that Python tries the reflected operation / raises TypeError instead of a wrong value).
is_particle_conserving: True iff every power of every term vanishes (the precondition of the second-quantized solver, C07 / C16 / C20).

Values are elements of a free term algebra over {self, other}: conv(x) = from_expr(sympify(x)), neg, sum, prod, pow.  The callee contracts used are
exactly the postconditions of the units of contracts/nof.py (sum / product / negation / power denote the sum / product / negative / power).
"""
from __future__ import annotations

import ast

import z3

from pyvc import frontend
from pyvc.core import Closure, Env, STup, SI, SB, SExc, Model, Builtin, Namespace, TypeObj, PyRaise, Unsupported, zi
from pyvc.unit import run_unit
from contracts.formats import T
from contracts.direct import term_eq_py

MODULE = "number_ordered_form"


class Nof(T):
    """abstract NumberOrderedForm value; arithmetic builds terms"""

    def m_isinstance(self, eng, clsname):
        return clsname in ("NumberOrderedForm", "Expr", "Basic")

    def m_binop(self, eng, op, other, reflected):
        l, r = (other, self) if reflected else (self, other)
        if not isinstance(other, Nof):
            return NotImplemented
        if isinstance(op, ast.Add):
            return Nof("sum", l, r)
        if isinstance(op, ast.Mult):
            return Nof("prod", l, r)
        return NotImplemented

    def m_unop(self, eng, op):
        if isinstance(op, ast.USub):
            return Nof("neg", self)
        raise Unsupported("unary operator on a form")

    def m_getattr(self, eng, name):
        if name == "__add__":
            return Builtin("__add__", lambda e, o: Nof("sum", self, o) if isinstance(o, Nof) else Nof("sum", self, Nof("conv", o)))
        if name == "__mul__":
            return Builtin("__mul__", lambda e, o: Nof("prod", self, o) if isinstance(o, Nof) else Nof("prod", self, Nof("conv", o)))
        if name == "__neg__":
            return Builtin("__neg__", lambda e: Nof("neg", self))
        raise Unsupported(f"form.{name}")


def unit_wrapper(method, other_kind, timeout_ms=10000):
    """method: __sub__ | __radd__ | __rmul__ | __truediv__;  other_kind: nof | convertible | inconvertible"""
    node = frontend.find(MODULE, f"NumberOrderedForm.{method}")

    def harness(eng):
        me = Nof("self")
        raw = T("other_object")
        other = Nof("other") if other_kind == "nof" else raw
        conv_calls = []

        def from_expr(e, x, operators=None):
            conv_calls.append(x)
            if other_kind == "inconvertible":
                raise PyRaise(SExc("SympifyError", ("cannot convert",), flags={"is_Exception": z3.BoolVal(True)}))
            return x if isinstance(x, Nof) else Nof("conv", x)     # from_expr of a form is that form (denotation unchanged)

        class OneT(T):
            def m_unop(s, e, op):
                if isinstance(op, ast.USub):
                    return T("minus_one")
                raise Unsupported("unary")
        One = OneT("One")

        class NofCls(TypeObj):
            def m_getattr(s, e, name):
                if name == "from_expr":
                    return Builtin("from_expr", from_expr)
                raise Unsupported(f"NumberOrderedForm.{name}")
        # `x ** y` on forms
        orig_binop = Nof.m_binop

        def binop(self, e, op, o, reflected):
            if isinstance(op, ast.Pow) and not reflected:
                return Nof("pow", self, o)
            return orig_binop(self, e, op, o, reflected)
        Nof.m_binop = binop
        eng.globals.update({"NumberOrderedForm": NofCls("NumberOrderedForm"), "sympy": Namespace("sympy", {"sympify": Builtin("sympify", lambda e, x: x)}),
                            "One": One, "NotImplemented": T("NotImplemented"), "Exception": TypeObj("Exception")})
        NI = eng.globals["NotImplemented"]
        try:
            res = eng.call(Closure(node, Env(None, {}), method), [me, other], {})
        finally:
            Nof.m_binop = orig_binop
        y = other if other_kind == "nof" else Nof("conv", raw)
        if other_kind == "inconvertible" and method != "__radd__":
            eng.oblige("inconvertible-operand-gives-NotImplemented", z3.BoolVal(res is NI),
                       detail="so that Python tries the reflected operation or raises TypeError; never a value")
            return
        want = {"__sub__": Nof("sum", me, Nof("neg", y)),
                "__radd__": Nof("sum", me, y),                               # addition of operators is commutative: other + self = self + other
                "__rmul__": Nof("prod", y, me),                              # other * self: the converted operand on the LEFT
                "__truediv__": Nof("prod", me, Nof("pow", y, T("minus_one")))}[method]   # self * other^(-1): the inverse on the RIGHT
        eng.oblige(f"{method}:denotes-" + {"__sub__": "self-plus-the-negated-operand", "__radd__": "the-sum", "__rmul__": "operand-times-self-in-this-order",
                                           "__truediv__": "self-times-the-inverse-operand-in-this-order"}[method],
                   z3.BoolVal(isinstance(res, T) and term_eq_py(res, want)), detail=f"got {res!r}, want {want!r}")
        if other_kind == "nof":
            eng.oblige("a-form-is-converted-at-most-to-itself", z3.BoolVal(all(c is other for c in conv_calls)), detail=repr(conv_calls))
        else:
            eng.oblige("the-operand-itself-is-what-is-converted", z3.BoolVal(all(c is raw or c is other for c in conv_calls)), detail=repr(conv_calls))
    r = run_unit(f"number_ordered_form:{method}[other={other_kind}]", harness, functions=[(MODULE, f"NumberOrderedForm.{method}")], timeout_ms=timeout_ms)
    r.used_models.add("callee contracts: __add__, __neg__, __mul__, __pow__ denote sum, negative, product, power (units of contracts/nof.py); from_expr denotes its argument")
    return r


def unit_is_particle_conserving(nterms, nmodes, timeout_ms=10000):
    """True iff every power of every term is zero (nterms, nmodes concrete; the powers symbolic integers)."""
    node = frontend.find(MODULE, "NumberOrderedForm.is_particle_conserving")

    def harness(eng):
        pw = [[eng.fresh(f"p{t}_{j}") for j in range(nmodes)] for t in range(nterms)]
        terms = STup([STup([STup([SI(x) for x in row]), T(f"coeff{t}")]) for t, row in enumerate(pw)], None, True)

        class Self(Model):
            def m_getattr(s, e, name):
                if name == "args":
                    return STup([T("operators"), terms])
                raise Unsupported(f"self.{name}")
        res = eng.call(Closure(node, Env(None, {}), "is_particle_conserving"), [Self()], {})
        rz = res.e if isinstance(res, SB) else z3.BoolVal(bool(res))
        allzero = z3.And(*[x == 0 for row in pw for x in row]) if nterms and nmodes else z3.BoolVal(True)
        eng.oblige("true-iff-every-power-of-every-term-vanishes", rz == allzero)
    r = run_unit(f"number_ordered_form:is_particle_conserving[{nterms} terms,{nmodes} modes]", harness,
                 functions=[(MODULE, "NumberOrderedForm.is_particle_conserving")], timeout_ms=timeout_ms)
    r.bounded.append(f"{nterms} terms over {nmodes} modes (powers symbolic)")
    return r


# ---- as_expr -------------------------------------------------------------------------------------------

def unit_as_expr(nops=2, nterms=2, timeout_ms=20000):
    """NumberOrderedForm.as_expr: the expression handed back to sympy is, term by term, the WORD the other contracts take as the meaning of a term
    (contracts/nof.py, Fock.apply_term):   c_0^+^{r_0} ... c_{k-1}^+^{r_{k-1}}  f(N)  c_{k-1}^{s_{k-1}} ... c_0^{s_0}   with r_j = max(-p_j, 0), s_j = max(p_j, 0):
      * creation operators left of the coefficient in operator order, annihilation operators right of it in reverse operator order, each at most once, with the
        exponent |p_j|; a mode with p_j = 0 contributes no factor;
      * the coefficient occurs exactly once, between them, with the number-operator placeholders replaced (xreplace with the form's own map);
      * the result is the sum of the terms' words (starting from Zero), one summand per term, in term order;
      * a form without operators is its constant (Zero if it has no term).
    Values are words over opaque factors with a non-commutative product; what sympy's Mul does with factors it regards as commutative is NOT part of this contract
    (known finding F-ASEXPR)."""
    node = frontend.find(MODULE, "NumberOrderedForm.as_expr")

    class W(Model):
        """a product of factors: ('coef', token) | ('op', mode, dagger, exponent)"""
        def __init__(s, factors):
            s.f = list(factors)

        def m_binop(s, e, op, other, reflected):
            if isinstance(op, ast.Mult) and isinstance(other, W):
                return W(other.f + s.f) if reflected else W(s.f + other.f)
            if isinstance(op, ast.Add):
                if isinstance(other, int) and other == 0:
                    return Sum([s])
                if isinstance(other, Sum):
                    return Sum(other.items + [s]) if reflected else Sum([s] + other.items)
            return NotImplemented

    class Sum(Model):
        def __init__(s, items):
            s.items = list(items)

        def m_binop(s, e, op, other, reflected):
            if isinstance(op, ast.Add) and isinstance(other, W):
                return Sum([other] + s.items) if reflected else Sum(s.items + [other])
            return NotImplemented

    class Op(Model):
        def __init__(s, i, dag=False):
            s.i, s.dag = i, dag

        def m_getattr(s, e, name):
            if name == "adjoint":
                return Builtin("adjoint", lambda e_: Op(s.i, not s.dag))
            raise Unsupported(f"operator.{name}")

        def m_binop(s, e, op, other, reflected):
            if isinstance(op, ast.Pow) and not reflected:
                return W([("op", s.i, s.dag, zi(other))])
            return NotImplemented

    MAP = T("placeholder-to-number-operator map")

    class Coef(W):
        def __init__(s, t, replaced=None):
            super().__init__([("coef", t, replaced)])
            s.t, s.replaced = t, replaced

        def m_getattr(s, e, name):
            if name == "xreplace":
                return Builtin("xreplace", lambda e_, m: Coef(s.t, m))
            raise Unsupported(f"coefficient.{name}")

    def harness(eng):
        ops = STup([Op(i) for i in range(nops)], None, True)
        p = [[eng.fresh(f"p_{t}_{j}") for j in range(nops)] for t in range(nterms)]
        coefs = [Coef(t) for t in range(nterms)]
        terms = STup([STup([STup([SI(x) for x in p[t]]), coefs[t]]) for t in range(nterms)])

        class Self(Model):
            def m_getattr(s, e, name):
                if name == "operators":
                    return ops
                if name == "args":
                    return STup([ops, terms])
                if name == "_placeholder_to_number_operator":
                    return MAP
                raise Unsupported(f"self.{name}")
        eng.globals.update({"Zero": 0})
        res = eng.call(Closure(node, Env(None, {}), "as_expr"), [Self()], {})
        if nterms == 0:
            eng.oblige("no-terms:Zero", z3.BoolVal(isinstance(res, int) and res == 0))
            return
        ok = isinstance(res, Sum) and len(res.items) == nterms
        eng.oblige("result-is-the-sum-of-one-word-per-term-in-term-order", z3.BoolVal(ok), detail=f"{type(res).__name__}")
        if not ok:
            return
        for t, w in enumerate(res.items):
            f = w.f
            cpos = [k for k, x in enumerate(f) if x[0] == "coef"]
            okc = len(cpos) == 1 and f[cpos[0]][1] == t and f[cpos[0]][2] is MAP
            eng.oblige(f"term{t}:coefficient-occurs-once-with-placeholders-replaced", z3.BoolVal(okc), detail=f"{[x[:3] for x in f]}")
            if not okc:
                continue
            left, right = f[:cpos[0]], f[cpos[0] + 1:]
            li, ri = [x[1] for x in left], [x[1] for x in right]
            eng.oblige(f"term{t}:left-of-the-coefficient-creation-operators-in-operator-order", z3.BoolVal(all(x[2] for x in left) and li == sorted(set(li))), detail=f"{li}")
            eng.oblige(f"term{t}:right-of-the-coefficient-annihilation-operators-in-reverse-operator-order",
                       z3.BoolVal(all(not x[2] for x in right) and ri == sorted(set(ri), reverse=True)), detail=f"{ri}")
            for j in range(nops):
                lj = [x for x in left if x[1] == j]
                rj = [x for x in right if x[1] == j]
                eng.oblige(f"term{t}:mode{j}:creation-exponent-is-max(-p,0)", (lj[0][3] == -p[t][j]) if lj else (p[t][j] >= 0))
                if lj:
                    eng.oblige(f"term{t}:mode{j}:creation-factor-only-for-non-positive-power", p[t][j] <= 0)   # a factor with exponent 0 is the identity
                eng.oblige(f"term{t}:mode{j}:annihilation-exponent-is-max(p,0)", (rj[0][3] == p[t][j]) if rj else (p[t][j] <= 0))
                if rj:
                    eng.oblige(f"term{t}:mode{j}:annihilation-factor-only-for-non-negative-power", p[t][j] >= 0)

    def harness0(eng):
        c = T("constant")
        for tm in ({(): c}, {}):
            class Self(Model):
                def m_getattr(s, e, name):
                    if name == "operators":
                        return STup([], None, True)
                    if name == "terms":
                        return dict(tm)
                    raise Unsupported(f"self.{name}")
            eng.globals.update({"Zero": 0, "iter": Builtin("iter", lambda e, x: e.as_seq(x)),
                                "next": Builtin("next", lambda e, x: e.as_seq(x).items[0])})
            res = eng.call(Closure(node, Env(None, {}), "as_expr"), [Self()], {})
            eng.oblige("no-operators:the-constant-or-Zero", z3.BoolVal((res is c) if tm else (isinstance(res, int) and res == 0)))

    if nops == 0:
        r = run_unit("number_ordered_form:as_expr[no operators]", harness0, functions=[(MODULE, "NumberOrderedForm.as_expr")], timeout_ms=timeout_ms)
        return r
    r = run_unit(f"number_ordered_form:as_expr[{nops} operators,{nterms} terms]", harness, functions=[(MODULE, "NumberOrderedForm.as_expr")], timeout_ms=timeout_ms)
    r.bounded.append(f"{nops} operators, {nterms} terms (powers symbolic integers, coefficients opaque)")
    r.notes.append("values are words over opaque factors; sympy's reordering of factors it regards as commutative is outside (F-ASEXPR)")
    return r


# ---- __eq__, __bool__, _eval_is_zero, terms, operators ----------------------------------------------------

def unit_eq(other_kind, timeout_ms=10000):
    """NumberOrderedForm.__eq__: other_kind: same-operators | other-operators | convertible | inconvertible.
    Equality of two forms is equality of their term dictionaries AFTER both were brought to one operator list (`_combine_operators`, its own unit); an operand that is not a form is
    converted (from_expr of its sympified value) first; if that fails the answer is None (sympy decides), never True / False."""
    node = frontend.find(MODULE, "NumberOrderedForm.__eq__")

    def harness(eng):
        class F(Model):
            def __init__(s, label, ops):
                s.label, s.ops = label, ops
                s.combined_with = None

            def m_isinstance(s, e, clsname):
                return clsname in ("NumberOrderedForm", "Expr", "Basic")

            def m_getattr(s, e, name):
                if name == "operators":
                    return s.ops
                if name == "terms":
                    return T("terms", s)
                if name == "_combine_operators":
                    def comb(e_, o):
                        a, b = F(("expanded", s.label), "common"), F(("expanded", o.label), "common")
                        a.combined_with = (s, o)
                        combos.append((s, o, a, b))
                        return STup([a, b])
                    return Builtin("_combine_operators", comb)
                raise Unsupported(f"form.{name}")
        combos, conv = [], []
        me = F("self", "ops1")
        raw = T("raw")
        other = {"same-operators": F("other", "ops1"), "other-operators": F("other", "ops2")}.get(other_kind, raw)
        converted = F("conv(raw)", "ops2")

        def from_expr(e, x, operators=None):
            conv.append(x)
            if other_kind == "inconvertible":
                raise PyRaise(SExc("ValueError", ("cannot convert",), flags={"is_Exception": z3.BoolVal(True)}))
            return converted

        class NofCls(TypeObj):
            def m_getattr(s, e, name):
                if name == "from_expr":
                    return Builtin("from_expr", from_expr)
                raise Unsupported(f"NumberOrderedForm.{name}")
        eng.globals.update({"NumberOrderedForm": NofCls("NumberOrderedForm"), "sympy": Namespace("sympy", {"sympify": Builtin("sympify", lambda e, x: T("sympified", x))}),
                            "Exception": TypeObj("Exception")})
        res = eng.call(Closure(node, Env(None, {}), "__eq__"), [me, other], {})
        if other_kind == "inconvertible":
            eng.oblige("inconvertible-operand:None", z3.BoolVal(res is None))
            return
        y = other if isinstance(other, F) else converted
        if not isinstance(other, F):
            eng.oblige("operand-converted-from-its-sympified-value-once", z3.BoolVal(len(conv) == 1 and isinstance(conv[0], T) and conv[0].head == "sympified" and conv[0].args[0] is raw))
        else:
            eng.oblige("a-form-is-not-converted", z3.BoolVal(not conv))
        ok = isinstance(res, T) and res.head == "Eq" and all(isinstance(a, T) and a.head == "terms" for a in res.args)
        eng.oblige("result-is-equality-of-two-term-dictionaries", z3.BoolVal(bool(ok)), detail=repr(res))
        if not ok:
            return
        l, r = res.args[0].args[0], res.args[1].args[0]
        if y.ops == me.ops:
            eng.oblige("same-operators:terms-compared-directly", z3.BoolVal(l is me and r is y and not combos))
        else:
            eng.oblige("different-operators:both-brought-to-one-operator-list-first", z3.BoolVal(len(combos) == 1 and combos[0][0] is me and combos[0][1] is y and l is combos[0][2] and r is combos[0][3]))

    r = run_unit(f"number_ordered_form:__eq__[{other_kind}]", harness, functions=[(MODULE, "NumberOrderedForm.__eq__")], timeout_ms=timeout_ms)
    r.used_models.add("callee contracts: _combine_operators returns both forms on the union operator list with unchanged denotation (its own unit); from_expr denotes its argument")
    return r


def unit_small_accessors(timeout_ms=10000):
    """operators = args[0]; terms = {powers: coefficient} of args[1]; __bool__ iff there is a term; _eval_is_zero = fuzzy_and of the coefficients' is_zero."""
    def harness(eng):
        OPS = T("operators")
        c0, c1 = T("c0"), T("c1")
        c0z, c1z = T("c0.is_zero"), T("c1.is_zero")
        c0.m_getattr = lambda e, name: c0z if name == "is_zero" else None
        c1.m_getattr = lambda e, name: c1z if name == "is_zero" else None
        for nterms in (0, 2):
            pairs = [STup([STup([1, 0]), c0]), STup([STup([0, -1]), c1])][:nterms]
            terms = STup(pairs)

            class Self(Model):
                def m_getattr(s, e, name):
                    if name == "args":
                        return STup([OPS, terms])
                    raise Unsupported(f"self.{name}")
            fz = []
            eng.globals.update({"fuzzy_and": Builtin("fuzzy_and", lambda e, it: (fz.append(list(e.as_seq(it).items)), T("fuzzy"))[1]),
                                "bool": Builtin("bool", lambda e, x: len(e.as_seq(x).items) > 0)})
            me = Self()

            def run(name):
                n = frontend.find(MODULE, f"NumberOrderedForm.{name}")
                return eng.call(Closure(n, Env(None, {}), name), [me], {})
            eng.oblige(f"operators-is-args[0][{nterms} terms]", z3.BoolVal(run("operators") is OPS))
            d = run("terms")
            okd = isinstance(d, dict) and len(d) == nterms and (nterms == 0 or (d.get((1, 0)) is c0 and d.get((0, -1)) is c1))
            eng.oblige(f"terms-is-the-dictionary-powers->coefficient[{nterms} terms]", z3.BoolVal(bool(okd)), detail=repr(d))
            b = run("__bool__")
            eng.oblige(f"__bool__-iff-there-is-a-term[{nterms} terms]", z3.BoolVal(b is (nterms > 0)))
            run("_eval_is_zero")
            eng.oblige(f"_eval_is_zero-is-fuzzy_and-of-the-coefficients'-is_zero[{nterms} terms]", z3.BoolVal(len(fz) == 1 and fz[0] == [c0z, c1z][:nterms]), detail=repr(fz))
    return run_unit("number_ordered_form:operators/terms/__bool__/_eval_is_zero", harness,
                    functions=[(MODULE, "NumberOrderedForm.operators"), (MODULE, "NumberOrderedForm.terms"), (MODULE, "NumberOrderedForm.__bool__"), (MODULE, "NumberOrderedForm._eval_is_zero")],
                    timeout_ms=timeout_ms)


def unit_applyfunc(timeout_ms=10000):
    """NumberOrderedForm.applyfunc(func, *args, **kwargs): a form on the SAME operators whose coefficient at every power tuple is func(old coefficient, *args, **kwargs) - the powers are
    untouched, no term is added or dropped, the result is built without re-validation."""
    node = frontend.find(MODULE, "NumberOrderedForm.applyfunc")

    def harness(eng):
        OPS = T("operators")
        c = [T("c0"), T("c1"), T("c2")]
        pws = [STup([1, 0]), STup([0, -1]), STup([0, 0])]
        terms = STup([STup([p, x]) for p, x in zip(pws, c)])
        built = []

        class Self(Model):
            def m_getattr(s, e, name):
                if name == "args":
                    return STup([OPS, terms])
                if name == "operators":
                    return OPS
                raise Unsupported(f"self.{name}")

        def cls_call(e, o, t, validate=True):
            built.append((o, t, validate))
            return T("new-form")
        extra, kw = T("extra-arg"), T("kw-value")
        func = Builtin("func", lambda e, x, *a, **k: T("f", x, *a, *[T("kw", T(n), v) for n, v in sorted(k.items())]))
        eng.globals.update({"type": Builtin("type", lambda e, x: Builtin("cls", cls_call))})
        res = eng.call(Closure(node, Env(None, {}), "applyfunc"), [Self(), func, extra], {"option": kw})
        ok = len(built) == 1 and isinstance(res, T) and res.head == "new-form" and built[0][0] is OPS and built[0][2] is False and isinstance(built[0][1], dict)
        eng.oblige("one-form-on-the-same-operators-built-without-revalidation", z3.BoolVal(bool(ok)))
        if not ok:
            return
        d = built[0][1]
        want_keys = [(1, 0), (0, -1), (0, 0)]
        eng.oblige("same-power-tuples", z3.BoolVal(sorted(d) == sorted(want_keys)), detail=repr(sorted(d)))
        for k_, x in zip(want_keys, c):
            v = d.get(k_)
            good = isinstance(v, T) and v.head == "f" and len(v.args) == 3 and v.args[0] is x and v.args[1] is extra and isinstance(v.args[2], T) and v.args[2].head == "kw" and v.args[2].args[1] is kw
            eng.oblige(f"coefficient-at-{k_}-is-func(old, *args, **kwargs)", z3.BoolVal(bool(good)), detail=repr(v))
    return run_unit("number_ordered_form:applyfunc", harness, functions=[(MODULE, "NumberOrderedForm.applyfunc")], timeout_ms=timeout_ms)


def unit_subs_doit_simplify(timeout_ms=10000):
    """_eval_subs(old, new): refused (ValueError) when old or new is one of the form's operators; otherwise the form on the same operators and powers whose coefficients are
    coeff.subs(old', new'), old' / new' being old / new with number operators replaced by the form's placeholders (so substituting a function of N acts on the stored coefficient);
    doit(**hints) = as_expr().doit(**hints);  _eval_simplify(**kw) = _linearize_binary_operators().applyfunc(sympy.simplify, **kw)."""
    def harness(eng):
        class Ident(T):
            """tokens compared by identity"""
            def m_binop(s, e, op, other, reflected):
                if isinstance(op, ast.Eq):
                    return other is s
                return super().m_binop(e, op, other, reflected)
        OP_A, OP_B = Ident("op_a"), Ident("op_b")
        OPS = STup([OP_A, OP_B])
        N2P = T("number->placeholder")

        class Coef(Ident):
            def m_getattr(s, e, name):
                if name == "subs":
                    return Builtin("subs", lambda e_, o, n: Coef("subs", s, o, n))
                if name == "xreplace":
                    return Builtin("xreplace", lambda e_, m: Coef("xreplace", s, m))
                return super().m_getattr(e, name)
        c = [Coef("c0"), Coef("c1")]
        pws = [STup([1, 0]), STup([0, -2])]
        terms = STup([STup([p, x]) for p, x in zip(pws, c)])
        built, lin, asx = [], [], []

        class Self(Model):
            def m_getattr(s, e, name):
                if name == "args":
                    return STup([OPS, terms])
                if name == "operators":
                    return OPS
                if name == "_number_operator_to_placeholder":
                    return N2P
                if name == "as_expr":
                    def as_expr(e_):
                        x = T("as_expr(self)")
                        x.m_getattr = lambda e2, nm: Builtin("doit", lambda e3, **h: T("doit", x, *[T("hint", T(k), v) for k, v in sorted(h.items())])) if nm == "doit" else None
                        asx.append(x)
                        return x
                    return Builtin("as_expr", as_expr)
                if name == "_linearize_binary_operators":
                    def linz(e_):
                        y = T("linearized(self)")
                        y.m_getattr = lambda e2, nm: Builtin("applyfunc", lambda e3, f, *a, **k: T("applyfunc", y, f, *a, *[T("kw", T(n), v) for n, v in sorted(k.items())])) if nm == "applyfunc" else None
                        lin.append(y)
                        return y
                    return Builtin("_linearize_binary_operators", linz)
                raise Unsupported(f"self.{name}")

        def cls_call(e, o, t, validate=True):
            built.append((o, t, validate))
            return T("new-form")
        SIMPLIFY = T("sympy.simplify")
        eng.globals.update({"type": Builtin("type", lambda e, x: Builtin("cls", cls_call)), "Tuple": Builtin("Tuple", lambda e, *a: STup(list(a))),
                            "sympy": Namespace("sympy", {"simplify": SIMPLIFY})})
        me = Self()
        sub = frontend.find(MODULE, "NumberOrderedForm._eval_subs")
        for old, new, label in ((OP_A, Coef("y"), "old-is-an-operator"), (Coef("x"), OP_B, "new-is-an-operator")):
            try:
                eng.call(Closure(sub, Env(None, {}), "_eval_subs"), [me, old, new], {})
                raised = None
            except PyRaise as pr:
                raised = pr.exc.cls
            eng.oblige(f"subs:{label}:ValueError", z3.BoolVal(raised == "ValueError"))
        old, new = Coef("x"), Coef("y")
        res = eng.call(Closure(sub, Env(None, {}), "_eval_subs"), [me, old, new], {})
        ok = len(built) == 1 and built[0][0] is OPS and built[0][2] is False and isinstance(res, T) and res.head == "new-form"
        eng.oblige("subs:one-form-on-the-same-operators-without-revalidation", z3.BoolVal(ok))
        if ok:
            tt = eng.as_seq(built[0][1]).items
            good = len(tt) == 2
            for k_, t_ in enumerate(tt if good else []):
                p_, cf = eng.as_seq(t_).items
                good = good and p_ is pws[k_] and isinstance(cf, Coef) and cf.head == "subs" and cf.args[0] is c[k_] \
                    and all(isinstance(a, Coef) and a.head == "xreplace" and a.args[0] is b and a.args[1] is N2P for a, b in zip(cf.args[1:], (old, new)))
            eng.oblige("subs:every-coefficient-is-coeff.subs(old', new')-with-number-operators-replaced-by-placeholders;-powers-unchanged", z3.BoolVal(bool(good)))
        d = eng.call(Closure(frontend.find(MODULE, "NumberOrderedForm.doit"), Env(None, {}), "doit"), [me], {"deep": True})
        eng.oblige("doit:as_expr().doit(**hints)", z3.BoolVal(len(asx) == 1 and isinstance(d, T) and d.head == "doit" and d.args[0] is asx[0] and len(d.args) == 2 and d.args[1].args[1] is True))
        s_ = eng.call(Closure(frontend.find(MODULE, "NumberOrderedForm._eval_simplify"), Env(None, {}), "_eval_simplify"), [me], {"ratio": 2})
        eng.oblige("simplify:_linearize_binary_operators().applyfunc(sympy.simplify, **kwargs)",
                   z3.BoolVal(len(lin) == 1 and isinstance(s_, T) and s_.head == "applyfunc" and s_.args[0] is lin[0] and s_.args[1] is SIMPLIFY and len(s_.args) == 3 and s_.args[2].args[1] == 2))
    return run_unit("number_ordered_form:_eval_subs/doit/_eval_simplify", harness,
                    functions=[(MODULE, "NumberOrderedForm._eval_subs"), (MODULE, "NumberOrderedForm.doit"), (MODULE, "NumberOrderedForm._eval_simplify")], timeout_ms=timeout_ms)


def unit_poly_simplify(timeout_ms=10000):
    """NumberOrderedForm._poly_simplify (used on the second-quantized solver's result, C07 / C08): a form on the SAME operators and power tuples, built without
    re-validation; a coefficient is either kept as it is (constant; sympy finds no generators; every generator is a number-operator placeholder) or it is
    Poly.from_dict({m: g(c_m)}, gens=G, domain=EXRAW).as_expr() where {m: c_m} = poly(coeff, gens=G, domain=EXRAW).as_dict() - decomposition and reconstruction over the SAME
    generators G (= the non-placeholder generators sympy found, in sympy's order) and the same domain, the same monomials, g(c) = collect_const(simplify(c)).doit().  With the
    assumed sympy contracts (A-SY2: as_dict / from_dict are inverse for equal gens and domain; simplify, collect_const, doit preserve the value) this is value preservation.
    A form without operators is returned itself."""
    node = frontend.find(MODULE, "NumberOrderedForm._poly_simplify")

    def harness(eng):
        class Ident(T):
            def m_binop(s, e, op, other, reflected):
                if isinstance(op, ast.Eq):
                    return other is s
                return super().m_binop(e, op, other, reflected)
        N0, N1, X, Y = Ident("n0"), Ident("n1"), Ident("x"), Ident("y")
        EXRAW = Ident("EXRAW")
        DEFAULT_GENS = {"c2": [N1, N0], "c3": [N0, X, N1, Y]}
        MONOS = [STup([1, 0]), STup([0, 2]), STup([0, 0])]

        class Coef(Ident):
            def m_getattr(s, e, name):
                if name == "free_symbols":
                    return STup([], None, True) if s.head == "c0" else STup([N0], None, True)
                if name == "doit":
                    return Builtin("doit", lambda e_, **h: Coef("doit", s))
                return super().m_getattr(e, name)
        c = [Coef("c0"), Coef("c1"), Coef("c2"), Coef("c3")]
        pws = [STup([1, 0]), STup([0, -1]), STup([0, 0]), STup([2, 1])]
        polys, rebuilt = [], []

        class PolyObj(Model):
            def __init__(s, coeff, gens, domain):
                s.coeff, s.gens, s.domain = coeff, gens, domain
                s.parts = [Coef(f"part{i}", coeff) for i in range(len(MONOS))]

            def m_getattr(s, e, name):
                if name == "gens":
                    return STup(list(s.gens))
                if name == "as_dict":
                    items = STup([STup([m, p]) for m, p in zip(MONOS, s.parts)])
                    d = Namespace("dict", {"items": Builtin("items", lambda e_: items)})
                    return Builtin("as_dict", lambda e_: d)
                raise Unsupported(f"poly.{name}")

        def poly(e, coeff, gens=None, domain=None):
            if gens is None:
                if coeff.head == "c1":
                    raise PyRaise(SExc("GeneratorsNeeded"))
                g = DEFAULT_GENS[coeff.head]
            else:
                g = list(e.as_seq(gens).items)
            p = PolyObj(coeff, g, domain)
            polys.append(p)
            return p

        def from_dict(e, d, gens=None, domain=None):
            r = {"dict": d, "gens": gens, "domain": domain, "poly": polys[-1] if polys else None}
            rebuilt.append(r)
            out = Coef("rebuilt")
            r["expr"] = out
            return Namespace("Poly", {"as_expr": Builtin("as_expr", lambda e_: out)})

        class Placeholders(Model):
            def m_contains(s, e, item):
                return item is N0 or item is N1

        def make_self(ops):
            class Self(Model):
                def m_getattr(s, e, name):
                    if name == "args":
                        return STup([ops, STup([STup([p, x]) for p, x in zip(pws, c)])])
                    if name == "operators":
                        return ops
                    if name == "_number_operator_placeholders":
                        return Placeholders()
                    raise Unsupported(f"self.{name}")
            return Self()
        built = []

        def cls_call(e, o, t, validate=True):
            built.append((o, t, validate))
            return T("new-form")
        GN = TypeObj("GeneratorsNeeded")
        sym = Namespace("sympy", {
            "poly": Builtin("poly", poly), "EXRAW": EXRAW,
            "Poly": Namespace("Poly", {"from_dict": Builtin("from_dict", from_dict)}),
            "simplify": Builtin("simplify", lambda e, x: Coef("simplify", x)),
            "collect_const": Builtin("collect_const", lambda e, x: Coef("collect_const", x)),
            "polys": Namespace("polys", {"polyerrors": Namespace("polyerrors", {"GeneratorsNeeded": GN})})})
        eng.globals.update({"sympy": sym, "type": Builtin("type", lambda e, x: Builtin("cls", cls_call))})

        # a form without operators is returned itself
        empty = make_self(STup([], None, True))
        r0 = eng.call(Closure(node, Env(None, {}), "_poly_simplify"), [empty], {})
        eng.oblige("no-operators:self-returned-unchanged", z3.BoolVal(r0 is empty and not built and not polys))
        built.clear(); polys.clear(); rebuilt.clear()

        OPS = STup([Ident("op0"), Ident("op1")], None, True)
        me = make_self(OPS)
        res = eng.call(Closure(node, Env(None, {}), "_poly_simplify"), [me], {})
        ok = len(built) == 1 and isinstance(res, T) and res.head == "new-form" and built[0][0] is OPS and built[0][2] is False and isinstance(built[0][1], dict)
        eng.oblige("one-form-on-the-same-operators-built-without-revalidation", z3.BoolVal(bool(ok)))
        if not ok:
            return
        d = built[0][1]
        want_keys = [(1, 0), (0, -1), (0, 0), (2, 1)]
        eng.oblige("same-power-tuples", z3.BoolVal(sorted(d) == sorted(want_keys)), detail=repr(sorted(d)))
        for k_, x, why in zip(want_keys[:3], c[:3], ("constant", "no-generators", "only-number-generators")):
            eng.oblige(f"{why}-coefficient-kept-as-it-is", z3.BoolVal(d.get(k_) is x), detail=repr(d.get(k_)))
        eng.oblige("exactly-one-coefficient-rebuilt", z3.BoolVal(len(rebuilt) == 1), detail=str(len(rebuilt)))
        if len(rebuilt) != 1:
            return
        r = rebuilt[0]
        eng.oblige("mixed-coefficient-is-the-rebuilt-polynomial", z3.BoolVal(d.get((2, 1)) is r["expr"]), detail=repr(d.get((2, 1))))
        p = r["poly"]
        gens_r = list(eng.as_seq(r["gens"]).items) if r["gens"] is not None else None
        eng.oblige("decomposed-the-same-coefficient-over-the-non-number-generators-in-sympy-order",
                   z3.BoolVal(p is not None and p.coeff is c[3] and len(p.gens) == 2 and p.gens[0] is X and p.gens[1] is Y), detail=repr(p and p.gens))
        eng.oblige("rebuilt-over-the-same-generators-as-decomposed",
                   z3.BoolVal(p is not None and gens_r is not None and len(gens_r) == len(p.gens) and all(a is b for a, b in zip(gens_r, p.gens))), detail=repr(gens_r))
        eng.oblige("both-in-the-EXRAW-domain(no expansion of (n+1)**k)", z3.BoolVal(p is not None and p.domain is EXRAW and r["domain"] is EXRAW))
        dd = r["dict"]
        keys_ok = isinstance(dd, dict) and sorted(dd) == sorted([(1, 0), (0, 2), (0, 0)])
        eng.oblige("same-monomials", z3.BoolVal(bool(keys_ok)), detail=repr(dd))
        if keys_ok and p is not None:
            for m, part in zip([(1, 0), (0, 2), (0, 0)], p.parts):
                v = dd[m]
                good = isinstance(v, T) and v.head == "doit" and v.args[0].head == "collect_const" and v.args[0].args[0].head == "simplify" and v.args[0].args[0].args[0] is part
                eng.oblige(f"monomial-{m}-coefficient-is-collect_const(simplify(its own coefficient)).doit()", z3.BoolVal(bool(good)), detail=repr(v))
    return run_unit("number_ordered_form:_poly_simplify", harness, functions=[(MODULE, "NumberOrderedForm._poly_simplify")], timeout_ms=timeout_ms)
