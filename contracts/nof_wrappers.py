"""Contracts for the thin arithmetic wrappers of NumberOrderedForm (C08: "sum, difference, product, ... denote the same operator"):
    __sub__, __radd__, __rmul__, __truediv__  reduce to __add__, __neg__, __mul__, __pow__ (each under its own contract in contracts/nof.py) -
what has to be proved here is WHICH of those operations they call, on which operands and in which ORDER (the algebra is non-commutative:
`c * x` must convert c and multiply from the left, `x / y` must multiply by the inverse from the right), and what happens when the other
operand cannot be converted (NotImplemented, so that Python tries the reflected operation / raises TypeError instead of a wrong value).
is_particle_conserving: True iff every power of every term vanishes (the precondition of the second-quantized solver, C07 / C16 / C20).

Values are elements of a free term algebra over {self, other}: conv(x) = from_expr(sympify(x)), neg, sum, prod, pow.  The callee contracts used are
exactly the postconditions of the units of contracts/nof.py (sum / product / negation / power denote the sum / product / negative / power).
"""
from __future__ import annotations

import ast

import z3

from pyvc import frontend
from pyvc.core import Closure, Env, STup, SI, SB, SExc, Model, Builtin, Namespace, TypeObj, PyRaise, Unsupported, zi
from pyvc.unit import run_unit
from contracts.formats import T
from contracts.direct import term_eq_py

MODULE = "number_ordered_form"


class Nof(T):
    """abstract NumberOrderedForm value; arithmetic builds terms"""

    def m_isinstance(self, eng, clsname):
        return clsname in ("NumberOrderedForm", "Expr", "Basic")

    def m_binop(self, eng, op, other, reflected):
        l, r = (other, self) if reflected else (self, other)
        if not isinstance(other, Nof):
            return NotImplemented
        if isinstance(op, ast.Add):
            return Nof("sum", l, r)
        if isinstance(op, ast.Mult):
            return Nof("prod", l, r)
        return NotImplemented

    def m_unop(self, eng, op):
        if isinstance(op, ast.USub):
            return Nof("neg", self)
        raise Unsupported("unary operator on a form")

    def m_getattr(self, eng, name):
        if name == "__add__":
            return Builtin("__add__", lambda e, o: Nof("sum", self, o) if isinstance(o, Nof) else Nof("sum", self, Nof("conv", o)))
        if name == "__mul__":
            return Builtin("__mul__", lambda e, o: Nof("prod", self, o) if isinstance(o, Nof) else Nof("prod", self, Nof("conv", o)))
        if name == "__neg__":
            return Builtin("__neg__", lambda e: Nof("neg", self))
        raise Unsupported(f"form.{name}")


def unit_wrapper(method, other_kind, timeout_ms=10000):
    """method: __sub__ | __radd__ | __rmul__ | __truediv__;  other_kind: nof | convertible | inconvertible"""
    node = frontend.find(MODULE, f"NumberOrderedForm.{method}")

    def harness(eng):
        me = Nof("self")
        raw = T("other_object")
        other = Nof("other") if other_kind == "nof" else raw
        conv_calls = []

        def from_expr(e, x, operators=None):
            conv_calls.append(x)
            if other_kind == "inconvertible":
                raise PyRaise(SExc("SympifyError", ("cannot convert",), flags={"is_Exception": z3.BoolVal(True)}))
            return x if isinstance(x, Nof) else Nof("conv", x)     # from_expr of a form is that form (denotation unchanged)

        class OneT(T):
            def m_unop(s, e, op):
                if isinstance(op, ast.USub):
                    return T("minus_one")
                raise Unsupported("unary")
        One = OneT("One")

        class NofCls(TypeObj):
            def m_getattr(s, e, name):
                if name == "from_expr":
                    return Builtin("from_expr", from_expr)
                raise Unsupported(f"NumberOrderedForm.{name}")
        # `x ** y` on forms
        orig_binop = Nof.m_binop

        def binop(self, e, op, o, reflected):
            if isinstance(op, ast.Pow) and not reflected:
                return Nof("pow", self, o)
            return orig_binop(self, e, op, o, reflected)
        Nof.m_binop = binop
        eng.globals.update({"NumberOrderedForm": NofCls("NumberOrderedForm"), "sympy": Namespace("sympy", {"sympify": Builtin("sympify", lambda e, x: x)}),
                            "One": One, "NotImplemented": T("NotImplemented"), "Exception": TypeObj("Exception")})
        NI = eng.globals["NotImplemented"]
        try:
            res = eng.call(Closure(node, Env(None, {}), method), [me, other], {})
        finally:
            Nof.m_binop = orig_binop
        y = other if other_kind == "nof" else Nof("conv", raw)
        if other_kind == "inconvertible" and method != "__radd__":
            eng.oblige("inconvertible-operand-gives-NotImplemented", z3.BoolVal(res is NI),
                       detail="so that Python tries the reflected operation or raises TypeError; never a value")
            return
        want = {"__sub__": Nof("sum", me, Nof("neg", y)),
                "__radd__": Nof("sum", me, y),                               # addition of operators is commutative: other + self = self + other
                "__rmul__": Nof("prod", y, me),                              # other * self: the converted operand on the LEFT
                "__truediv__": Nof("prod", me, Nof("pow", y, T("minus_one")))}[method]   # self * other^(-1): the inverse on the RIGHT
        eng.oblige(f"{method}:denotes-" + {"__sub__": "self-plus-the-negated-operand", "__radd__": "the-sum", "__rmul__": "operand-times-self-in-this-order",
                                           "__truediv__": "self-times-the-inverse-operand-in-this-order"}[method],
                   z3.BoolVal(isinstance(res, T) and term_eq_py(res, want)), detail=f"got {res!r}, want {want!r}")
        if other_kind == "nof":
            eng.oblige("a-form-is-converted-at-most-to-itself", z3.BoolVal(all(c is other for c in conv_calls)), detail=repr(conv_calls))
        else:
            eng.oblige("the-operand-itself-is-what-is-converted", z3.BoolVal(all(c is raw or c is other for c in conv_calls)), detail=repr(conv_calls))
    r = run_unit(f"number_ordered_form:{method}[other={other_kind}]", harness, functions=[(MODULE, f"NumberOrderedForm.{method}")], timeout_ms=timeout_ms)
    r.used_models.add("callee contracts: __add__, __neg__, __mul__, __pow__ denote sum, negative, product, power (units of contracts/nof.py); from_expr denotes its argument")
    return r


def unit_is_particle_conserving(nterms, nmodes, timeout_ms=10000):
    """True iff every power of every term is zero (nterms, nmodes concrete; the powers symbolic integers)."""
    node = frontend.find(MODULE, "NumberOrderedForm.is_particle_conserving")

    def harness(eng):
        pw = [[eng.fresh(f"p{t}_{j}") for j in range(nmodes)] for t in range(nterms)]
        terms = STup([STup([STup([SI(x) for x in row]), T(f"coeff{t}")]) for t, row in enumerate(pw)], None, True)

        class Self(Model):
            def m_getattr(s, e, name):
                if name == "args":
                    return STup([T("operators"), terms])
                raise Unsupported(f"self.{name}")
        res = eng.call(Closure(node, Env(None, {}), "is_particle_conserving"), [Self()], {})
        rz = res.e if isinstance(res, SB) else z3.BoolVal(bool(res))
        allzero = z3.And(*[x == 0 for row in pw for x in row]) if nterms and nmodes else z3.BoolVal(True)
        eng.oblige("true-iff-every-power-of-every-term-vanishes", rz == allzero)
    r = run_unit(f"number_ordered_form:is_particle_conserving[{nterms} terms,{nmodes} modes]", harness,
                 functions=[(MODULE, "NumberOrderedForm.is_particle_conserving")], timeout_ms=timeout_ms)
    r.bounded.append(f"{nterms} terms over {nmodes} modes (powers symbolic)")
    return r
