"""C12, definition-time clause: defining a block diagonalization evaluates Hamiltonian terms only at
the zeroth order.  For the functions that run at definition time, every subscript of a
series-typed variable that is executed outside nested function definitions must carry an index
whose order part is the zero tuple.  The series-typed variables are declared per function (the
contract's typing assumption); the index expressions are recognised structurally:

    Z   ::=  (0,) * <x>.n_infinite  |  (0,) * n_infinite  |  a name bound exactly once to a Z
    IDX ::=  Z  |  <tuple of block indices> + Z  |  (<block indices>..., *Z)  |  <name bound to block tuple> + Z
"""
from __future__ import annotations

import ast
import time

from pyvc import frontend
from pyvc.core import Obligation
from pyvc.unit import UnitResult

SERIES_VARS = {
    ("block_diagonalization", "block_diagonalize"): {"hamiltonian", "H", "H_orig"},
    ("block_diagonalization", "operator_to_BlockSeries"): {"operator"},
    ("block_diagonalization", "_unpack_blocks"): {"operator"},
    ("block_diagonalization", "_extract_diagonal"): {"operator"},
    ("algorithm_parsing", "series_computation"): {"series"},   # the comprehension variable bound to each input series
}


def _single_assignments(fn):
    counts, val = {}, {}
    for n in ast.walk(fn):
        if isinstance(n, ast.Assign) and len(n.targets) == 1 and isinstance(n.targets[0], ast.Name):
            k = n.targets[0].id
            counts[k] = counts.get(k, 0) + 1
            val[k] = n.value
        elif isinstance(n, ast.NamedExpr) and isinstance(n.target, ast.Name):
            k = n.target.id
            counts[k] = counts.get(k, 0) + 1
            val[k] = n.value
    return {k: v for k, v in val.items() if counts[k] == 1}


def _is_Z(e, env, depth=0):
    if depth > 6:
        return False
    if isinstance(e, ast.Name):
        return e.id in env and _is_Z(env[e.id], env, depth + 1)
    if isinstance(e, ast.BinOp) and isinstance(e.op, ast.Mult):
        l, r = e.left, e.right
        if isinstance(l, ast.Tuple) and len(l.elts) == 1 and isinstance(l.elts[0], ast.Constant) and l.elts[0].value == 0:
            if isinstance(r, ast.Attribute) and r.attr == "n_infinite":
                return True
            if isinstance(r, ast.Name) and r.id == "n_infinite":
                return True
    return False


def _is_zero_index(e, env, depth=0):
    if _is_Z(e, env):
        return True
    if isinstance(e, ast.BinOp) and isinstance(e.op, ast.Add):
        return _is_Z(e.right, env) and not _mentions_order(e.left)
    if isinstance(e, ast.Tuple) and e.elts and isinstance(e.elts[-1], ast.Starred):
        return _is_Z(e.elts[-1].value, env) and not any(isinstance(x, ast.Starred) for x in e.elts[:-1])
    if isinstance(e, ast.Name) and e.id in env and depth < 4:
        return _is_zero_index(env[e.id], env, depth + 1)
    return False


def _mentions_order(e):
    return False


def _outside_nested(fn):
    """Yield nodes of fn that are not inside nested function definitions / lambdas."""
    stack = list(fn.body)
    while stack:
        n = stack.pop()
        if isinstance(n, (ast.FunctionDef, ast.Lambda, ast.AsyncFunctionDef)):
            continue
        yield n
        stack.extend(ast.iter_child_nodes(n))


def unit_definition_time():
    res = UnitResult("definition-time:series reads are zeroth-order")
    t0 = time.time()
    try:
        for (module, qp), names in SERIES_VARS.items():
            fn = frontend.find(module, qp)
            res.functions.append(frontend.describe(module, qp))
            env = _single_assignments(fn)
            nsub = 0
            for n in _outside_nested(fn):
                if isinstance(n, ast.Subscript) and isinstance(n.value, ast.Name) and n.value.id in names and isinstance(n.ctx, ast.Load):
                    # in series_computation `series[...]` is also a dict lookup by name (string key): skip constant-string / name keys
                    if module == "algorithm_parsing" and not _looks_like_index(n.slice):
                        continue
                    nsub += 1
                    ok = _is_zero_index(n.slice, env)
                    res.obligations.append(Obligation(
                        f"definition-time/{module}:{qp}/L{n.lineno}:zeroth-order-read", "syntactic", "proved" if ok else "refuted",
                        f"{ast.unparse(n)} -- index must have the zero tuple as its order part", None, 0.0, "structural", None))
                if isinstance(n, ast.Call) and isinstance(n.func, ast.Attribute) and n.func.attr == "eval" and isinstance(n.func.value, ast.Name) and n.func.value.id in names:
                    res.obligations.append(Obligation(f"definition-time/{module}:{qp}/L{n.lineno}:no-direct-eval", "syntactic", "refuted",
                                                      f"{ast.unparse(n)} -- evaluator called at definition time", None, 0.0, "structural", None))
            res.obligations.append(Obligation(f"definition-time/{module}:{qp}:reads-found", "cover", "proved" if nsub or qp in ("_dict_to_BlockSeries",) else "refuted",
                                              f"{nsub} definition-time series reads recognised (vacuity guard)", None, 0.0, "structural", None))
        res.paths = 1
    except Exception as e:
        res.engine_error = f"{type(e).__name__}: {e}"
    res.wall = time.time() - t0
    res.used_models.add("typing assumption: the variables listed in contracts/definition_time.py:SERIES_VARS are the BlockSeries-typed names of those functions")
    return res


def _looks_like_index(sl):
    return isinstance(sl, (ast.BinOp, ast.Tuple)) or (isinstance(sl, ast.Name) and sl.id not in ("name", "term"))
