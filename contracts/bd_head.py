"""Contract for the HEAD of block_diagonalize: everything from the entry up to the call of operator_to_BlockSeries, i.e. the wiring between the
format converters, the eigenvector normalisation, the (bi)orthonormality check and the construction of the implicit-mode solvers - each of which is under
its own contract (contracts/formats.py, bd_guards.py, direct.py, kpm.py).  What is proved here is the wiring itself (C05, C06, C14, C20):

  * the Hamiltonian that reaches operator_to_BlockSeries is _unpack_blocks(_to_scalar_BlockSeries(hamiltonian, symbols, atol, check_hermitian=hermitian), atol);
  * supplied eigenvectors are normalised once and _check_biorthonormality is called on exactly that result with the caller's atol - on every path that goes on;
  * (R, L) pairs are rejected in Hermitian mode; a custom solver together with fully_diagonalize is rejected;
  * implicit mode iff the supplied vectors do not span the space; then: block-shaped input, symbolic H_0, non-Hermitian KPM, mismatching sizes and non-array vectors
    are rejected with the listed exception classes BEFORE any solver is built; the direct solver gets h_0, the eigenvectors AS SUPPLIED (pairs kept), nonhermitian = not
    hermitian, only its own option keys, and eigenvalue_atol = atol unless the caller chose a tolerance; the KPM solver gets h_0, the normalised right vectors and the
    caller's options; a caller-supplied solver is kept;
  * operator_to_BlockSeries receives that Hamiltonian with name "H", the caller's subspace designation, implicit = (implicit mode), symbols, atol, hermitian.

The function is executed symbolically from its first statement; the model of operator_to_BlockSeries records its arguments and stops the execution.
"""
from __future__ import annotations

import z3

from pyvc import frontend
from pyvc.core import Closure, Env, STup, SI, SB, Model, Builtin, Namespace, TypeObj, PyRaise, Unsupported, zi
from pyvc.unit import run_unit
from contracts.formats import T, Val
from contracts.direct import term_eq_py

MODULE = "block_diagonalization"


class _Stop(Exception):
    pass


def unit_bd_head(vectors="none", hermitian=True, solver="none", direct=True, h_shape="scalar", h0_kind="ndarray", vec_kind="ndarray",
                 options="none", fully=False, timeout_ms=20000):
    """vectors: none | full | partial | pairs-full | pairs-partial (what subspace_eigenvectors is; `partial` = fewer vectors than dimensions, decided symbolically);
    solver: none | custom;  h_shape: scalar | blocks (shape of the converted Hamiltonian);  h0_kind: ndarray | sparse | sympy;  vec_kind: ndarray | sparse;
    options: none | tolerance | foreign (solver_options: absent / {'eigenvalue_atol': t, 'ordering': o} / {'num_moments': m, 'atol': a})"""
    node = frontend.find(MODULE, "block_diagonalize")
    pairs = vectors.startswith("pairs")

    def harness(eng):
        HAM, SYMS, ATOL, IDX = T("hamiltonian"), T("symbols"), T("atol"), T("subspace_indices")
        log = {"biorth": [], "norm": [], "direct": [], "kpm": [], "otb": []}
        nsub = 2
        dim = eng.fresh("dimension")
        ncols = [eng.fresh(f"ncols{b}") for b in range(nsub)]
        eng.assume(z3.And(dim >= 1, *[c >= 1 for c in ncols], sum(ncols) <= dim))
        rows_h0 = eng.fresh("rows_of_h0")
        eng.assume(rows_h0 >= 1)

        class Vec(Val):
            def __init__(s, name, b):
                super().__init__(name, ("ndarray",) if vec_kind == "ndarray" else ("sparray",))
                s.b = b

            def m_getattr(s, e, name):
                if name == "shape":
                    return STup([SI(dim), SI(ncols[s.b])])
                return super().m_getattr(e, name)
        R = [Vec(f"R{b}", b) for b in range(nsub)]
        L = [Vec(f"L{b}", b) for b in range(nsub)]
        if vectors == "none":
            supplied = None
        elif pairs:
            supplied = STup([STup([R[b], L[b]]) for b in range(nsub)], None, True)       # a list of (right, left) pairs
        else:
            supplied = STup(list(R), None, True)
        if vectors.endswith("full"):
            eng.assume(sum(ncols) == dim)
        elif vectors.endswith("partial"):
            eng.assume(sum(ncols) < dim)

        class H0(Val):
            def m_getattr(s, e, name):
                if name == "shape":
                    return STup([SI(rows_h0), SI(rows_h0)])
                return super().m_getattr(e, name)
        h0 = H0("h_0", {"ndarray": ("ndarray",), "sparse": ("sparray",), "sympy": ("MatrixBase",)}[h0_kind])

        class Series(Model):
            """the converted Hamiltonian"""
            def m_getattr(s, e, name):
                if name == "shape":
                    return STup([]) if h_shape == "scalar" else STup([2, 2])
                if name == "n_infinite":
                    return 1
                raise Unsupported(f"series.{name}")

            def m_getitem(s, e, key):
                k = e.as_seq(key)
                log.setdefault("h0_reads", []).append(k)
                return h0
        series = Series()

        def to_scalar(e, ham, symbols=None, atol=None, check_hermitian=None):
            log["to_scalar"] = (ham, symbols, atol, check_hermitian)
            return T("scalar_series")

        def unpack(e, ser, atol=None):
            log["unpack"] = (ser, atol)
            return series

        def normalize(e, subs):
            log["norm"].append(subs)
            return STup([STup(list(R), None, False), STup(list(L) if pairs else list(R), None, False)])

        def biorth(e, r, l, atol=None):
            log["biorth"].append((r, l, atol))

        def s_direct(e, h, vecs, **kw):
            log["direct"].append((h, vecs, kw))
            return T("direct_solver")

        def s_kpm(e, h, vecs, solver_options=None):
            log["kpm"].append((h, vecs, solver_options))
            return T("kpm_solver")

        def otb(e, ham, **kw):
            log["otb"].append((ham, kw))
            raise _Stop()
        CUSTOM = T("custom_solver")
        opts = {"none": None, "tolerance": {"eigenvalue_atol": T("user_tol"), "ordering": T("ordering")}, "foreign": {"num_moments": T("moments"), "atol": T("kpm_atol")}}[options]
        eng.globals.update({
            "_to_scalar_BlockSeries": Builtin("_to_scalar_BlockSeries", to_scalar), "_unpack_blocks": Builtin("_unpack_blocks", unpack),
            "_normalize_subspace_eigenvectors": Builtin("_normalize_subspace_eigenvectors", normalize), "_check_biorthonormality": Builtin("_check_biorthonormality", biorth),
            "solve_sylvester_direct": Builtin("solve_sylvester_direct", s_direct), "solve_sylvester_KPM": Builtin("solve_sylvester_KPM", s_kpm),
            "operator_to_BlockSeries": Builtin("operator_to_BlockSeries", otb), "main": T("main"), "nonhermitian": T("nonhermitian"),
            "sympy": Namespace("sympy", {"Symbol": TypeObj("Symbol"), "MatrixBase": TypeObj("MatrixBase"), "Expr": TypeObj("Expr")}),
            "np": Namespace("np", {"ndarray": TypeObj("ndarray")}),
        })
        kwargs = {"subspace_eigenvectors": supplied, "subspace_indices": (IDX if vectors == "none" else None), "solve_sylvester": (CUSTOM if solver == "custom" else None),
                  "solver_options": opts, "direct_solver": direct, "symbols": SYMS, "atol": ATOL, "hermitian": hermitian,
                  "fully_diagonalize": (STup([0]) if fully else None)}
        raised = None
        try:
            eng.call(Closure(node, Env(None, {}), "block_diagonalize"), [HAM], kwargs)
            eng.oblige("head-reaches-operator_to_BlockSeries-or-raises", False, detail="the function returned before converting the Hamiltonian")
            return
        except _Stop:
            pass
        except PyRaise as pr:
            raised = pr.exc.cls
        implicit = z3.BoolVal(False) if vectors == "none" else (sum(ncols) < dim)
        impl = eng.branch(implicit) if vectors != "none" else False
        # ---- expected rejections, in the order of the documentation ----------------------------------------------------
        expect = None
        if solver == "custom" and fully:
            expect = "NotImplementedError"
        elif hermitian and pairs:
            expect = "ValueError"
        elif impl:
            if h_shape != "scalar":
                expect = "ValueError"
            elif h0_kind == "sympy":
                expect = "ValueError"
            elif not hermitian and solver == "none" and not direct:
                expect = "NotImplementedError"
            elif not eng.valid(rows_h0 == dim):
                if eng.branch(rows_h0 != dim):
                    expect = "ValueError"
            if expect is None and solver == "none":
                if vec_kind != "ndarray":
                    expect = "TypeError"
                elif not direct and pairs:
                    expect = "NotImplementedError"
        eng.oblige("raises-exactly-when-the-combination-is-unsupported", z3.BoolVal(raised == expect), detail=f"raised {raised}, expected {expect}")
        if raised is not None or expect is not None:
            if raised is not None:
                eng.oblige("no-solver-is-built-for-a-rejected-input", z3.BoolVal(not log["direct"] and not log["kpm"]))
            return
        # ---- conversions ----------------------------------------------------------------------------------------------
        ts, up = log.get("to_scalar"), log.get("unpack")
        eng.oblige("hamiltonian-converted-with-the-callers-symbols-atol-and-hermiticity-check",
                   z3.BoolVal(ts is not None and ts[0] is HAM and ts[1] is SYMS and ts[2] is ATOL and ts[3] is hermitian), detail=repr(ts))
        eng.oblige("blocks-unpacked-from-the-converted-series-with-atol", z3.BoolVal(up is not None and isinstance(up[0], T) and up[0].head == "scalar_series" and up[1] is ATOL), detail=repr(up))
        # ---- eigenvectors ---------------------------------------------------------------------------------------------
        if vectors == "none":
            eng.oblige("no-eigenvectors-nothing-to-check", z3.BoolVal(not log["biorth"] and not log["norm"]))
        else:
            okn = len(log["norm"]) == 1 and [*eng.as_seq(log["norm"][0]).items] == [*supplied.items]
            eng.oblige("eigenvectors-normalised-once-as-supplied", z3.BoolVal(okn), detail=repr(log["norm"])[:200])
            okb = len(log["biorth"]) == 1
            if okb:
                r, l, a = log["biorth"][0]
                okb = [*eng.as_seq(r).items] == R and [*eng.as_seq(l).items] == (L if pairs else R) and a is ATOL
            eng.oblige("biorthonormality-of-the-normalised-vectors-checked-with-the-callers-atol", z3.BoolVal(okb), detail=repr(log["biorth"])[:300])
        # ---- solvers --------------------------------------------------------------------------------------------------
        otb_calls = log["otb"]
        eng.oblige("operator_to_BlockSeries-called-once", z3.BoolVal(len(otb_calls) == 1))
        if len(otb_calls) != 1:
            return
        ham, kw = otb_calls[0]
        if not impl or solver == "custom":
            eng.oblige("no-implicit-solver-is-built-outside-implicit-mode-or-next-to-a-custom-solver", z3.BoolVal(not log["direct"] and not log["kpm"]))
        elif direct:
            okd = len(log["direct"]) == 1 and not log["kpm"]
            eng.oblige("implicit-mode:direct-solver-built-once", z3.BoolVal(okd))
            if okd:
                h, vecs, dkw = log["direct"][0]
                eng.oblige("direct-solver:gets-h_0-of-order-zero", z3.BoolVal(h is h0 and len(log.get("h0_reads", [])) >= 1 and all(isinstance(x, int) and x == 0 for x in log["h0_reads"][0].items)))
                eng.oblige("direct-solver:gets-the-eigenvectors-as-supplied", z3.BoolVal([*eng.as_seq(vecs).items] == [*supplied.items]), detail="pairs (R, L) are passed on as pairs")
                eng.oblige("direct-solver:nonhermitian-flag-is-the-negated-hermitian", z3.BoolVal(dkw.get("nonhermitian") is (not hermitian)))
                rest = {k: v for k, v in dkw.items() if k != "nonhermitian"}
                if options == "tolerance":
                    want = {"eigenvalue_atol": opts["eigenvalue_atol"]}
                elif options == "foreign":
                    want = {"atol": opts["atol"]}
                else:
                    want = {"eigenvalue_atol": ATOL}
                eng.oblige("direct-solver:only-its-own-options-and-the-callers-atol-as-default-tolerance",
                           z3.BoolVal(set(rest) == set(want) and all(rest[k] is want[k] for k in want)), detail=f"got {rest!r}, want {want!r}")
        else:
            okk = len(log["kpm"]) == 1 and not log["direct"]
            eng.oblige("implicit-mode:KPM-solver-built-once", z3.BoolVal(okk))
            if okk:
                h, vecs, so = log["kpm"][0]
                eng.oblige("KPM-solver:gets-h_0-and-the-normalised-right-vectors", z3.BoolVal(h is h0 and [*eng.as_seq(vecs).items] == R))
                eng.oblige("KPM-solver:gets-the-callers-options", z3.BoolVal(isinstance(so, dict) and set(so) == set(opts or {}) and all(so[k] is (opts or {})[k] for k in so)), detail=repr(so))
        # ---- hand-over ------------------------------------------------------------------------------------------------
        eng.oblige("hand-over:the-unpacked-series", z3.BoolVal(ham is series))
        eng.oblige("hand-over:name-H", z3.BoolVal(kw.get("name") == "H"))
        se = kw.get("subspace_eigenvectors")
        eng.oblige("hand-over:subspace-designation-as-supplied",
                   z3.BoolVal((se is None if vectors == "none" else [*eng.as_seq(se).items] == [*supplied.items]) and kw.get("subspace_indices") is (IDX if vectors == "none" else None)))
        iv = kw.get("implicit")
        eng.oblige("hand-over:implicit-flag-iff-the-vectors-do-not-span-the-space", z3.BoolVal((iv is True or (isinstance(iv, SB) and eng.valid(iv.e))) if impl else (iv is False or (isinstance(iv, SB) and eng.valid(z3.Not(iv.e))))),
                   detail=repr(iv))
        eng.oblige("hand-over:symbols-atol-hermitian", z3.BoolVal(kw.get("symbols") is SYMS and kw.get("atol") is ATOL and kw.get("hermitian") is hermitian))
    label = f"vectors={vectors},hermitian={hermitian},solver={solver},direct={direct},H={h_shape},h_0={h0_kind},vecs={vec_kind},options={options},fully={fully}"
    r = run_unit(f"block_diagonalization:block_diagonalize[head;{label}]", harness, functions=[(MODULE, "block_diagonalize")], timeout_ms=timeout_ms)
    r.bounded.append("two supplied subspaces (their sizes and the dimension symbolic)")
    return r
