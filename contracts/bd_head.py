"""Contract for the HEAD of block_diagonalize: everything from the entry up to the call of operator_to_BlockSeries, i.e. the wiring between the
format converters, the eigenvector normalisation, the (bi)orthonormality check and the construction of the implicit-mode solvers - each of which is under
its own contract (contracts/formats.py, bd_guards.py, direct.py, kpm.py).  What is proved here is the wiring itself (C05, C06, C14, C20):

  * the Hamiltonian that reaches operator_to_BlockSeries is _unpack_blocks(_to_scalar_BlockSeries(hamiltonian, symbols, atol, check_hermitian=hermitian), atol);
  * supplied eigenvectors are normalised once and _check_biorthonormality is called on exactly that result with the caller's atol - on every path that goes on;
  * (R, L) pairs are rejected in Hermitian mode; a custom solver together with fully_diagonalize is rejected;
  * implicit mode iff the supplied vectors do not span the space; then: block-shaped input, symbolic H_0, non-Hermitian KPM, mismatching sizes and non-array vectors
    are rejected with the listed exception classes BEFORE any solver is built; the direct solver gets h_0, the eigenvectors AS SUPPLIED (pairs kept), nonhermitian = not
    hermitian, only its own option keys, and eigenvalue_atol = atol unless the caller chose a tolerance; the KPM solver gets h_0, the normalised right vectors and the
    caller's options; a caller-supplied solver is kept;
  * operator_to_BlockSeries receives that Hamiltonian with name "H", the caller's subspace designation, implicit = (implicit mode), symbols, atol, hermitian.

The function is executed symbolically from its first statement; the model of operator_to_BlockSeries records its arguments and stops the execution.
"""
from __future__ import annotations

import ast

import z3

from pyvc import frontend
from pyvc.core import Closure, Env, STup, SI, SB, Model, Builtin, Namespace, TypeObj, PyRaise, Unsupported, zi
from pyvc.unit import run_unit
from pyvc.models import ZERO
from contracts.formats import T, Val
from contracts.direct import term_eq_py

MODULE = "block_diagonalization"


class _Stop(Exception):
    pass


def unit_bd_head(vectors="none", hermitian=True, solver="none", direct=True, h_shape="scalar", h0_kind="ndarray", vec_kind="ndarray",
                 options="none", fully=False, timeout_ms=20000):
    """vectors: none | full | partial | pairs-full | pairs-partial (what subspace_eigenvectors is; `partial` = fewer vectors than dimensions, decided symbolically);
    solver: none | custom;  h_shape: scalar | blocks (shape of the converted Hamiltonian);  h0_kind: ndarray | sparse | sympy;  vec_kind: ndarray | sparse;
    options: none | tolerance | foreign (solver_options: absent / {'eigenvalue_atol': t, 'ordering': o} / {'num_moments': m, 'atol': a})"""
    node = frontend.find(MODULE, "block_diagonalize")
    pairs = vectors.startswith("pairs")

    def harness(eng):
        HAM, SYMS, ATOL, IDX = T("hamiltonian"), T("symbols"), T("atol"), T("subspace_indices")
        log = {"biorth": [], "norm": [], "direct": [], "kpm": [], "otb": []}
        nsub = 2
        dim = eng.fresh("dimension")
        ncols = [eng.fresh(f"ncols{b}") for b in range(nsub)]
        eng.assume(z3.And(dim >= 1, *[c >= 1 for c in ncols], sum(ncols) <= dim))
        rows_h0 = eng.fresh("rows_of_h0")
        eng.assume(rows_h0 >= 1)

        class Vec(Val):
            def __init__(s, name, b):
                super().__init__(name, ("ndarray",) if vec_kind == "ndarray" else ("sparray",))
                s.b = b

            def m_getattr(s, e, name):
                if name == "shape":
                    return STup([SI(dim), SI(ncols[s.b])])
                return super().m_getattr(e, name)
        R = [Vec(f"R{b}", b) for b in range(nsub)]
        L = [Vec(f"L{b}", b) for b in range(nsub)]
        if vectors == "none":
            supplied = None
        elif pairs:
            supplied = STup([STup([R[b], L[b]]) for b in range(nsub)], None, True)       # a list of (right, left) pairs
        else:
            supplied = STup(list(R), None, True)
        if vectors.endswith("full"):
            eng.assume(sum(ncols) == dim)
        elif vectors.endswith("partial"):
            eng.assume(sum(ncols) < dim)

        class H0(Val):
            def m_getattr(s, e, name):
                if name == "shape":
                    return STup([SI(rows_h0), SI(rows_h0)])
                return super().m_getattr(e, name)
        h0 = H0("h_0", {"ndarray": ("ndarray",), "sparse": ("sparray",), "sympy": ("MatrixBase",)}[h0_kind])

        class Series(Model):
            """the converted Hamiltonian"""
            def m_getattr(s, e, name):
                if name == "shape":
                    return STup([]) if h_shape == "scalar" else STup([2, 2])
                if name == "n_infinite":
                    return 1
                raise Unsupported(f"series.{name}")

            def m_getitem(s, e, key):
                k = e.as_seq(key)
                log.setdefault("h0_reads", []).append(k)
                return h0
        series = Series()

        def to_scalar(e, ham, symbols=None, atol=None, check_hermitian=None):
            log["to_scalar"] = (ham, symbols, atol, check_hermitian)
            return T("scalar_series")

        def unpack(e, ser, atol=None):
            log["unpack"] = (ser, atol)
            return series

        def normalize(e, subs):
            log["norm"].append(subs)
            return STup([STup(list(R), None, False), STup(list(L) if pairs else list(R), None, False)])

        def biorth(e, r, l, atol=None):
            log["biorth"].append((r, l, atol))

        def s_direct(e, h, vecs, **kw):
            log["direct"].append((h, vecs, kw))
            return T("direct_solver")

        def s_kpm(e, h, vecs, solver_options=None):
            log["kpm"].append((h, vecs, solver_options))
            return T("kpm_solver")

        def otb(e, ham, **kw):
            log["otb"].append((ham, kw))
            raise _Stop()
        CUSTOM = T("custom_solver")
        opts = {"none": None, "tolerance": {"eigenvalue_atol": T("user_tol"), "ordering": T("ordering")}, "foreign": {"num_moments": T("moments"), "atol": T("kpm_atol")}}[options]
        eng.globals.update({
            "_to_scalar_BlockSeries": Builtin("_to_scalar_BlockSeries", to_scalar), "_unpack_blocks": Builtin("_unpack_blocks", unpack),
            "_normalize_subspace_eigenvectors": Builtin("_normalize_subspace_eigenvectors", normalize), "_check_biorthonormality": Builtin("_check_biorthonormality", biorth),
            "solve_sylvester_direct": Builtin("solve_sylvester_direct", s_direct), "solve_sylvester_KPM": Builtin("solve_sylvester_KPM", s_kpm),
            "operator_to_BlockSeries": Builtin("operator_to_BlockSeries", otb), "main": T("main"), "nonhermitian": T("nonhermitian"),
            "sympy": Namespace("sympy", {"Symbol": TypeObj("Symbol"), "MatrixBase": TypeObj("MatrixBase"), "Expr": TypeObj("Expr")}),
            "np": Namespace("np", {"ndarray": TypeObj("ndarray")}),
        })
        kwargs = {"subspace_eigenvectors": supplied, "subspace_indices": (IDX if vectors == "none" else None), "solve_sylvester": (CUSTOM if solver == "custom" else None),
                  "solver_options": opts, "direct_solver": direct, "symbols": SYMS, "atol": ATOL, "hermitian": hermitian,
                  "fully_diagonalize": (STup([0]) if fully else None)}
        raised = None
        try:
            eng.call(Closure(node, Env(None, {}), "block_diagonalize"), [HAM], kwargs)
            eng.oblige("head-reaches-operator_to_BlockSeries-or-raises", False, detail="the function returned before converting the Hamiltonian")
            return
        except _Stop:
            pass
        except PyRaise as pr:
            raised = pr.exc.cls
        implicit = z3.BoolVal(False) if vectors == "none" else (sum(ncols) < dim)
        impl = eng.branch(implicit) if vectors != "none" else False
        # ---- expected rejections, in the order of the documentation ----------------------------------------------------
        expect = None
        if solver == "custom" and fully:
            expect = "NotImplementedError"
        elif hermitian and pairs:
            expect = "ValueError"
        elif impl:
            if h_shape != "scalar":
                expect = "ValueError"
            elif h0_kind == "sympy":
                expect = "ValueError"
            elif not hermitian and solver == "none" and not direct:
                expect = "NotImplementedError"
            elif not eng.valid(rows_h0 == dim):
                if eng.branch(rows_h0 != dim):
                    expect = "ValueError"
            if expect is None and solver == "none":
                if vec_kind != "ndarray":
                    expect = "TypeError"
                elif not direct and pairs:
                    expect = "NotImplementedError"
        eng.oblige("raises-exactly-when-the-combination-is-unsupported", z3.BoolVal(raised == expect), detail=f"raised {raised}, expected {expect}")
        if raised is not None or expect is not None:
            if raised is not None:
                eng.oblige("no-solver-is-built-for-a-rejected-input", z3.BoolVal(not log["direct"] and not log["kpm"]))
            return
        # ---- conversions ----------------------------------------------------------------------------------------------
        ts, up = log.get("to_scalar"), log.get("unpack")
        eng.oblige("hamiltonian-converted-with-the-callers-symbols-atol-and-hermiticity-check",
                   z3.BoolVal(ts is not None and ts[0] is HAM and ts[1] is SYMS and ts[2] is ATOL and ts[3] is hermitian), detail=repr(ts))
        eng.oblige("blocks-unpacked-from-the-converted-series-with-atol", z3.BoolVal(up is not None and isinstance(up[0], T) and up[0].head == "scalar_series" and up[1] is ATOL), detail=repr(up))
        # ---- eigenvectors ---------------------------------------------------------------------------------------------
        if vectors == "none":
            eng.oblige("no-eigenvectors-nothing-to-check", z3.BoolVal(not log["biorth"] and not log["norm"]))
        else:
            okn = len(log["norm"]) == 1 and [*eng.as_seq(log["norm"][0]).items] == [*supplied.items]
            eng.oblige("eigenvectors-normalised-once-as-supplied", z3.BoolVal(okn), detail=repr(log["norm"])[:200])
            okb = len(log["biorth"]) == 1
            if okb:
                r, l, a = log["biorth"][0]
                okb = [*eng.as_seq(r).items] == R and [*eng.as_seq(l).items] == (L if pairs else R) and a is ATOL
            eng.oblige("biorthonormality-of-the-normalised-vectors-checked-with-the-callers-atol", z3.BoolVal(okb), detail=repr(log["biorth"])[:300])
        # ---- solvers --------------------------------------------------------------------------------------------------
        otb_calls = log["otb"]
        eng.oblige("operator_to_BlockSeries-called-once", z3.BoolVal(len(otb_calls) == 1))
        if len(otb_calls) != 1:
            return
        ham, kw = otb_calls[0]
        if not impl or solver == "custom":
            eng.oblige("no-implicit-solver-is-built-outside-implicit-mode-or-next-to-a-custom-solver", z3.BoolVal(not log["direct"] and not log["kpm"]))
        elif direct:
            okd = len(log["direct"]) == 1 and not log["kpm"]
            eng.oblige("implicit-mode:direct-solver-built-once", z3.BoolVal(okd))
            if okd:
                h, vecs, dkw = log["direct"][0]
                eng.oblige("direct-solver:gets-h_0-of-order-zero", z3.BoolVal(h is h0 and len(log.get("h0_reads", [])) >= 1 and all(isinstance(x, int) and x == 0 for x in log["h0_reads"][0].items)))
                eng.oblige("direct-solver:gets-the-eigenvectors-as-supplied", z3.BoolVal([*eng.as_seq(vecs).items] == [*supplied.items]), detail="pairs (R, L) are passed on as pairs")
                eng.oblige("direct-solver:nonhermitian-flag-is-the-negated-hermitian", z3.BoolVal(dkw.get("nonhermitian") is (not hermitian)))
                rest = {k: v for k, v in dkw.items() if k != "nonhermitian"}
                if options == "tolerance":
                    want = {"eigenvalue_atol": opts["eigenvalue_atol"]}
                elif options == "foreign":
                    want = {"atol": opts["atol"]}
                else:
                    want = {"eigenvalue_atol": ATOL}
                eng.oblige("direct-solver:only-its-own-options-and-the-callers-atol-as-default-tolerance",
                           z3.BoolVal(set(rest) == set(want) and all(rest[k] is want[k] for k in want)), detail=f"got {rest!r}, want {want!r}")
        else:
            okk = len(log["kpm"]) == 1 and not log["direct"]
            eng.oblige("implicit-mode:KPM-solver-built-once", z3.BoolVal(okk))
            if okk:
                h, vecs, so = log["kpm"][0]
                eng.oblige("KPM-solver:gets-h_0-and-the-normalised-right-vectors", z3.BoolVal(h is h0 and [*eng.as_seq(vecs).items] == R))
                want_so = dict(opts or {})
                want_so.setdefault("eigenvalue_atol", ATOL)        # like the direct solver: the caller's atol decides which explicit energies are equal unless the caller chose a tolerance
                eng.oblige("KPM-solver:gets-the-callers-options-and-the-callers-atol-as-default-eigenvalue-tolerance",
                           z3.BoolVal(isinstance(so, dict) and set(so) == set(want_so) and all(so[k] is want_so[k] for k in so)), detail=repr(so))
        # ---- hand-over ------------------------------------------------------------------------------------------------
        eng.oblige("hand-over:the-unpacked-series", z3.BoolVal(ham is series))
        eng.oblige("hand-over:name-H", z3.BoolVal(kw.get("name") == "H"))
        se = kw.get("subspace_eigenvectors")
        eng.oblige("hand-over:subspace-designation-as-supplied",
                   z3.BoolVal((se is None if vectors == "none" else [*eng.as_seq(se).items] == [*supplied.items]) and kw.get("subspace_indices") is (IDX if vectors == "none" else None)))
        iv = kw.get("implicit")
        eng.oblige("hand-over:implicit-flag-iff-the-vectors-do-not-span-the-space", z3.BoolVal((iv is True or (isinstance(iv, SB) and eng.valid(iv.e))) if impl else (iv is False or (isinstance(iv, SB) and eng.valid(z3.Not(iv.e))))),
                   detail=repr(iv))
        eng.oblige("hand-over:symbols-atol-hermitian", z3.BoolVal(kw.get("symbols") is SYMS and kw.get("atol") is ATOL and kw.get("hermitian") is hermitian))
    label = f"vectors={vectors},hermitian={hermitian},solver={solver},direct={direct},H={h_shape},h_0={h0_kind},vecs={vec_kind},options={options},fully={fully}"
    r = run_unit(f"block_diagonalization:block_diagonalize[head;{label}]", harness, functions=[(MODULE, "block_diagonalize")], timeout_ms=timeout_ms)
    r.bounded.append("two supplied subspaces (their sizes and the dimension symbolic)")
    return r


def unit_bd_tail(second_quantized, hermitian=True, timeout_ms=20000):
    """The TAIL of block_diagonalize: from the call of series_computation to the return.
      * series_computation is called once with exactly one input series, named "H", the algorithm chosen in the head, the scope dictionary and the multiplication;
      * the function returns (H_tilde, U, U†) in this order: the outputs themselves, or - for second-quantized input - one post-processing wrapper per output, each created from
        ITS output (shape, n_infinite, dimension names, name) and reading only that output (the wrapper's own behaviour: contracts.secondq.unit_postprocessing_eval)."""
    from pyvc.core import _Ret
    fn = frontend.find(MODULE, "block_diagonalize")
    start = None
    for k, st in enumerate(fn.body):
        if isinstance(st, ast.Assign) and isinstance(st.value, ast.Call) and isinstance(st.value.func, ast.Name) and st.value.func.id == "series_computation":
            start = k
    if start is None:
        raise frontend.SourceError("call of series_computation in block_diagonalize not found")
    frag = fn.body[start:]

    def harness(eng):
        H, ALG, OP = T("H"), T("algorithm"), T("operator")
        scope = {"solve_sylvester": T("solver")}
        calls, made = [], []

        class Out(T):
            def __init__(s, name):
                super().__init__(name)
                s.reads = []

            def m_getattr(s, e, name):
                if name in ("shape", "n_infinite", "dimension_names", "name"):
                    return T(name + "-of", s)
                return super().m_getattr(e, name)

            def m_getitem(s, e, key):
                s.reads.append(key)
                return ZERO
        outs = {"H_tilde": Out("H_tilde"), "U": Out("U"), "U†": Out("U†"), "X": Out("X")}

        def sc(e, series, algorithm=None, scope=None, operator=None):
            calls.append((series, algorithm, scope, operator))
            return STup([dict(outs), {}])

        class MadeSeries(Model):
            """a wrapper series built in the tail; reading it runs its callback (so a wrapper that reads ANOTHER wrapper shows up as a read of that wrapper's output)"""
            def __init__(s, kw):
                s.kw = kw

            def m_getattr(s, e, name):
                if name in s.kw:
                    return s.kw[name]
                raise Unsupported(f"wrapper series .{name}")

            def m_getitem(s, e, key):
                return e.call(s.kw["eval"], list(e.as_seq(key).items), {})

        def ctor(e, **kw):
            m = MadeSeries(kw)
            made.append(m)
            return m
        eng.globals.update({"series_computation": Builtin("series_computation", sc), "BlockSeries": Builtin("BlockSeries", ctor), "zero": ZERO,
                            "sympy": Namespace("sympy", {"MatrixBase": TypeObj("MatrixBase"), "Expr": TypeObj("Expr"), "Basic": TypeObj("Basic")}), "NumberOrderedForm": TypeObj("NumberOrderedForm"), "tuple": Builtin("tuple", lambda e, x: STup(list(e.as_seq(x).items)))})
        env = Env(None, {"H": H, "algorithm": ALG, "scope": scope, "operator": OP, "operators": STup([T("a")] if second_quantized else []), "scalar_input": False,
                         # the other parameters / locals of block_diagonalize a tail may legitimately look at
                         "hermitian": hermitian, "atol": T("atol"), "symbols": T("symbols"), "fully_diagonalize": T("fully_diagonalize"), "use_implicit": False})
        eng.globals.setdefault("Dagger", Builtin("Dagger", lambda e, x: T("Dagger", x)))
        res = None
        try:
            for st in frag:
                eng.exec_stmt(st, env)
        except _Ret as r:
            res = r.value
        ok = len(calls) == 1
        eng.oblige("series_computation-called-once", z3.BoolVal(ok))
        if ok:
            series, alg, scp, op = calls[0]
            eng.oblige("the-only-input-series-is-the-projected-Hamiltonian-named-H", z3.BoolVal(isinstance(series, dict) and list(series) == ["H"] and series["H"] is H), detail=repr(series)[:200])
            eng.oblige("algorithm-scope-and-multiplication-are-those-prepared-before", z3.BoolVal(alg is ALG and scp is scope and op is OP))
        items = eng.as_seq(res).items if res is not None else []
        eng.oblige("returns-three-series", z3.BoolVal(len(items) == 3), detail=repr(res)[:200])
        if len(items) != 3:
            return
        order = ["H_tilde", "U", "U†"]
        if not second_quantized:
            eng.oblige("returns-H_tilde-U-U_adjoint-in-this-order", z3.BoolVal(all(items[k] is outs[order[k]] for k in range(3))), detail=repr(items)[:200])
            eng.oblige("no-wrapper-series-for-matrix-valued-input", z3.BoolVal(not made))
            return
        okw = len(made) == 3 and all(items[k] is made[k] for k in range(3))
        eng.oblige("second-quantized:one-wrapper-per-output-in-the-order-H_tilde-U-U_adjoint", z3.BoolVal(okw))
        if not okw:
            return
        for k, nm in enumerate(order):
            kw = made[k].kw
            src = (outs[nm], outs["U"]) if (nm == "U†" and hermitian) else (outs[nm],)      # U and U† have the same shape / orders / dimension names
            meta_ok = all(isinstance(kw.get(a), T) and kw[a].head == a + "-of" and any(kw[a].args[0] is o_ for o_ in (src if a != "name" else src[:1])) for a in ("shape", "n_infinite", "dimension_names", "name"))
            eng.oblige(f"second-quantized:wrapper-{k}-has-the-shape-orders-names-of-{nm}", z3.BoolVal(meta_ok), detail=repr({a: kw.get(a) for a in ("shape", "name")})[:200])
            for o in outs.values():
                o.reads.clear()
            idx = [SI(eng.fresh("i")), SI(eng.fresh("j")), SI(eng.fresh("n"))]
            eng.call(kw["eval"], idx, {})
            only = all((not o.reads) for q, o in outs.items() if q != nm) and len(outs[nm].reads) == 1
            good = bool(only and all(x is y for x, y in zip(eng.as_seq(outs[nm].reads[0]).items, idx)))
            if not good and nm == "U†" and hermitian:
                # also accepted (the property holds): in Hermitian mode U†[i, j, n] may be derived from U at the block-TRANSPOSED index (j, i, n)
                alt = all((not o.reads) for q, o in outs.items() if q != "U") and len(outs["U"].reads) == 1
                if alt:
                    r_ = eng.as_seq(outs["U"].reads[0]).items
                    good = len(r_) == 3 and r_[0] is idx[1] and r_[1] is idx[0] and r_[2] is idx[2]
            eng.oblige(f"second-quantized:wrapper-{k}-reads-only-{nm}-once-at-the-requested-index", z3.BoolVal(good),
                       detail="(Hermitian mode: U† may instead be read off U at the block-transposed index)" if nm == "U†" else "")
    return run_unit(f"block_diagonalization:block_diagonalize[tail;{'second-quantized' if second_quantized else 'matrix-valued'};hermitian={hermitian}]", harness, functions=[(MODULE, "block_diagonalize")], timeout_ms=timeout_ms)


def unit_bd_middle(kind="numeric", solver="none", implicit=False, legacy=False, hermitian=True, fully_last=False, timeout_ms=20000):
    """The MIDDLE of block_diagonalize: from `H_0_diag = ...` (after the H_0 guards) up to the masks (`commuting_blocks`).
    kind: numeric | scalar-operators (sympy scalar expressions: `*` only) | matrix-operators ; solver: none | custom ; implicit: the last block is a LinearOperator;
    legacy: the custom solver takes one argument.
      * the multiplication is matmul when every non-zero H_0 block supports `@`, else mul when all support `*`;  scalar_input iff some block is a sympy scalar expression (not a matrix);
      * operators = the operators found in the NON-ZERO diagonal blocks of H_0, sorted by (kind, name); with operators the Hamiltonian is wrapped once (H_eval), keeping shape / orders / names;
      * without a custom solver: the diagonal solver on _extract_diagonal(H, atol, use_implicit, operators) with the caller's atol - or the second-quantized solver on the same diagonal;
        a custom solver is kept; a one-argument solver is wrapped (Hermitian mode, with a DeprecationWarning) or refused (NotImplementedError otherwise);
      * use_linear_operator is True exactly for the last diagonal block and exactly when that block of H_0 is a LinearOperator; then full diagonalization of that block and a non-matmul
        multiplication are refused (ValueError)."""
    fn = frontend.find(MODULE, "block_diagonalize")
    start = end = None
    for k, st in enumerate(fn.body):
        if start is None and isinstance(st, ast.Assign) and any(isinstance(t, ast.Name) and t.id == "H_0_diag" for t in st.targets):
            start = k
        if start is not None and isinstance(st, ast.If) and "commuting_blocks" in ast.unparse(st) and "isinstance(fully_diagonalize, dict)" in ast.unparse(st.test):
            end = k
            break
    if start is None or end is None:
        raise frontend.SourceError("middle fragment of block_diagonalize not found")
    frag = fn.body[start:end]

    def harness(eng):
        nb = 2
        ATOL = T("atol")
        kinds = {"numeric": ("ndarray",), "scalar-operators": ("Expr",), "matrix-operators": ("MatrixBase", "Matrix")}[kind]
        has_ops = kind in ("scalar-operators", "matrix-operators")

        class Blk(Val):
            def m_hasattr(s, e, name):
                if name == "__matmul__":
                    return kind in ("numeric", "matrix-operators")
                return name == "__mul__"
        LINOP = Val("implicit_block", ("LinearOperator",))
        blocks = {0: Blk("H0[0,0]", kinds), 1: (LINOP if implicit else Blk("H0[1,1]", kinds))}
        LINOP.m_hasattr = lambda e, name: name in ("__matmul__", "__mul__")
        z1 = eng.branch(eng.fresh("second_diagonal_block_is_zero", "bool")) if not implicit else False
        reads, made, warns, calls = [], [], [], {"extract": [], "diag": [], "sq": [], "pre": [], "find": []}

        class HS(Model):
            def m_getattr(s, e, name):
                if name == "shape":
                    return STup([nb, nb])
                if name in ("n_infinite", "dimension_names", "name"):
                    return T(name + "-of-H")
                raise Unsupported(f"H.{name}")

            def m_getitem(s, e, key):
                k = e.as_seq(key).items
                reads.append(k)
                i, j = k[0], k[1]
                i = i % nb if isinstance(i, int) else i
                if i == 1 and z1:
                    return ZERO
                return blocks[i]
        H = HS()
        OPA, OPB = T("op_a"), T("op_b")

        def find_operators(e, blk):
            calls["find"].append(blk)
            return PSetLike([OPB, OPA])

        class PSetLike(Model):
            def __init__(s, items):
                s.items = items

        def set_ctor(e, *a):
            class S(Model):
                def m_getattr(s2, e2, name):
                    if name == "union":
                        return Builtin("union", lambda e3, *sets: STup([x for st_ in sets for x in st_.items][:2], None, True))
                    raise Unsupported(name)
            return S()

        def sorted_(e, seq, key=None):
            items = list(e.as_seq(seq).items)
            log_sorted.append(key is not None)
            return STup(sorted(items, key=lambda t: t.head), None, True)
        log_sorted = []

        def ctor(e, **kw):
            made.append(kw)
            w = HS()
            w.wrapped = True
            return w
        nparams = 1 if legacy is True else 2

        class Kind(Model):
            def m_is(s, e, other):
                return other is s
        KIND_VAR, KIND_POS = Kind(), Kind()

        class Param(Model):
            def __init__(s, var=False):
                s.var = var

            def m_getattr(s, e, name):
                if name == "kind":
                    return KIND_VAR if s.var else KIND_POS
                if name == "VAR_POSITIONAL":
                    return KIND_VAR
                raise Unsupported(f"Parameter.{name}")

        class Params(Model):
            def __init__(s, items):
                s.items = items

            def m_getattr(s, e, name):
                if name == "values":
                    return Builtin("values", lambda e2: STup(list(s.items), None, True))
                raise Unsupported(f"parameters.{name}")

            def m_len(s, e):
                return len(s.items)

        def signature(e, f):
            if f is CUSTOM:
                items = [Param(var=True)] if legacy == "varargs" else [Param() for _ in range(nparams)]
            else:
                items = [Param(), Param()]
            return Namespace("sig", {"parameters": Params(items)})
        CUSTOM = T("custom_solver")
        MATMUL, MUL = T("matmul"), T("mul")
        eng.globals.update({
            "zero": ZERO, "matmul": MATMUL, "mul": MUL, "find_operators": Builtin("find_operators", find_operators), "set": Builtin("set", set_ctor), "sorted": Builtin("sorted", sorted_),
            "list": Builtin("list", lambda e, x: STup(list(e.as_seq(x).items), None, True)), "tuple": Builtin("tuple", lambda e, x: STup(list(e.as_seq(x).items))),
            "hasattr": Builtin("hasattr", lambda e, o, name: o.m_hasattr(e, name)), "BlockSeries": Builtin("BlockSeries", ctor),
            "sympy": Namespace("sympy", {"MatrixBase": TypeObj("MatrixBase"), "Expr": TypeObj("Expr")}), "generator_types": T("generator_types"),
            "np": Namespace("np", {"zeros": Builtin("np.zeros", lambda e, shape, dtype=None: FlagArr()), "ndarray": TypeObj("ndarray")}),
            "sparse": Namespace("sparse", {"linalg": Namespace("linalg", {"LinearOperator": TypeObj("LinearOperator")}), "issparse": Builtin("issparse", lambda e, x: False)}),
            "_extract_diagonal": Builtin("_extract_diagonal", lambda e, *a: (calls["extract"].append(a), T("diagonal"))[1]),
            "solve_sylvester_diagonal": Builtin("solve_sylvester_diagonal", lambda e, d, atol=None: (calls["diag"].append((d, atol)), T("diagonal_solver"))[1]),
            "second_quantization": Namespace("second_quantization", {"solve_sylvester_2nd_quant": Builtin("sq", lambda e, d: (calls["sq"].append(d), T("sq_solver"))[1])}),
            "signature": Builtin("signature", signature), "warn": Builtin("warn", lambda e, *a, **k: warns.append(a)), "DeprecationWarning": TypeObj("DeprecationWarning"),
            "_preprocess_sylvester": Builtin("_preprocess_sylvester", lambda e, f: (calls["pre"].append(f), T("wrapped_solver"))[1]), "NumberOrderedForm": TypeObj("NumberOrderedForm"),
            "any": Builtin("any", lambda e, it: any(e.truth(x) for x in e.as_seq(it).items)), "all": Builtin("all", lambda e, it: all(e.truth(x) for x in e.as_seq(it).items)),
        })

        class FlagArr(Model):
            def __init__(s):
                s.set = []

            def m_setitem(s, e, key, value):
                s.set.append((tuple(e.as_seq(key).items), value))
        fully = STup([nb - 1]) if fully_last else STup([])
        env = Env(None, {"H": H, "zero_order": STup([0]), "solve_sylvester": (CUSTOM if solver == "custom" else None), "use_implicit": implicit, "atol": ATOL, "hermitian": hermitian,
                         "fully_diagonalize": fully})
        raised = None
        try:
            for st in frag:
                eng.exec_stmt(st, env)
        except PyRaise as pr:
            raised = pr.exc.cls
        # ---- expected rejections -----------------------------------------------------------------------------------
        expect = None
        if implicit and fully_last:
            expect = "ValueError"
        elif implicit and kind == "scalar-operators":
            expect = "ValueError"      # the multiplication of scalar expressions is mul; implicit mode needs matmul
        elif solver == "custom" and legacy is True and not hermitian:
            expect = "NotImplementedError"
        eng.oblige("raises-exactly-for-the-unsupported-combinations", z3.BoolVal(raised == expect), detail=f"raised {raised}, expected {expect}")
        if raised is not None:
            return
        look = lambda n: env.lookup(n) if env.has(n) else None     # noqa: E731
        want_op = MATMUL if (kind in ("numeric", "matrix-operators")) else MUL
        eng.oblige("multiplication-is-matmul-if-every-nonzero-block-supports-it-else-mul", z3.BoolVal(look("operator") is want_op), detail=repr(look("operator")))
        eng.oblige("scalar_input-iff-some-block-is-a-scalar-expression", z3.BoolVal(look("scalar_input") is (kind == "scalar-operators")))
        ops = look("operators")
        if has_ops:
            nz = 1 if (z1 and not implicit) else (1 if implicit else 2)
            eng.oblige("operators-collected-from-the-nonzero-diagonal-blocks-and-sorted", z3.BoolVal(isinstance(ops, STup) and [o.head for o in ops.items] == ["op_a", "op_b"] and len(calls["find"]) == (2 if not z1 and not implicit else len(calls["find"])) and bool(log_sorted) and all(log_sorted)),
                       detail=f"operators {ops!r}; find_operators called on {len(calls['find'])} blocks")
            okw = len(made) == 1 and all(isinstance(made[0].get(a), T) and made[0][a].head == a + "-of-H" for a in ("n_infinite", "dimension_names", "name")) and look("H") is not H and look("H_orig") is H
            eng.oblige("second-quantized:Hamiltonian-wrapped-once-keeping-shape-orders-and-names", z3.BoolVal(okw), detail=repr(made)[:200])
        else:
            eng.oblige("no-operators-no-wrapper", z3.BoolVal(isinstance(ops, STup) and not ops.items and not made and look("H") is H))
        ss = look("solve_sylvester")
        if solver == "custom":
            if legacy is True:
                eng.oblige("legacy-solver-wrapped-with-a-deprecation-warning", z3.BoolVal(isinstance(ss, T) and ss.head == "wrapped_solver" and calls["pre"] == [CUSTOM] and len(warns) == 1))
            else:
                eng.oblige("custom-solver-kept" + ("-a-var-positional-signature-is-not-the-legacy-form" if legacy == "varargs" else ""),
                           z3.BoolVal(ss is CUSTOM and not calls["pre"] and not warns and not calls["diag"] and not calls["sq"]))
        else:
            okd = len(calls["extract"]) == 1 and calls["extract"][0][0] is look("H") and calls["extract"][0][1] is ATOL and calls["extract"][0][2] is implicit and calls["extract"][0][3] is ops
            eng.oblige("diagonal-extracted-once-from-the-(wrapped)-Hamiltonian-with-atol-implicit-flag-and-operators", z3.BoolVal(okd), detail=repr(calls["extract"])[:200])
            if has_ops:
                eng.oblige("second-quantized-solver-on-that-diagonal", z3.BoolVal(isinstance(ss, T) and ss.head == "sq_solver" and len(calls["sq"]) == 1 and not calls["diag"]))
            else:
                eng.oblige("diagonal-solver-on-that-diagonal-with-the-callers-atol", z3.BoolVal(isinstance(ss, T) and ss.head == "diagonal_solver" and len(calls["diag"]) == 1 and calls["diag"][0][1] is ATOL and not calls["sq"]))
        fl = look("use_linear_operator")
        okf = isinstance(fl, FlagArr) and (fl.set == ([((-1, -1), True)] if implicit else []))
        eng.oblige("use_linear_operator-marks-exactly-the-last-diagonal-block-iff-it-is-a-LinearOperator", z3.BoolVal(okf), detail=repr(getattr(fl, "set", fl)))
    lab = f"kind={kind},solver={solver},implicit={implicit},legacy={legacy},hermitian={hermitian},fully_last={fully_last}"
    return run_unit(f"block_diagonalization:block_diagonalize[middle;{lab}]", harness, functions=[(MODULE, "block_diagonalize")], timeout_ms=timeout_ms)
