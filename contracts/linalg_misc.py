"""Contracts of linalg.is_diagonal and linalg.aslinearoperator (C20: a non-diagonal H_0 block must be rejected; C14: diagonal H_0 is stored as a sparse diagonal).

is_diagonal(A, atol):
    zero sentinel / masked constant: True;  sympy matrix: A.is_diagonal();  sparse: True iff the DIA form stores no diagonal other than the main one;
    dense n x n array: True iff EVERY off-diagonal element rounds to zero at int(-log10(atol)) decimals.  The code looks at the off-diagonal elements through the view
        A.reshape(-1)[:-1].reshape(n - 1, n + 1)[:, 1:]
    and the obligations prove the index arithmetic: element (t, u), u >= 1, of the (n-1) x (n+1) view is the flat element t (n+1) + u = i n + j with i != j, and
    every off-diagonal (i, j) is seen: (t, u) = (i, j - i) for j > i and (i - 1, n + 1 + j - i) for j < i.
    anything else: NotImplementedError.
aslinearoperator(A): the sentinels pass through unchanged, everything else goes to scipy's aslinearoperator.

Library facts assumed (A-NP2): reshape(-1) is the row-major flattening, reshape(r, c) of a vector of r c elements puts flat element k at (k div c, k mod c), slices select
the stated ranges, np.round is element-wise, np.any is the existential; dia_array(A).offsets lists the stored diagonals (0 = main).
"""
from __future__ import annotations

import ast

import z3

from pyvc import frontend
from pyvc.core import Closure, Env, STup, SI, SB, Model, Builtin, Namespace, TypeObj, PyRaise, Unsupported, SSlice, zi
from pyvc.models import ZERO, ONE
from pyvc.unit import run_unit
from contracts.formats import T, Val

MODULE = "linalg"


def unit_is_diagonal(kind, timeout_ms=20000):
    """kind: 'zero' | 'masked' | 'sympy' | 'dense' | 'sparse' | 'other'"""
    node = frontend.find(MODULE, "is_diagonal")

    def harness(eng):
        n = eng.fresh("n")
        eng.assume(n >= 2)
        nz = z3.Function("rounds_to_nonzero", z3.IntSort(), z3.BoolSort())     # of the flat element k (row-major)
        MASKED = T("np.ma.masked")
        log = {}

        class Dense(Model):
            """n x n array; views carry (rows, cols, flat(t, u), valid(t, u))"""

            def __init__(s, rows, cols, flat, lo_col=0, rounded=False, one_d=None):
                s.rows, s.cols, s.flat, s.lo_col, s.rounded, s.one_d = rows, cols, flat, lo_col, rounded, one_d

            def m_isinstance(s, e, c):
                return c == "ndarray"

            def m_len(s, e):
                return SI(s.rows)

            def m_getattr(s, e, name):
                if name == "reshape":
                    def reshape(e2, *shape):
                        if len(shape) == 1 and isinstance(shape[0], int) and shape[0] == -1:
                            if s.one_d is not None or s.lo_col:
                                raise Unsupported("reshape(-1) of a view")
                            return Dense(None, None, None, one_d=(s.rows * s.cols, lambda k: s.flat_of(k)))
                        if len(shape) == 2 and s.one_d is not None:
                            r, c = zi(shape[0]), zi(shape[1])
                            length, f = s.one_d
                            e2.oblige("dense:reshape-keeps-the-number-of-elements", r * c == length, detail="(n - 1)(n + 1) = n^2 - 1")
                            return Dense(r, c, lambda t, u: f(t * c + u))
                        raise Unsupported(f"reshape{shape}")
                    return Builtin("reshape", reshape)
                raise Unsupported(f"ndarray.{name}")

            def flat_of(s, k):
                return k

            def m_binop(s, e, op, other, reflected):
                # np.abs(view) > atol: the element-wise threshold test (the other accepted form is np.round(view, decimals of atol))
                if getattr(s, "absd", False) and isinstance(op, ast.Gt) and not reflected:
                    log["threshold"] = other
                    return Dense(s.rows, s.cols, s.flat, s.lo_col, rounded=True)
                return NotImplemented

            def m_getitem(s, e, key):
                if s.one_d is not None:
                    if isinstance(key, SSlice) and key.lo is None and key.step is None and isinstance(key.hi, int) and key.hi < 0:
                        length, f = s.one_d
                        return Dense(None, None, None, one_d=(length + key.hi, f))
                    raise Unsupported("1-d index")
                k = e.as_seq(key)
                if len(k.items) == 2 and isinstance(k.items[0], SSlice) and k.items[0].lo is None and k.items[0].hi is None \
                        and isinstance(k.items[1], SSlice) and k.items[1].hi is None and k.items[1].step is None:
                    lo = k.items[1].lo or 0
                    return Dense(s.rows, s.cols, s.flat, lo_col=s.lo_col + zi(lo) if not isinstance(lo, int) else s.lo_col + lo)
                raise Unsupported("2-d index")
        A0 = Dense(n, n, None)
        A0.flat_of = lambda k: k

        def np_round(e, x, decimals=0):
            log["decimals"] = decimals
            return Dense(x.rows, x.cols, x.flat, x.lo_col, rounded=True)

        def np_abs(e, x):
            if isinstance(x, T):
                return CT("abs", x)
            if not isinstance(x, Dense) or x.one_d is not None:
                raise Unsupported("np.abs of something else")
            r = Dense(x.rows, x.cols, x.flat, x.lo_col)
            r.absd = True
            return r

        def np_any(e, x):
            if isinstance(x, T):
                return np_any_sparse(e, x)
            if not (isinstance(x, Dense) and x.rounded and x.one_d is None):
                raise Unsupported("np.any of something else")
            log["view"] = x
            b = e.fresh("some_element_of_the_view_is_nonzero", "bool")
            log["any"] = b
            return SB(b)

        class Sp(Model):
            def m_isinstance(s, e, c):
                return False

        class SpCoo(Model):
            """coo form of the (duplicate-summed) sparse matrix: parallel arrays data / row / col"""
            def m_getattr(s, e, name):
                if name in ("data", "row", "col"):
                    return CT("coo." + name)
                raise Unsupported(f"coo_array.{name}")

        ROW_EQ_COL = z3.Bool("row_index_equals_column_index(elementwise)")

        class CT(T):
            def m_getitem(s, e, key):
                if isinstance(key, SB) and z3.eq(z3.simplify(key.e), z3.simplify(z3.Not(ROW_EQ_COL))):
                    return CT("[]", s, T("NotEq", T("coo.row"), T("coo.col")))
                return CT("[]", s, key)

            def m_binop(s, e, op, other, reflected):
                if isinstance(op, ast.Eq) and {s.head, getattr(other, "head", None)} == {"coo.row", "coo.col"}:
                    return SB(ROW_EQ_COL)          # the element-wise comparison of the two index arrays (kept symbolic; `!=` is its negation)
                return super().m_binop(e, op, other, reflected)

        class Dia(Model):
            def m_getattr(s, e, name):
                if name == "offsets":
                    return Offsets()
                raise Unsupported(f"dia_array.{name}")

        class Offsets(Model):
            def m_iter(s, e):
                raise Unsupported("iteration")
        off_nonmain = eng.fresh("a_diagonal_other_than_the_main_one_is_stored", "bool")

        big_off = eng.fresh("some_stored_off_diagonal_entry_exceeds_atol", "bool")

        def np_any_sparse(e, x):
            # np.any(np.abs(data[row != col]) > atol)
            ok = (isinstance(x, T) and x.head == "Gt" and x.args[1] is ATOL and isinstance(x.args[0], T) and x.args[0].head == "abs"
                  and repr(x.args[0].args[0]) in (repr(T("[]", T("coo.data"), T("Not", T("Eq", T("coo.row"), T("coo.col"))))), repr(T("[]", T("coo.data"), T("NotEq", T("coo.row"), T("coo.col"))))))
            log["sparse_test"] = ok
            log["sparse_expr"] = repr(x)
            return SB(big_off)

        def py_any(e, x):
            if isinstance(x, Offsets):
                log["offsets_any"] = True
                return SB(off_nonmain)
            raise Unsupported("any(...)")
        sym_diag = eng.fresh("sympy_is_diagonal", "bool")

        class SymM(Model):
            def m_isinstance(s, e, c):
                return c == "MatrixBase"

            def m_getattr(s, e, name):
                if name == "is_diagonal":
                    return Builtin("is_diagonal", lambda e2: SB(sym_diag))
                raise Unsupported(name)
        arg = {"zero": ZERO, "masked": MASKED, "sympy": SymM(), "dense": A0, "sparse": Sp(), "other": Val("something", ("list",))}[kind]
        eng.globals.update({"zero": ZERO, "one": ONE,
                            "np": Namespace("np", {"ma": Namespace("ma", {"masked": MASKED}), "ndarray": TypeObj("ndarray"), "round": Builtin("round", np_round), "abs": Builtin("abs", np_abs), "any": Builtin("any", np_any),
                                                   "log10": Builtin("log10", lambda e, x: T("log10", x))}),
                            "sympy": Namespace("sympy", {"MatrixBase": TypeObj("MatrixBase")}),
                            "sparse": Namespace("sparse", {"issparse": Builtin("issparse", lambda e, x: isinstance(x, Sp)), "dia_array": Builtin("dia_array", lambda e, x: Dia()),
                                                           "csr_array": Builtin("csr_array", lambda e, x: T("csr-with-duplicates-summed", x) if isinstance(x, Sp) else T("csr?", x)),
                                                           "coo_array": Builtin("coo_array", lambda e, x: (log.__setitem__("coo_of", x), SpCoo())[1])}),
                            "any": Builtin("any", py_any), "int": Builtin("int", lambda e, x: T("int", x)), "type": Builtin("type", lambda e, x: T("type"))})
        ATOL = T("atol")
        try:
            res = eng.call(Closure(node, Env(None, {}), "is_diagonal"), [arg, ATOL], {})
        except PyRaise as pr:
            eng.oblige("unsupported-type-raises-NotImplementedError", z3.BoolVal(kind == "other" and pr.exc.cls == "NotImplementedError"), detail=f"{kind}: {pr.exc.cls}")
            return
        eng.oblige("unsupported-type-is-rejected", z3.BoolVal(kind != "other"))
        if kind in ("zero", "masked"):
            return eng.oblige("sentinel-counts-as-diagonal", z3.BoolVal(res is True))
        rz = res.e if isinstance(res, SB) else z3.BoolVal(bool(res))
        if kind == "sympy":
            return eng.oblige("sympy:answer-of-Matrix.is_diagonal", rz == sym_diag)
        if kind == "sparse":
            if "sparse_test" in log:
                # tolerance-aware form: no stored off-diagonal entry (after summing duplicates) exceeds atol
                eng.oblige("sparse:decided-by-the-off-diagonal-stored-entries-compared-with-atol", z3.BoolVal(bool(log["sparse_test"])), detail="np.any(np.abs(data[row != col]) > atol) on the coo form; got " + log.get("sparse_expr", "")[:200])
                src = log.get("coo_of")
                eng.oblige("sparse:duplicates-summed-before-the-test", z3.BoolVal(isinstance(src, T) and src.head == "csr-with-duplicates-summed"), detail=repr(src))
                return eng.oblige("sparse:diagonal-iff-no-off-diagonal-entry-exceeds-atol", rz == z3.Not(big_off))
            return eng.oblige("sparse:diagonal-iff-only-the-main-diagonal-is-stored", rz == z3.Not(off_nonmain))
        # dense
        v = log.get("view")
        ok = v is not None and "any" in log
        eng.oblige("dense:decided-by-np.any-of-the-rounded-view", z3.BoolVal(ok) if not ok else rz == z3.Not(log["any"]))
        if not ok:
            return
        d = log.get("decimals")
        eng.oblige("dense:entries-compared-with-atol", z3.BoolVal(log.get("threshold") is ATOL or repr(d) == repr(T("int", T("USub", T("log10", ATOL))))),
                   detail=f"|entry| > atol (threshold {log.get('threshold')!r}) or rounding at the decimals of atol ({d!r})")
        rows, cols, lo = v.rows, v.cols, v.lo_col

        def in_view(t, u):
            return z3.And(t >= 0, t < rows, u >= lo, u < cols)
        # np.any semantics at the two Skolem points
        i, j = eng.fresh("i"), eng.fresh("j")
        offd = z3.And(0 <= i, i < n, 0 <= j, j < n, i != j)
        t0 = z3.If(j > i, i, i - 1)
        u0 = z3.If(j > i, j - i, n + 1 + j - i)
        eng.oblige("dense:every-off-diagonal-element-lies-in-the-view", z3.Implies(offd, z3.And(in_view(t0, u0), v.flat(t0, u0) == i * n + j)),
                   detail="(i, j), i != j, is element (i, j - i) resp. (i - 1, n + 1 + j - i) of the (n-1) x (n+1) view without its first column")
        tw, uw = eng.fresh("t_witness"), eng.fresh("u_witness")
        fi, fj = eng.fresh("row_of_witness"), eng.fresh("col_of_witness")
        dd = fi - tw
        lemma = z3.And(z3.Implies(dd >= 1, dd * (n + 1) >= n + 1), z3.Implies(dd <= 0, dd * (n + 1) <= 0))      # monotonicity of multiplication by n + 1 > 0
        eng.oblige("dense:every-element-of-the-view-is-off-diagonal",
                   z3.Implies(z3.And(in_view(tw, uw), v.flat(tw, uw) == fi * n + fj, 0 <= fj, fj < n, lemma), fi != fj),
                   detail="element (t, u >= 1) of the view is flat element t (n+1) + u = i n + j with i != j (the diagonal elements are exactly column 0)")
        eng.oblige("dense:view-stays-inside-the-array", z3.Implies(in_view(tw, uw), z3.And(v.flat(tw, uw) >= 0, v.flat(tw, uw) < n * n)))
        # verdict: True => every off-diagonal element rounds to zero (instantiate not-any at (t0, u0)); False => some element of the view, hence some off-diagonal element, does not
        eng.assume(z3.Implies(z3.Not(log["any"]), z3.Implies(in_view(t0, u0), z3.Not(nz(v.flat(t0, u0))))))
        eng.assume(z3.Implies(log["any"], z3.And(in_view(tw, uw), nz(v.flat(tw, uw)))))
        eng.oblige("dense:True-implies-every-off-diagonal-element-rounds-to-zero", z3.Implies(z3.And(rz, offd), z3.Not(nz(i * n + j))))
        eng.oblige("dense:False-implies-some-element-of-the-view-does-not-round-to-zero", z3.Implies(z3.Not(rz), nz(v.flat(tw, uw))))
    return run_unit(f"linalg:is_diagonal[{kind}]", harness, functions=[(MODULE, "is_diagonal")], timeout_ms=timeout_ms)


def unit_aslinearoperator(timeout_ms=10000):
    node = frontend.find(MODULE, "aslinearoperator")

    def harness(eng):
        calls = []
        eng.globals.update({"zero": ZERO, "one": ONE, "scipy_aslinearoperator": Builtin("scipy_aslinearoperator", lambda e, x: (calls.append(x), T("LinearOperator", x))[1])})
        which = "zero" if eng.branch(eng.fresh("is_zero", "bool")) else ("one" if eng.branch(eng.fresh("is_one", "bool")) else "value")
        x = {"zero": ZERO, "one": ONE, "value": T("A")}[which]
        res = eng.call(Closure(node, Env(None, {}), "aslinearoperator"), [x], {})
        if which == "value":
            eng.oblige("values-are-wrapped-by-scipy", z3.BoolVal(isinstance(res, T) and res.head == "LinearOperator" and res.args[0] is x and len(calls) == 1))
        else:
            eng.oblige("sentinels-pass-through-unchanged", z3.BoolVal(res is x and not calls))
    return run_unit("linalg:aslinearoperator", harness, functions=[(MODULE, "aslinearoperator")], timeout_ms=timeout_ms)
