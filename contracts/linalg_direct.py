"""Contracts for linalg._constrain_matrix and linalg.direct_greens_function (C16, C06).

_constrain_matrix(mat, pivot_rows, pivot_cols) - entry-wise postcondition, for every position (r, c):
    result[r, c] = mat[r, c]                      if r is not a pivot row,
                 = 1 if c == pivot_cols[k] else 0 if r == pivot_rows[k]
    i.e.  result = (1 - D) mat + S  with D the diagonal projection on the pivot rows and S the selector of the unknowns pivot_cols placed
    on the rows pivot_rows (D S = S).  Precondition: pivot_rows are pairwise distinct (they are the leading pivots of a pivoted QR).
direct_greens_function - assembly: the matrix factorised is the constrained (E - h); the rows replaced are the pivots of the LEFT kernel basis,
    the unknowns set to zero are the pivots of the RIGHT kernel basis; the returned closure computes P @ solve((1 - D)(P @ vec)), splitting a
    complex right-hand side into real and imaginary part exactly when the factorisation is real; the caller's vector is not modified.
With these facts the Lean lemmas PV.Direct.greens_solves / constrained_injective give  (E - h)(result) = P vec  and  P result = result.

Library facts assumed (A-NP2 / A-SC): COO form of a canonical sparse matrix enumerates its stored entries once; csr_array((data, (rows, cols)))
adds the entries given; boolean-mask indexing of parallel arrays with the same mask keeps them aligned; np.concatenate appends;
pivoted QR of a full-column-rank n x k matrix returns k leading pivots whose rows form an invertible k x k submatrix; the sparse LU
(or MUMPS) solve is exact.
"""
from __future__ import annotations

import z3

from pyvc import frontend
from pyvc.core import Closure, Env, STup, SI, SB, SExc, Model, Builtin, Namespace, PyRaise, Unsupported, zi
from pyvc.unit import run_unit
from contracts.formats import T, term_eq
from contracts.direct import term_eq_py

MODULE = "linalg"


# ------------------------------------------------------------------------------------------------ _constrain_matrix
class Fam:
    """An enumeration of array positions: 'COO' (stored entries of the input), 'PIV' (pivot list), or a filtered sub-family."""

    def __init__(self, name, base=None, pred=None):
        self.name, self.base, self.pred = name, base, pred


class Fld(Model):
    """A 1-d array: value of `field` on every member of the family `fam`."""

    def __init__(self, fam, field):
        self.fam, self.field = fam, field

    def __repr__(self):
        return f"{self.field}@{self.fam.name}"

    def m_getitem(self, eng, key):
        if isinstance(key, BoolFam) and key.fam is self.fam:
            return Fld(Fam(f"{self.fam.name}[{key!r}]", self.fam, key), self.field)
        raise Unsupported(f"{self!r}[{key!r}]")

    def m_getattr(self, eng, name):
        if name == "size" and self.fam.name == "PIV":
            return SI(self.fam.length)
        raise Unsupported(f"{self!r}.{name}")

    def m_len(self, eng):
        if self.fam.name == "PIV":
            return SI(self.fam.length)
        raise Unsupported(f"len({self!r})")


class BoolFam(Model):
    """Boolean array over a family: marked(field(e)), possibly negated."""

    def __init__(self, fam, mask, field, neg=False):
        self.fam, self.mask, self.field, self.neg = fam, mask, field, neg

    def __repr__(self):
        return f"{'~' if self.neg else ''}mask[{self.field}@{self.fam.name}]"

    def m_unop(self, eng, op):
        if type(op).__name__ == "Invert":
            return BoolFam(self.fam, self.mask, self.field, not self.neg)
        raise Unsupported("unary op on a boolean array")


class Mask(Model):
    """np.zeros(n, dtype=bool) with fancy stores of True."""

    def __init__(self, n):
        self.n = n
        self.marked = []     # Fld objects stored with True

    def m_setitem(self, eng, key, value):
        if isinstance(key, Fld) and key.fam.name == "PIV" and value is True:
            self.marked.append(key)
            return
        raise Unsupported(f"mask[{key!r}] = {value!r}")

    def m_getitem(self, eng, key):
        if isinstance(key, Fld):
            return BoolFam(key.fam, self, key.field)
        raise Unsupported(f"mask[{key!r}]")


class Const(Model):
    def __init__(self, value, length):
        self.value, self.length = value, length


class Cat(Model):
    def __init__(self, parts):
        self.parts = parts


def unit_constrain_matrix(cols_given, timeout_ms=20000):
    node = frontend.find(MODULE, "_constrain_matrix")

    def harness(eng):
        n = eng.fresh("n")
        K = eng.fresh("n_pivots")
        eng.assume(z3.And(n >= 1, K >= 0, K <= n))
        A = z3.Function("mat_entry", z3.IntSort(), z3.IntSort(), z3.RealSort())
        F = {"rows": z3.Function("pivot_rows", z3.IntSort(), z3.IntSort()), "cols": z3.Function("pivot_cols", z3.IntSort(), z3.IntSort())}
        has = {k: z3.Function(f"is_pivot_{k}", z3.IntSort(), z3.BoolSort()) for k in F}
        inv = {k: z3.Function(f"position_of_pivot_{k}", z3.IntSort(), z3.IntSort()) for k in F}
        r, c = eng.fresh("r"), eng.fresh("c")
        eng.assume(z3.And(r >= 0, r < n, c >= 0, c < n))
        for k in F:     # x is a pivot iff it occurs in the list (Skolem inverse; the list has distinct members)
            eng.assume(z3.Implies(has[k](r), z3.And(inv[k](r) >= 0, inv[k](r) < K, F[k](inv[k](r)) == r)))
        PIV = Fam("PIV")
        PIV.length = K
        COO = Fam("COO")
        prow, pcol = Fld(PIV, "rows"), Fld(PIV, "cols")
        shape = STup([SI(n), SI(n)])
        dtype = T("dtype")
        made = []

        class Coo(Model):
            def m_getattr(s, e, name):
                if name in ("row", "col", "data"):
                    return Fld(COO, name)
                raise Unsupported(f"coo.{name}")

        class Sp(Model):
            """canonical sparse matrix with entry function `entry` (z3 Real term of r, c)"""

            def __init__(s, entry, src):
                s.entry, s.src = entry, src

            def m_getattr(s, e, name):
                if name == "shape":
                    return shape
                if name == "dtype":
                    return dtype
                if name == "tocoo":
                    return Builtin("tocoo", lambda e2, copy=True: Coo())
                raise Unsupported(f"sparse.{name}")
        MAT = T("mat")

        def csr_array(e, arg, shape=None):
            if arg is MAT:
                return Sp(A(r, c), "input")
            if isinstance(arg, Sp):
                return arg
            t = e.as_seq(arg)
            data, rc = t.items
            rows, cols = e.as_seq(rc).items
            ok = all(isinstance(x, Cat) and len(x.parts) == 2 for x in (data, rows, cols))
            e.oblige("assembly:data-rows-cols-are-concatenations-of-the-kept-entries-and-the-constraints", z3.BoolVal(ok), detail=f"{data!r} {rows!r} {cols!r}")
            e.oblige("assembly:shape-preserved", z3.BoolVal(shape is not None and e.as_seq(shape) is globals_shape[0]))
            if not ok:
                return Sp(None, "bad")
            (d1, d2), (r1, r2), (c1, c2) = data.parts, rows.parts, cols.parts
            ok1 = all(isinstance(x, Fld) and x.fam.base is COO for x in (d1, r1, c1)) and d1.fam.pred is r1.fam.pred is c1.fam.pred \
                and (d1.field, r1.field, c1.field) == ("data", "row", "col")
            e.oblige("assembly:kept-entries-keep-their-row-column-and-value-under-one-mask", z3.BoolVal(ok1), detail=f"{d1!r} {r1!r} {c1!r}")
            ok2 = isinstance(d2, Const) and d2.value == 1 and isinstance(r2, Fld) and isinstance(c2, Fld) and r2.fam is PIV and c2.fam is PIV
            e.oblige("assembly:constraint-entries-are-ones-at-listed-positions", z3.BoolVal(ok2), detail=f"{d2!r} {r2!r} {c2!r}")
            if ok2:
                e.oblige("assembly:one-constraint-entry-per-pivot", d2.length == K)
            if not (ok1 and ok2):
                return Sp(None, "bad")
            keep = d1.fam.pred
            okk = isinstance(keep, BoolFam) and keep.fam is COO and len(keep.mask.marked) == 1
            e.oblige("assembly:keep-mask-is-a-mask-lookup-on-the-stored-entries", z3.BoolVal(okk), detail=repr(keep))
            if not okk:
                return Sp(None, "bad")
            pos = {"row": r, "col": c}.get(keep.field)
            if pos is None:
                e.oblige("assembly:keep-mask-indexed-by-a-coordinate", z3.BoolVal(False), detail=repr(keep))
                return Sp(None, "bad")
            marked = has[keep.mask.marked[0].field](pos)
            kept = z3.Not(marked) if keep.neg else marked
            part1 = z3.If(kept, A(r, c), z3.RealVal(0))
            rf, cf = r2.field, c2.field
            part2 = z3.If(z3.And(has[rf](r), F[cf](inv[rf](r)) == c), z3.RealVal(1), z3.RealVal(0))
            res = Sp(part1 + part2, "assembled")
            made.append(res)
            return res
        globals_shape = [shape]

        def np_zeros(e, size, dtype=None):
            e.oblige("mask-has-one-flag-per-row", zi(size) == n)
            return Mask(n)

        def np_ones(e, size, dtype=None):
            return Const(1, zi(size))
        eng.globals.update({"sparse": Namespace("sparse", {"csr_array": Builtin("csr_array", csr_array)}),
                            "np": Namespace("np", {"zeros": Builtin("zeros", np_zeros), "ones": Builtin("ones", np_ones),
                                                   "concatenate": Builtin("concatenate", lambda e, parts: Cat(list(e.as_seq(parts).items)))}),
                            "bool": T("bool")})
        args = [MAT, prow] + ([pcol] if cols_given else [])
        res = eng.call(Closure(node, Env(None, {}), "_constrain_matrix"), args, {})
        ok = isinstance(res, Sp) and res.entry is not None
        eng.oblige("returns-a-sparse-matrix-with-known-entries", z3.BoolVal(ok), detail=repr(res))
        if not ok:
            return
        cfield = "cols" if cols_given else "rows"
        spec = z3.If(has["rows"](r), z3.If(F[cfield](inv["rows"](r)) == c, z3.RealVal(1), z3.RealVal(0)), A(r, c))
        eng.oblige("entry:non-pivot-rows-unchanged", z3.Implies(z3.Not(has["rows"](r)), res.entry == A(r, c)), detail="result[r, c] == mat[r, c] for every row r that is not replaced")
        eng.oblige("entry:pivot-row-k-is-the-constraint-x[pivot_cols[k]]=0", z3.Implies(has["rows"](r), res.entry == spec),
                   detail="row pivot_rows[k] of the result is the unit row vector e_{pivot_cols[k]}")
        eng.oblige("no-pivots:matrix-returned-unchanged", z3.Implies(K == 0, res.entry == A(r, c)))
    return run_unit(f"linalg:_constrain_matrix[{'rows and columns' if cols_given else 'rows only'}]", harness, functions=[(MODULE, "_constrain_matrix")], timeout_ms=timeout_ms)


# ------------------------------------------------------------------------------------------------ direct_greens_function
class Vec(Model):
    """A vector value (term) that supports the in-place zeroing of rows."""

    def __init__(self, term):
        self.term = term

    def __repr__(self):
        return f"Vec({self.term!r})"

    def m_setitem(self, eng, key, value):
        if not (isinstance(value, int) and value == 0):
            raise Unsupported("vector store of a non-zero value")
        self.term = T("zero_rows", self.term, key)

    def m_getattr(self, eng, name):
        if name in ("real", "imag"):
            return Vec(T(name, self.term))
        raise Unsupported(f"vector.{name}")

    def m_binop(self, eng, op, other, reflected):
        o = other.term if isinstance(other, Vec) else other
        l, rr = (o, self.term) if reflected else (self.term, o)
        return Vec(T(type(op).__name__, l, rr))


def unit_direct_greens_function(kernel, mumps, timeout_ms=20000):
    """kernel: 'none' (no kernel vectors), 'same' (right basis only), 'pair' (right and left basis)"""
    node = frontend.find(MODULE, "direct_greens_function")

    def harness(eng):
        n = eng.fresh("n")
        eng.assume(n >= 1)
        h = T("h")
        h.shape = STup([SI(n), SI(n)])
        H_DTYPE = T("h.dtype")
        E = T("E")
        KR = T("kernel_vectors") if kernel != "none" else None
        KL = T("left_kernel_vectors") if kernel == "pair" else None
        is_complex = eng.fresh("matrix_is_complex", "bool")
        vec_complex = eng.fresh("rhs_is_complex", "bool")
        log = {"constrain": [], "factor": [], "ctx": [], "zeros": []}

        class HT(T):
            def m_getattr(s, e, name):
                if name == "dtype":
                    return H_DTYPE
                return super().m_getattr(e, name)
        h.__class__ = HT

        class Piv(T):
            def m_getattr(s, e, name):
                if name == "size":
                    return SI(npiv(s))
                return super().m_getattr(e, name)
        sizes = {}

        def npiv(p):
            key = id(p.args[0])
            if key not in sizes:
                sizes[key] = eng.fresh("n_pivots")
                eng.assume(sizes[key] >= 0)
                if isinstance(p.args[0], T) and p.args[0].head == "zeros_n_by_0":
                    eng.assume(sizes[key] == 0)
            return sizes[key]

        def kernel_pivot_rows(e, basis):
            return Piv("pivots", basis)

        class Proj(T):
            def m_binop(s, e, op, other, reflected):
                if type(op).__name__ == "MatMult" and not reflected and isinstance(other, Vec):
                    return Vec(T("MatMult", s, other.term))
                raise Unsupported("projector used other than as P @ vector")

        class Constrained(T):
            def m_getattr(s, e, name):
                if name == "data":
                    return T("data", s)
                return super().m_getattr(e, name)

        def constrain(e, mat, rows, cols=None):
            log["constrain"].append((mat, rows, cols))
            return Constrained("constrained", mat, rows, cols if cols is not None else rows)

        class Solve(Model):
            def __init__(s, matrix):
                s.matrix = matrix

            def m_call(s, e, args, kwargs):
                v, = args
                return Vec(T("solve", s.matrix, v.term if isinstance(v, Vec) else v))

        def factorized(e, m):
            log["factor"].append(m)
            return Solve(m)

        class Ctx(Model):
            def __init__(s):
                s.matrix, s.factored, s.symmetric = None, False, None
                log["ctx"].append(s)

            def m_getattr(s, e, name):
                if name == "set_matrix":
                    def set_matrix(e2, m, overwrite_a=False, symmetric=False):
                        s.matrix, s.symmetric = m, symmetric
                    return Builtin("set_matrix", set_matrix)
                if name == "factor":
                    def factor(e2):
                        e2.oblige("mumps:matrix-set-before-factor", z3.BoolVal(s.matrix is not None))
                        s.factored = True
                    return Builtin("factor", factor)
                if name == "solve":
                    def solve(e2, v, overwrite_b=False):
                        e2.oblige("mumps:factorised-before-solve", z3.BoolVal(s.factored))
                        return Vec(T("solve", s.matrix, v.term if isinstance(v, Vec) else v))
                    return Builtin("solve", solve)
                raise Unsupported(f"MUMPSContext.{name}")

        def import_hook(e, stmt, env):
            if stmt.module != "mumps":
                raise Unsupported(f"import from {stmt.module}")
            if not mumps:
                raise PyRaise(SExc("ImportError", ("No module named 'mumps'",)))
            for a in stmt.names:
                if a.name != "Context":
                    raise Unsupported(f"from mumps import {a.name}")
                env.set(a.asname or a.name, Builtin("MUMPSContext", lambda e2: Ctx()))

        def iscomplexobj(e, x):
            if isinstance(x, T) and x.head == "data":
                return SB(is_complex)
            if isinstance(x, Vec):
                return SB(vec_complex)
            raise Unsupported(f"np.iscomplexobj({x!r})")

        def np_zeros(e, shape, dtype=None):
            s = e.as_seq(shape)
            e.oblige("empty-kernel-basis-has-n-rows-and-no-columns", z3.And(zi(s.items[0]) == n, zi(s.items[1]) == 0))
            z = T("zeros_n_by_0")
            log["zeros"].append(z)
            return z
        eng.globals.update({
            "__import_hook__": import_hook,
            "sparse": Namespace("sparse", {"csr_array": Builtin("csr_array", lambda e, x: T("csr_array", x)), "csc_matrix": Builtin("csc_matrix", lambda e, x: T("csc_matrix", x)),
                                           "coo_array": Builtin("coo_array", lambda e, x: T("coo_array", x))}),
            "identity": Builtin("identity", lambda e, m, dtype=None, format=None: T("identity", m)),
            "np": Namespace("np", {"zeros": Builtin("zeros", np_zeros), "iscomplexobj": Builtin("iscomplexobj", iscomplexobj)}),
            "_kernel_pivot_rows": Builtin("_kernel_pivot_rows", kernel_pivot_rows),
            "_constrain_matrix": Builtin("_constrain_matrix", constrain),
            "ComplementProjector": Builtin("ComplementProjector", lambda e, a, b: Proj("P", a, b)),
            "factorized": Builtin("factorized", factorized),
        })
        gf = eng.call(Closure(node, Env(None, {}), "direct_greens_function"), [h, E], {"kernel_vectors": KR, "left_kernel_vectors": KL})
        # ---- what was factorised
        eng.oblige("constrain:called-once", z3.BoolVal(len(log["constrain"]) == 1))
        if len(log["constrain"]) != 1:
            return
        mat, rows, cols = log["constrain"][0]
        right = KR if KR is not None else (log["zeros"][0] if log["zeros"] else None)
        left = KL if KL is not None else right
        want_mat = T("Sub", T("Mult", E, T("csr_array", T("identity", SI(n)))), h)
        eng.oblige("constrain:matrix-is-E-times-identity-minus-h", term_eq(eng, mat, want_mat), detail=repr(mat))
        okr = isinstance(rows, T) and rows.head == "pivots" and rows.args[0] is left
        eng.oblige("constrain:replaced-equations-are-the-pivots-of-the-LEFT-kernel-basis", z3.BoolVal(okr),
                   detail=f"got {rows!r}; the redundant equations of (E - h) x = v are fixed by the left kernel vectors (L^H (E - h) = 0), see PV.Direct.greens_solves row_gauge")
        cc = cols if cols is not None else rows
        okc = isinstance(cc, T) and cc.head == "pivots" and cc.args[0] is right
        eng.oblige("constrain:unknowns-set-to-zero-are-the-pivots-of-the-RIGHT-kernel-basis", z3.BoolVal(okc),
                   detail=f"got {cc!r}; the gauge freedom x -> x + K c is fixed by the right kernel vectors, see PV.Direct.constrained_injective col_gauge")
        constrained = T("constrained", mat, rows, cc)
        if mumps:
            okm = len(log["ctx"]) == 1 and not log["factor"] and term_eq_py(log["ctx"][0].matrix, T("coo_array", constrained))
            eng.oblige("mumps:factorises-the-constrained-matrix", z3.BoolVal(okm), detail=repr(log["ctx"][0].matrix) if log["ctx"] else "no context")
            if okm:
                sym = log["ctx"][0].symmetric
                symz = sym.e if isinstance(sym, SB) else z3.BoolVal(bool(sym))
                eng.oblige("mumps:symmetric-storage-only-for-a-real-unconstrained-matrix", z3.Implies(symz, z3.And(z3.Not(is_complex), npiv(rows) == 0)) if okr else z3.BoolVal(False))
            solver_matrix = T("coo_array", constrained)
        else:
            okf = len(log["factor"]) == 1 and not log["ctx"] and term_eq_py(log["factor"][0], T("csc_matrix", constrained))
            eng.oblige("lu:factorises-the-constrained-matrix", z3.BoolVal(okf), detail=repr(log["factor"]))
            solver_matrix = T("csc_matrix", constrained)
        # ---- the closure
        v = Vec(T("v"))
        res = eng.call(gf, [v], {})
        eng.oblige("apply:callers-vector-not-modified", z3.BoolVal(term_eq_py(v.term, T("v"))), detail=repr(v.term))
        P = T("P", right, left)
        b = T("zero_rows", T("MatMult", P, T("v")), rows)
        okp = isinstance(res, Vec) and res.term.head == "MatMult" and term_eq_py(res.term.args[0], P)
        eng.oblige("apply:result-projected-on-the-kernel-complement", z3.BoolVal(okp), detail=repr(res)[:300])
        eng.oblige("apply:projector-built-from-right-and-left-kernel-bases-in-this-order", z3.BoolVal(okp and res.term.args[0].args[0] is right and res.term.args[0].args[1] is left))
        if not okp:
            return
        x = res.term.args[1]
        whole = T("solve", solver_matrix, b)
        split = T("Add", T("solve", solver_matrix, T("real", b)), T("Mult", 1j, T("solve", solver_matrix, T("imag", b))))
        is_whole, is_split = term_eq_py(x, whole), term_eq_py(x, split)
        eng.oblige("apply:solves-the-constrained-system-for-the-projected-rhs-with-the-replaced-rows-zeroed", z3.BoolVal(is_whole or is_split),
                   detail=f"got {x!r}; want solve(M_c, (1 - D) P v) with D the rows {rows!r}")
        eng.oblige("apply:rhs-split-into-real-and-imaginary-part-exactly-when-the-factorisation-is-real-and-the-rhs-complex",
                   z3.BoolVal(is_split) == z3.And(vec_complex, z3.Not(is_complex)), detail=repr(x)[:200])
    return run_unit(f"linalg:direct_greens_function[kernel={kernel},{'mumps' if mumps else 'scipy-lu'}]", harness, functions=[(MODULE, "direct_greens_function")], timeout_ms=timeout_ms)


# ------------------------------------------------------------------------------------------------ _kernel_pivot_rows
def unit_kernel_pivot_rows(timeout_ms=20000):
    """The pivots are the first k column pivots of a pivoted QR of the TRANSPOSED basis (columns of K^T = rows of K), k = number of kernel vectors;
    no vectors: no pivots.  (A-SC: for a full-column-rank n x k basis those k rows form an invertible k x k submatrix.)"""
    node = frontend.find(MODULE, "_kernel_pivot_rows")

    def harness(eng):
        n, k = eng.fresh("n"), eng.fresh("k")
        eng.assume(z3.And(n >= 1, k >= 0, k <= n))
        Kv = T("kernel_vectors")
        Kv.shape = STup([SI(n), SI(k)])
        calls = []

        class Pivots(Model):
            def m_getitem(s, e, key):
                from pyvc.core import SSlice
                if isinstance(key, SSlice) and key.lo is None and key.step is None:
                    return T("leading_pivots", key.hi if not isinstance(key.hi, SI) else key.hi)
                raise Unsupported("pivots[...]")

        def qr(e, a, mode=None, pivoting=False, **kw):
            calls.append((a, mode, pivoting, kw))
            return STup([T("Q"), T("R"), Pivots()])
        eng.globals.update({"qr": Builtin("qr", qr), "int": T("int"),
                            "np": Namespace("np", {"array": Builtin("array", lambda e, x, dtype=None: T("empty_array") if len(e.as_seq(x).items) == 0 else T("array?")),
                                                   "sort": Builtin("sort", lambda e, x: T("sorted", x))})})
        res = eng.call(Closure(node, Env(None, {}), "_kernel_pivot_rows"), [Kv], {})
        if eng.branch(k == 0):
            eng.oblige("no-kernel-vectors:no-pivots", z3.BoolVal(isinstance(res, T) and res.head == "empty_array" and not calls), detail=repr(res))
            return
        ok = len(calls) == 1 and isinstance(calls[0][0], T) and calls[0][0].head == "attr:T" and calls[0][0].args[0] is Kv
        eng.oblige("qr-of-the-transposed-basis-(pivoting-selects-rows-of-the-basis)", z3.BoolVal(ok), detail=repr(calls)[:200])
        eng.oblige("qr-with-column-pivoting", z3.BoolVal(len(calls) == 1 and calls[0][2] is True))
        okr = isinstance(res, T) and res.head == "sorted" and isinstance(res.args[0], T) and res.args[0].head == "leading_pivots"
        eng.oblige("returns-the-leading-pivots", z3.BoolVal(okr), detail=repr(res))
        if okr:
            eng.oblige("as-many-pivots-as-kernel-vectors", zi(res.args[0].args[0]) == k)
    return run_unit("linalg:_kernel_pivot_rows", harness, functions=[(MODULE, "_kernel_pivot_rows")], timeout_ms=timeout_ms)


def specs():
    out = [("contracts.linalg_direct", "unit_constrain_matrix", {"cols_given": cg}) for cg in (True, False)]
    out += [("contracts.linalg_direct", "unit_direct_greens_function", {"kernel": k, "mumps": m}) for k in ("none", "same", "pair") for m in (False, True)]
    return out
