"""Contracts for BlockSeries index validation and __getitem__ (C19, C10, C11, C12).

Order items (the indices of the infinite dimensions) are modelled as a tagged union
    int k | slice(start|None, stop|None, step|None) | list of ints (abstracted by min / max / emptiness)
with symbolic tag and fields.  Well-formedness (DESIGN.md Appendix B):
    wf(int k)   <=> k >= 0
    wf(list l)  <=> every element >= 0
    wf(slice)   <=> stop is an int >= 0 and (start is None or start >= 0)      [step None or >= 1: precondition]

numpy facts used (assumptions A-NP2 / N1-N3, listed in evidence):
  N-min/max : np.min(x, initial=0) / np.max(x, initial=0) of an int or int list is min/max over the
              elements and 0;
  N-scalar  : a[item] is a scalar iff every entry of item is an integer;
  N1        : after a = zeros(shape); a[item] = 1, np.where(a) enumerates exactly Addr(item, shape);
  N2        : a[item] gathers exactly the entries at Addr(item, shape);
  N3        : if every order item is well-formed and the bound of its axis is (k+1 | max+1 | stop),
              no index wraps or is clipped, i.e. Addr(item, trial_shape) is the set addressed in the
              unbounded array.
The obligations below establish the premises of N3 from the real code and verify the cache
protocol of the loop body for an arbitrary addressed index.
"""
from __future__ import annotations

import ast

import z3

from pyvc import frontend
from pyvc.core import (
    Closure, Env, STup, SVec, SI, SB, SExc, SStr, SSlice, Model, Builtin, Namespace, TypeObj, PyRaise,
    Unsupported, PathInfeasible, _Cont, _Brk, _Ret, wrap_bool, wrap_int, zi, zb,
)
from pyvc.models import SObj, ZERO, ONE, PENDING, TAG_ZERO, TAG_ONE, TAG_VAL, TAG_PENDING
from pyvc.nf import NF, Atom
from pyvc.unit import run_unit

MODULE = "series"
KIND_INT, KIND_SLICE, KIND_LIST = 0, 1, 2


class SNoneable(Model):
    """A value that is either None or an int (slice fields)."""

    def __init__(self, is_none, val):
        self.is_none, self.val = is_none, val

    def m_is(self, eng, other):
        if other is None:
            return wrap_bool(self.is_none)
        raise Unsupported("identity of slice field")

    def m_isinstance(self, eng, clsname):
        if clsname == "int":
            return wrap_bool(z3.Not(self.is_none))
        raise Unsupported(f"isinstance(slice field, {clsname})")

    def m_binop(self, eng, op, other, reflected):
        # comparisons with ints: None < 0 raises TypeError in Python
        if isinstance(op, (ast.Lt, ast.LtE, ast.Gt, ast.GtE)):
            if eng.branch(self.is_none):
                raise PyRaise(SExc("TypeError", ("'<' not supported between NoneType and int",)))
            return eng.compare(op, SI(self.val), other) if not reflected else eng.compare(op, other, SI(self.val))
        return NotImplemented


class SOrderItem(Model):
    def __init__(self, eng, label):
        f = eng.fresh
        self.label = label
        self.kind = f(f"{label}_kind")
        eng.assume(z3.And(self.kind >= 0, self.kind <= 2))
        self.v = f(f"{label}_int")
        self.start_none = f(f"{label}_startNone", "bool")
        self.start = f(f"{label}_start")
        self.stop_none = f(f"{label}_stopNone", "bool")
        self.stop = f(f"{label}_stop")
        self.step_none = f(f"{label}_stepNone", "bool")
        self.step = f(f"{label}_step")
        self.lmin = f(f"{label}_listmin")
        self.lmax = f(f"{label}_listmax")
        self.lempty = f(f"{label}_listempty", "bool")
        eng.assume(z3.Implies(z3.Not(self.lempty), self.lmin <= self.lmax))
        # forward slices only (statement of C19): step is None or >= 1
        eng.assume(z3.Or(self.step_none, self.step >= 1))

    def wf(self):
        return z3.If(
            self.kind == KIND_INT, self.v >= 0,
            z3.If(self.kind == KIND_LIST, z3.Or(self.lempty, self.lmin >= 0),
                  z3.And(z3.Not(self.stop_none), self.stop >= 0, z3.Or(self.start_none, self.start >= 0))))

    def required_bound(self):
        """Extent of the trial axis that makes Addr(item, trial) = Addr in the unbounded array."""
        return z3.If(self.kind == KIND_INT, self.v + 1,
                     z3.If(self.kind == KIND_LIST, z3.If(self.lempty, 1, self.lmax + 1), self.stop))

    def m_isinstance(self, eng, clsname):
        if clsname == "slice":
            return wrap_bool(self.kind == KIND_SLICE)
        if clsname == "int":
            return wrap_bool(self.kind == KIND_INT)
        if clsname == "list":
            return wrap_bool(self.kind == KIND_LIST)
        if clsname == "tuple":
            return False
        raise Unsupported(f"isinstance(order item, {clsname})")

    def m_getattr(self, eng, name):
        if not eng.valid(self.kind == KIND_SLICE):
            if eng.branch(self.kind != KIND_SLICE):
                raise PyRaise(SExc("AttributeError", (name,)))
        if name == "stop":
            return SNoneable(self.stop_none, self.stop)
        if name == "start":
            return SNoneable(self.start_none, self.start)
        if name == "step":
            return SNoneable(self.step_none, self.step)
        raise Unsupported(f"slice.{name}")

    # np.min / np.max with initial=0 (N-min/max)
    def np_min0(self, eng):
        if eng.branch(self.kind == KIND_SLICE):
            raise PyRaise(SExc("TypeError", ("np.min of a slice",)))
        return z3.If(self.kind == KIND_INT, z3.If(self.v < 0, self.v, 0),
                     z3.If(z3.Or(self.lempty, self.lmin >= 0), 0, self.lmin))

    def np_max0(self, eng):
        if eng.branch(self.kind == KIND_SLICE):
            raise PyRaise(SExc("TypeError", ("np.max of a slice",)))
        return z3.If(self.kind == KIND_INT, z3.If(self.v > 0, self.v, 0),
                     z3.If(z3.Or(self.lempty, self.lmax <= 0), 0, self.lmax))


def np_namespace(extra=None):
    def _min(eng, x, initial=None, **kw):
        eng.used_models.add("A-NP2:np.min/np.max(initial=0) on int or int list")
        if isinstance(x, SOrderItem) and initial == 0:
            return wrap_int(x.np_min0(eng))
        raise Unsupported("np.min on this value")

    def _max(eng, x, initial=None, **kw):
        eng.used_models.add("A-NP2:np.min/np.max(initial=0) on int or int list")
        if isinstance(x, SOrderItem) and initial == 0:
            return wrap_int(x.np_max0(eng))
        raise Unsupported("np.max on this value")

    d = {"min": Builtin("np.min", _min), "max": Builtin("np.max", _max)}
    d.update(extra or {})
    return Namespace("np", d)


class SOrderSeq(Model):
    """A tuple of order items of arbitrary (symbolic) length: a `for` over it is checked for an
    arbitrary element (sound when the body carries no state between iterations, which is checked)."""

    def __init__(self, on_normal, on_raise):
        self.on_normal, self.on_raise = on_normal, on_raise

    def m_for(self, eng, stmt, env):
        assigned = {n.id for n in ast.walk(ast.Module(body=stmt.body, type_ignores=[])) if isinstance(n, ast.Name) and isinstance(n.ctx, ast.Store)}
        target_names = {n.id for n in ast.walk(stmt.target) if isinstance(n, ast.Name)}
        carried = [a for a in assigned - target_names if env.has(a)]
        if carried:
            raise Unsupported(f"validation loop carries state {carried}")
        elem = SOrderItem(eng, "order")
        eng.assign(stmt.target, elem, env)
        try:
            eng.exec_block(stmt.body, env)
        except _Cont:
            pass
        except _Brk:
            raise Unsupported("break in validation loop")
        except PyRaise as pr:
            self.on_raise(eng, elem, pr.exc)
            raise PathInfeasible()  # this path ends with the (checked) exception
        self.on_normal(eng, elem)
        if stmt.orelse:
            eng.exec_block(stmt.orelse, env)


def unit_check_finite(timeout_ms=10000, canary=False):
    node = frontend.find(MODULE, "BlockSeries._check_finite")

    def harness(eng):
        def on_normal(eng_, elem):
            goal = elem.wf() if not canary else z3.And(elem.wf(), elem.kind != KIND_LIST)
            eng_.oblige("normal-return-implies-wellformed", goal,
                        detail="if no IndexError is raised for an order item then it is a non-negative int, a list of non-negative ints, or a slice with finite non-negative stop and non-negative start")

        def on_raise(eng_, elem, exc):
            eng_.oblige("raises-only-IndexError", z3.BoolVal(exc.cls == "IndexError"), detail=f"exception class {exc.cls}")
            eng_.oblige("raises-only-if-illformed", z3.Not(elem.wf()),
                        detail="IndexError is raised only for an ill-formed (infinite or negative) order")

        orders = SOrderSeq(on_normal, on_raise)
        eng.globals["np"] = np_namespace()
        clo = Closure(node, Env(None, {}), "_check_finite")
        eng.call(clo, [None, orders], {})

    r = run_unit("series:BlockSeries._check_finite" + ("[canary]" if canary else ""), harness,
                 functions=[(MODULE, "BlockSeries._check_finite")], timeout_ms=timeout_ms)
    return r


class SShapeSelf(Model):
    """`self` for _check_number_perturbations: shape of symbolic length, n_infinite symbolic."""

    def __init__(self, nfin, ninf):
        self.nfin, self.ninf = nfin, ninf

    def m_getattr(self, eng, name):
        if name == "shape":
            return STup([], SVec(z3.Array("shape", z3.IntSort(), z3.IntSort()), self.nfin))
        if name == "n_infinite":
            return SI(self.ninf)
        raise Unsupported(f"self.{name}")


def unit_check_number_perturbations(timeout_ms=10000):
    node = frontend.find(MODULE, "BlockSeries._check_number_perturbations")

    def harness(eng):
        nfin, ninf, L = z3.Ints("n_finite n_infinite len_item")
        eng.assume(z3.And(nfin >= 0, ninf >= 0, L >= 0))
        item = STup([], SVec(z3.Array("item", z3.IntSort(), z3.IntSort()), L))
        clo = Closure(node, Env(None, {}), "_check_number_perturbations")
        try:
            eng.call(clo, [SShapeSelf(nfin, ninf), item], {})
        except PyRaise as pr:
            eng.oblige("raises-only-IndexError", z3.BoolVal(pr.exc.cls == "IndexError"))
            eng.oblige("raises-iff-wrong-arity", L != nfin + ninf, detail="IndexError iff len(item) != len(shape) + n_infinite")
            return
        eng.oblige("normal-return-implies-arity", L == nfin + ninf)

    return run_unit("series:BlockSeries._check_number_perturbations", harness,
                    functions=[(MODULE, "BlockSeries._check_number_perturbations")], timeout_ms=timeout_ms)


# ======================================================================================
# BlockSeries.__getitem__  (element-request branch): cache protocol + index resolution
# ======================================================================================

KeySort = z3.DeclareSort("Key")
_present = lambda name: z3.Array(name, KeySort, z3.BoolSort())
_tags = lambda name: z3.Array(name, KeySort, z3.IntSort())


class SKey(Model):
    """An index tuple produced by zip(*np.where(trial)) (opaque)."""

    def __init__(self, k):
        self.k = k

    def m_iter(self, eng):
        return STup([StarKey(self)], None)  # `*index` in a call


class StarKey:
    def __init__(self, key):
        self.key = key


class CacheState:
    """Functional model of the dict self._data: presence, sentinel tag (0 zero,1 one,2 regular,
    3 PENDING) and a ghost flag good[k] = 'the stored object denotes val(self, k)'."""

    def __init__(self, present, tag, good):
        self.present, self.tag, self.good = present, tag, good

    def inv_at(self, k):
        return z3.And(
            z3.Select(self.tag, k) >= 0, z3.Select(self.tag, k) <= 3,
            z3.Implies(z3.And(z3.Select(self.present, k), z3.Select(self.tag, k) != TAG_PENDING), z3.Select(self.good, k)),
        )


class SCacheObj(Model):
    """An object read from the cache / returned by eval: tag + ghost goodness."""

    def __init__(self, tag, good, exact_key=None):
        self.tag, self.good = tag, good

    def m_is(self, eng, other):
        if other is PENDING:
            return wrap_bool(self.tag == TAG_PENDING)
        if other is ZERO:
            return wrap_bool(self.tag == TAG_ZERO)
        raise Unsupported("identity test on cached object")


class SDataDict(Model):
    def __init__(self, owner):
        self.owner = owner  # harness state holder with .cache (CacheState)

    def _k(self, key):
        if isinstance(key, SKey):
            return key.k
        raise Unsupported(f"cache key {key!r}")

    def m_contains(self, eng, item):
        return wrap_bool(z3.Select(self.owner.cache.present, self._k(item)))

    def m_getitem(self, eng, key):
        k = self._k(key)
        c = self.owner.cache
        if not eng.valid(z3.Select(c.present, k)):
            if eng.branch(z3.Not(z3.Select(c.present, k))):
                raise PyRaise(SExc("KeyError", ()))
        return SCacheObj(z3.Select(c.tag, k), z3.Select(c.good, k))

    def m_setitem(self, eng, key, value):
        k = self._k(key)
        c = self.owner.cache
        if value is PENDING:
            tag, good = z3.IntVal(TAG_PENDING), z3.BoolVal(False)
        elif isinstance(value, SCacheObj):
            tag, good = value.tag, value.good
        else:
            raise Unsupported(f"store of {value!r} into the cache")
        self.owner.cache = CacheState(z3.Store(c.present, k, True), z3.Store(c.tag, k, tag), z3.Store(c.good, k, good))
        self.owner.writes.append(("set", k))

    def m_getattr(self, eng, name):
        if name == "pop":
            def pop(eng_, key, default=None):
                if isinstance(key, SKey):
                    k = self._k(key)
                else:
                    # a key that is not a normalised element index (e.g. the caller's raw request): some key of the dictionary's key
                    # space, not known to be related to any element index (over-approximation)
                    eng_.used_models.add("cache.pop(<raw request>): removes an unspecified key")
                    k = z3.Const(eng_.fresh_name("popped_key_of_raw_request"), KeySort)
                c = self.owner.cache
                self.owner.cache = CacheState(z3.Store(c.present, k, False), c.tag, c.good)
                self.owner.writes.append(("pop", k))
                return None
            return Builtin("dict.pop", pop)
        if name == "get":
            raise Unsupported("dict.get on cache")
        raise Unsupported(f"dict.{name} on cache")


class STrial(Model):
    def __init__(self, owner, shape_items):
        self.owner = owner
        self.shape_items = shape_items
        self.marked = None

    def m_getattr(self, eng, name):
        if name == "shape":
            return STup(list(self.shape_items))
        raise Unsupported(f"trial.{name}")

    def m_getitem(self, eng, key):
        if isinstance(key, STup):  # trial[item]
            eng.used_models.add("A-NP2/N2:trial[item] gathers exactly Addr(item, shape)")
            return SGather(self.owner, key)
        raise Unsupported("trial[...] with this key")

    def m_setitem(self, eng, key, value):
        o = self.owner
        if isinstance(key, STup):
            if value != 1:
                raise Unsupported("trial[item] = <not 1>")
            eng.used_models.add("A-NP2/N1:trial[item]=1 on zeros marks exactly Addr(item, shape)")
            o.marked_item = key
            return
        if isinstance(key, SKey):
            if not isinstance(value, SCacheObj):
                raise Unsupported("trial[index] = <non cache object>")
            o.trial_good = z3.Store(o.trial_good, key.k, z3.And(value.good, value.tag != TAG_PENDING))
            o.trial_writes.append(key.k)
            return
        raise Unsupported("trial store")


class SGather(Model):
    def __init__(self, owner, item):
        self.owner, self.item = owner, item
        self.masked = False


class SWhere(Model):
    def __init__(self, trial):
        self.trial = trial

    def m_iter(self, eng):
        return STup([StarWhere(self)], None)


class StarWhere:
    def __init__(self, w):
        self.w = w


class SAddrSpace(Model):
    """zip(*np.where(trial)) after trial[item] = 1: the addressed index tuples."""

    def __init__(self, owner, trial):
        self.owner, self.trial = owner, trial

    def m_for(self, eng, stmt, env):
        return self.owner.loop_rule(eng, self, stmt, env)


class SEvalCallback(Model):
    def __init__(self, owner):
        self.owner = owner

    def m_call(self, eng, args, kwargs):
        return self.owner.eval_contract(eng, args)


class SImplSelf(Model):
    """`self` inside __getitem__ (implementation view)."""

    def __init__(self, owner, shape_items, ninf):
        self.owner, self.shape_items, self.ninf = owner, shape_items, ninf

    def m_getattr(self, eng, name):
        o = self.owner
        if name == "shape":
            return STup(list(self.shape_items))
        if name == "n_infinite":
            return self.ninf
        if name == "_data":
            return o.data
        if name == "eval":
            return SEvalCallback(o)
        if name == "_check_finite":
            return Builtin("_check_finite", o.check_finite_contract)
        if name == "_check_number_perturbations":
            return Builtin("_check_number_perturbations", o.check_number_contract)
        if name == "dimension_names":
            return SStr("dims")
        raise Unsupported(f"self.{name} in __getitem__")

    def m_isinstance(self, eng, clsname):
        return clsname == "BlockSeries"


class GetitemHarness:
    """One instantiation: n_finite finite dimensions (ints, symbolic values), n_inf order items."""

    def __init__(self, nfin, ninf, canary=None):
        self.nfin, self.ninf, self.canary = nfin, ninf, canary

    def __call__(self, eng):
        self.eng = eng
        self.writes = []
        self.trial_writes = []
        self.eval_calls = 0
        self.marked_item = None
        self.in_loop = False
        node = frontend.find(MODULE, "BlockSeries.__getitem__")
        shape_items = [SI(eng.fresh(f"shape{i}")) for i in range(self.nfin)]
        for s in shape_items:
            eng.assume(s.e >= 1)
        # finite-dimension indices: ints (possibly negative, numpy semantics) - symbolic values
        fin_items = [SI(eng.fresh(f"fin{i}")) for i in range(self.nfin)]
        self.orders = [SOrderItem(eng, f"ord{i}") for i in range(self.ninf)]
        item = STup(fin_items + self.orders)
        self.cache = CacheState(_present("present0"), _tags("tag0"), z3.Array("good0", KeySort, z3.BoolSort()))
        self.cache0 = self.cache
        self.trial_good = z3.K(KeySort, z3.BoolVal(False))
        self.data = SDataDict(self)
        self_obj = SImplSelf(self, shape_items, self.ninf)

        def np_zeros(eng_, shape, dtype=None):
            seq = eng_.as_seq(shape)
            # obligations N3-premises: extent of each infinite axis is the required bound
            def as_int(x, d):
                if isinstance(x, SNoneable):
                    eng_.oblige(f"trial-extent-is-int:axis{d}", z3.Not(x.is_none), detail="extent of a trial axis is an integer (slice stop is not None)")
                    return x.val
                return zi(x)
            for d, (ext, order) in enumerate(zip(seq.items[self.nfin:], self.orders)):
                eng_.oblige(f"trial-extent-adequate:axis{d}", as_int(ext, d) == order.required_bound(),
                            detail="extent of the trial axis equals k+1 / max+1 / stop, so no addressed index is clipped (premise of N3)")
            for d, (ext, sh) in enumerate(zip(seq.items[: self.nfin], shape_items)):
                eng_.oblige(f"trial-extent-finite:axis{d}", zi(ext) == sh.e, detail="finite axes of the trial array have the series' shape")
            eng_.oblige("trial-rank", z3.BoolVal(len(seq.items) == self.nfin + self.ninf))
            self.trial = STrial(self, seq.items)
            return self.trial

        def np_isscalar(eng_, x):
            eng_.used_models.add("A-NP2/N-scalar:a[item] is a scalar iff all entries of item are integers")
            if isinstance(x, SGather):
                return wrap_bool(z3.And(*[o.kind == KIND_INT for o in self.orders])) if self.orders else True
            raise Unsupported("np.isscalar")

        def np_where(eng_, t):
            if t is not getattr(self, "trial", None) or self.marked_item is None:
                raise Unsupported("np.where on something else than the marked trial array")
            return SWhere(t)

        def zip_(eng_, *args):
            if len(args) == 1 and isinstance(args[0], StarWhere):
                return SAddrSpace(self, args[0].w.trial)
            raise Unsupported("zip in __getitem__")

        def masked_where(eng_, mask, arr):
            if not (isinstance(mask, SMaskOf) and mask.arr is arr and isinstance(arr, SGather)):
                raise Unsupported("ma.masked_where arguments")
            g = SGather(self, arr.item)
            g.masked = True
            return g

        def mask_fn(eng_, arr):
            return SMaskOf(arr)

        eng.globals["np"] = np_namespace({"zeros": Builtin("np.zeros", np_zeros), "isscalar": Builtin("np.isscalar", np_isscalar),
                                          "where": Builtin("np.where", np_where)})
        eng.globals["ma"] = Namespace("ma", {"masked_where": Builtin("ma.masked_where", masked_where)})
        eng.globals["_mask"] = Builtin("_mask", mask_fn)
        eng.globals["zip"] = Builtin("zip", zip_)
        eng.globals["object"] = TypeObj("object")
        self.entry_pending_ok = True
        clo = Closure(node, Env(None, {}), "__getitem__")
        self.wf_all = z3.And(*[o.wf() for o in self.orders]) if self.orders else z3.BoolVal(True)
        try:
            res = eng.call(clo, [self_obj, item], {})
        except PyRaise as pr:
            self.on_exception(eng, pr.exc)
            return
        # normal return
        eng.oblige("normal-return-implies-orders-wellformed", self.wf_all,
                   detail="a value is returned only for finite, non-negative order requests")
        if not isinstance(res, SGather):
            eng.oblige("returns-gather", False, detail=f"returned {res!r}")
            return
        one_entry = z3.And(*[o.kind == KIND_INT for o in self.orders]) if self.orders else z3.BoolVal(True)
        eng.oblige("masked-iff-not-single-entry", z3.BoolVal(res.masked) == z3.Not(one_entry),
                   detail="a multi-element result is returned with zero entries masked, a single entry as is")
        eng.oblige("result-gathers-requested-item", z3.BoolVal(res.item is item or _same_item(res.item, item)),
                   detail="the returned value is trial[item] for the item requested")
        # every addressed entry was filled with a good value: follows from the loop rule (checked there)
        eng.oblige("loop-was-executed", z3.BoolVal(self.in_loop), detail="the evaluation loop ran over the addressed indices")

    # ---- contracts of the callees ---------------------------------------------------
    def check_finite_contract(self, eng, orders):
        seq = eng.as_seq(orders)
        eng.oblige("call:_check_finite-gets-order-part", z3.BoolVal(len(seq.items) == self.ninf and all(a is b for a, b in zip(seq.items, self.orders))),
                   detail="_check_finite is applied to exactly the indices of the infinite dimensions")
        eng.used_models.add("contract:BlockSeries._check_finite (verified as its own unit)")
        # contract: raises IndexError iff some order is ill-formed
        if eng.branch(z3.Not(self.wf_all)):
            raise PyRaise(SExc("IndexError", ("ill-formed order",), tag="from-check-finite"))
        return None

    def check_number_contract(self, eng, item):
        seq = eng.as_seq(item)
        eng.used_models.add("contract:BlockSeries._check_number_perturbations (verified as its own unit)")
        if len(seq.items) != self.nfin + self.ninf:
            raise PyRaise(SExc("IndexError", ("Wrong number of indices",)))
        return None

    def eval_contract(self, eng, args):
        """Rely condition on self.eval (established for generated evaluators by C09, for product
        evaluators by C18, assumed for user callbacks): it returns an object denoting
        val(self, index) or raises; meanwhile the cache may change arbitrarily subject to the
        cache invariant, in-flight (PENDING) entries stay in flight and no new PENDING entry is
        left behind."""
        if not (len(args) == 1 and isinstance(args[0], StarKey)):
            self.eng.oblige("eval-called-with-the-index", False, detail="self.eval must be called as eval(*index)")
            raise Unsupported("eval call shape")
        k = args[0].key.k
        self.eval_calls += 1
        self.eval_keys.append(k)
        old = self.cache
        new = CacheState(_present(eng.fresh_name("present")), _tags(eng.fresh_name("tag")), z3.Array(eng.fresh_name("good"), KeySort, z3.BoolSort()))
        self.cache = new
        self.havocs.append((old, new))
        # facts about the new state at the keys we care about are added lazily via instantiate()
        for kk in self.interesting_keys():
            self.instantiate(eng, old, new, kk)
        raises = eng.fresh("eval_raises", "bool")
        if eng.branch(raises):
            flags = {"is_RuntimeError": eng.fresh("exc_is_RuntimeError", "bool"), "is_Exception": eng.fresh("exc_is_Exception", "bool")}
            eng.assume(z3.Implies(flags["is_RuntimeError"], flags["is_Exception"]))
            flags["is_BaseException"] = z3.BoolVal(True)
            exc = SExc(None, (), flags=flags, tag="from-eval")
            self.eval_exc = exc
            raise PyRaise(exc)
        return SCacheObj(eng.fresh("ret_tag"), z3.BoolVal(True)) if False else self._ret(eng)

    def _ret(self, eng):
        t = eng.fresh("ret_tag")
        eng.assume(z3.And(t >= 0, t <= 2))  # eval returns zero, one or a regular value, never PENDING
        return SCacheObj(t, z3.BoolVal(True))

    def interesting_keys(self):
        return list(self.keys)

    def instantiate(self, eng, old, new, k):
        sel = z3.Select
        eng.assume(new.inv_at(k))
        # in-flight entries stay in flight
        eng.assume(z3.Implies(z3.And(sel(old.present, k), sel(old.tag, k) == TAG_PENDING),
                              z3.And(sel(new.present, k), sel(new.tag, k) == TAG_PENDING)))
        # nothing new is left in flight
        eng.assume(z3.Implies(z3.And(sel(new.present, k), sel(new.tag, k) == TAG_PENDING),
                              z3.And(sel(old.present, k), sel(old.tag, k) == TAG_PENDING)))

    # ---- the loop rule -----------------------------------------------------------------
    def loop_rule(self, eng, space, stmt, env):
        self.in_loop = True
        eng.oblige("loop-over-addressed-set", z3.BoolVal(space.trial is self.trial and self.marked_item is not None),
                   detail="iteration is over np.where(trial) after trial[item] = 1")
        k = z3.Const(eng.fresh_name("index"), KeySort)
        other = z3.Const(eng.fresh_name("otherkey"), KeySort)
        eng.assume(other != k)
        self.keys = [k, other]
        self.havocs = []
        self.eval_keys = []
        self.eval_exc = None
        # arbitrary iteration: arbitrary cache state satisfying the invariant
        pre = CacheState(_present(eng.fresh_name("present")), _tags(eng.fresh_name("tag")), z3.Array(eng.fresh_name("good"), KeySort, z3.BoolSort()))
        for kk in self.keys:
            eng.assume(pre.inv_at(kk))
        self.cache = pre
        tg_pre = self.trial_good
        self.writes = []
        self.trial_writes = []
        self.eval_calls = 0
        eng.assign(stmt.target, SKey(k), env)
        sel = z3.Select
        was_present = sel(pre.present, k)
        was_pending = z3.And(was_present, sel(pre.tag, k) == TAG_PENDING)
        try:
            eng.exec_block(stmt.body, env)
        except (_Cont,):
            pass
        except _Brk:
            raise Unsupported("break in the evaluation loop")
        except PyRaise as pr:
            post = self.cache
            exc = pr.exc
            if exc.tag == "from-eval" or (exc.cause is not None and getattr(exc.cause, "tag", None) == "from-eval"):
                # C11: exceptional exit caused by the callback
                eng.oblige("exc:index-removed-from-cache", z3.Not(sel(post.present, k)),
                           detail="after an exception in eval the in-flight marker of this index is removed")
                eng.oblige("exc:no-new-pending", z3.Implies(z3.And(sel(post.present, other), sel(post.tag, other) == TAG_PENDING),
                                                            z3.And(sel(pre.present, other), sel(pre.tag, other) == TAG_PENDING)),
                           detail="no other entry is left in flight")
                eng.oblige("exc:cache-invariant-preserved", z3.And(post.inv_at(k), post.inv_at(other)))
                orig = self.eval_exc
                if exc is orig:
                    eng.oblige("exc:non-RuntimeError-propagates-unchanged", z3.Not(orig.flags["is_RuntimeError"]),
                               detail="exceptions other than RuntimeError reach the caller as they are")
                else:
                    eng.oblige("exc:RuntimeError-wrapped", z3.And(z3.BoolVal(exc.cls == "RuntimeError" and exc.cause is orig), orig.flags["is_RuntimeError"]),
                               detail="a RuntimeError from eval is re-raised as RuntimeError chained to the original")
                eng.oblige("exc:eval-only-if-absent", z3.Not(was_present))
                eng.oblige("exc:single-eval", z3.BoolVal(self.eval_calls == 1))
            else:
                # the only other exception allowed: RuntimeError for an entry found in flight (self reference)
                eng.oblige("exc:recursion-is-RuntimeError", z3.BoolVal(exc.cls == "RuntimeError"), detail=f"{exc.cls}")
                eng.oblige("exc:recursion-only-if-in-flight", was_pending,
                           detail="RuntimeError('Infinite recursion') is raised only when the requested entry is in flight at entry")
                eng.oblige("exc:recursion-leaves-cache-unchanged", z3.BoolVal(not self.writes and self.eval_calls == 0))
            raise PathInfeasible()
        post = self.cache
        # C19 exactly-once / C10 cache invariant
        eng.oblige("eval-only-if-absent", z3.Implies(z3.BoolVal(self.eval_calls > 0), z3.Not(was_present)),
                   detail="eval is called only when the index is not cached at that time")
        eng.oblige("eval-at-most-once", z3.BoolVal(self.eval_calls <= 1))
        eng.oblige("eval-key-is-index", z3.And(*[kk == k for kk in self.eval_keys]) if self.eval_keys else z3.BoolVal(True))
        eng.oblige("eval-called-if-absent", z3.Implies(z3.Not(was_present), z3.BoolVal(self.eval_calls == 1)))
        eng.oblige("entry-cached-and-good", z3.And(sel(post.present, k), sel(post.tag, k) != TAG_PENDING, sel(post.good, k)),
                   detail="after the iteration the entry is cached, not in flight, and denotes val(self, index)")
        eng.oblige("not-in-flight-at-entry", z3.Not(was_pending), detail="normal completion implies the entry was not in flight")
        eng.oblige("cache-invariant-preserved", z3.And(post.inv_at(k), post.inv_at(other)))
        eng.oblige("no-new-pending", z3.Implies(z3.And(sel(post.present, other), sel(post.tag, other) == TAG_PENDING),
                                                z3.And(sel(pre.present, other), sel(pre.tag, other) == TAG_PENDING)))
        eng.oblige("cache-writes-only-at-index", z3.And(*[w[1] == k for w in self.writes]) if self.writes else z3.BoolVal(True),
                   detail="the loop body stores into / pops from the cache only at the current index")
        eng.oblige("trial-filled-with-good-value", sel(self.trial_good, k), detail="trial[index] receives an object denoting val(self,index)")
        eng.oblige("trial-written-only-at-index", z3.And(*[w == k for w in self.trial_writes]) if self.trial_writes else z3.BoolVal(False),
                   detail="trial is written at the current index and nowhere else")
        # after the loop: all addressed entries are good (forall-iteration rule); cache: arbitrary state satisfying Inv
        self.cache = CacheState(_present(eng.fresh_name("present")), _tags(eng.fresh_name("tag")), z3.Array(eng.fresh_name("good"), KeySort, z3.BoolSort()))
        if stmt.orelse:
            eng.exec_block(stmt.orelse, env)

    def on_exception(self, eng, exc):
        if exc.tag == "from-check-finite":
            return  # raised by the callee under its contract: IndexError iff ill-formed (checked in that unit)
        if exc.cls == "IndexError":
            eng.oblige("IndexError-only-for-wrong-arity-or-illformed", z3.BoolVal(True))
            return
        eng.oblige("no-other-exception", False, detail=f"unexpected exception {exc!r} outside the evaluation loop")


class SMaskOf(Model):
    def __init__(self, arr):
        self.arr = arr


def _same_item(a, b):
    return isinstance(a, STup) and isinstance(b, STup) and len(a.items) == len(b.items) and all(x is y for x, y in zip(a.items, b.items))


def unit_getitem(nfin, ninf, timeout_ms=10000):
    h = GetitemHarness(nfin, ninf)
    r = run_unit(f"series:BlockSeries.__getitem__[n_finite={nfin},n_infinite={ninf}]", h,
                 functions=[(MODULE, "BlockSeries.__getitem__")], timeout_ms=timeout_ms)
    r.bounded.append(f"number of finite dimensions = {nfin}, number of infinite dimensions = {ninf} (index values, kinds and cache state symbolic)")
    return r


# ======================================================================================
# finite-dimension-only indices: views
# ======================================================================================


def unit_getitem_view(kinds, ninf, timeout_ms=10000):
    """BlockSeries.__getitem__ on an index that names only the finite dimensions (len(item) == len(shape), n_infinite >= 1).
    kinds: per finite dimension one of  int | npint | slice | list  (values symbolic / opaque).
      all entries integers (Python or numpy)  =>  a BlockSeries of shape (), same n_infinite and dimension names, whose element `orders` is self[item + orders]
      otherwise  =>  a BlockSeries whose shape is the shape numpy gives for np.empty(self.shape)[item], same n_infinite and dimension names, whose element
                     (v, orders) is entry v of the array self[item + (o:o+1 for o in orders)] with masked entries replaced by zero and the trailing singleton
                     axes dropped (read through one packed intermediate series, so that the parent is asked once per order tuple).  The orders MUST be
                     requested as slices: appended integers would be advanced indices, and numpy moves the broadcast axes of advanced indices that a slice
                     separates to the front - the array would then not have the shape of np.empty(self.shape)[item] followed by the order axes
                     (defect repaired in /repo, 4b0825e; the first version of this contract had silently assumed the two shapes coincide).
                     Nothing is evaluated by creating the view."""
    from contracts.formats import T
    node = frontend.find(MODULE, "BlockSeries.__getitem__")
    all_int = all(k in ("int", "npint") for k in kinds)
    nview = sum(1 for k in kinds if k == "slice") + (1 if any(k == "list" for k in kinds) else 0)   # numpy: slices keep their axis, all lists broadcast to one

    class VT(T):
        METHODS = T.METHODS | {"filled", "reshape"}

        def m_getitem(self, eng, key):
            return VT("[]", self, key)

        def m_getattr(self, eng, name):
            if name == "shape":
                return VT(".shape", self)
            r = super().m_getattr(eng, name)
            if isinstance(r, Builtin) and name in self.METHODS:
                return Builtin(r.name, lambda e, *a, **kw: VT("." + name, self, *a))
            return r

    class SliceCls(TypeObj):
        """the builtin `slice`: a class for isinstance tests and a constructor"""
        def m_call(self, eng, args, kwargs):
            a = list(args) + [None] * (3 - len(args))
            return SSlice(a[0], a[1], a[2]) if len(args) > 1 else SSlice(None, a[0], None)

    class NpInt(T):
        def m_isinstance(self, eng, clsname):
            return clsname in ("integer", "np.integer", "Integral", "generic")

    class SliceItem(T):
        def m_isinstance(self, eng, clsname):
            return clsname == "slice"

    class ListItem(T):
        def m_isinstance(self, eng, clsname):
            return clsname in ("list", "Sequence")

    def harness(eng):
        made = []
        reads = []
        item_entries = []
        for d, k in enumerate(kinds):
            if k == "int":
                item_entries.append(SI(eng.fresh(f"fin{d}")))
            else:
                item_entries.append({"npint": NpInt, "slice": SliceItem, "list": ListItem}[k](f"item{d}"))
        item = STup(item_entries)
        shape = STup([SI(eng.fresh(f"shape{d}")) for d in range(len(kinds))])
        names = T("dimension_names")

        class Parent(Model):
            def m_getattr(self, e, name):
                if name == "shape":
                    return shape
                if name == "n_infinite":
                    return ninf
                if name == "dimension_names":
                    return names
                if name in ("_check_finite", "_check_number_perturbations", "_data", "eval"):
                    e.oblige("view-creation-does-not-touch-the-cache-or-evaluate", False, detail=f"self.{name} used while creating a view")
                raise Unsupported(f"self.{name}")

            def m_getitem(self, e, key):
                reads.append(key)
                return VT("parent[]", T(f"read{len(reads) - 1}"))

            def m_isinstance(self, e, clsname):
                return clsname == "BlockSeries"

        class Made(Model):
            def __init__(s2, kw):
                s2.kw = kw

            def m_getitem(s2, e, key):
                return VT("made[]", T(f"made{made.index(s2)}"), key)

        def ctor(e, *a, **kw):
            if a:
                e.oblige("views-are-constructed-with-keyword-arguments", False)
            m = Made(kw)
            made.append(m)
            return m

        def np_empty(e, shp, dtype=None):
            class Arr(Model):
                def m_getitem(s2, e2, key):
                    return Namespace("indexed", {"shape": T("numpy_result_shape", T("of_shape", shp), T("indexed_with", key))})
            return Arr()
        eng.globals.update({"BlockSeries": Builtin("BlockSeries", ctor), "zero": ZERO, "np": Namespace("np", {"empty": Builtin("np.empty", np_empty), "integer": TypeObj("integer")}),
                            "slice": SliceCls("slice"), "int": TypeObj("int"), "list": TypeObj("list")})
        parent = Parent()
        res = eng.call(Closure(node, Env(None, {}), "__getitem__"), [parent, item], {})
        eng.oblige("creating-a-view-reads-nothing", z3.BoolVal(not reads), detail=repr(reads)[:200])
        ok = isinstance(res, Made)
        eng.oblige("finite-only-index-returns-a-BlockSeries", z3.BoolVal(ok), detail=repr(res)[:200])
        if not ok:
            return
        kw = res.kw
        eng.oblige("view-keeps-the-number-of-infinite-dimensions", z3.BoolVal(kw.get("n_infinite") == ninf), detail=repr(kw.get("n_infinite")))
        eng.oblige("view-keeps-the-dimension-names", z3.BoolVal(kw.get("dimension_names") is names), detail=repr(kw.get("dimension_names")))
        orders = [SI(eng.fresh(f"order{q}")) for q in range(ninf)]

        def same_key(key, want_items):
            try:
                items = eng.as_seq(key).items
            except Exception:  # noqa: BLE001
                return False
            return len(items) == len(want_items) and all(x is y for x, y in zip(items, want_items))
        if all_int:
            shp = kw.get("shape")
            eng.oblige("all-integer-index:view-is-a-scalar-series", z3.BoolVal(isinstance(shp, STup) and not shp.items and shp.tail is None), detail=repr(shp))
            eng.oblige("all-integer-index:one-series-is-created", z3.BoolVal(len(made) == 1))
            out = eng.call(kw["eval"], list(orders), {})
            eng.oblige("all-integer-index:element-is-the-parent-element-at-item-plus-orders",
                       z3.BoolVal(isinstance(out, T) and out.head == "parent[]" and len(reads) == 1 and same_key(reads[0], item_entries + orders)), detail=repr(out)[:200])
            return
        shp = kw.get("shape")
        okshape = (isinstance(shp, T) and shp.head == "numpy_result_shape" and shp.args[0].args[0] is shape and same_key(shp.args[1].args[0], item_entries))
        eng.oblige("array-index:view-shape-is-the-numpy-shape-of-indexing-the-finite-part", z3.BoolVal(okshape), detail=repr(shp)[:200])
        eng.oblige("array-index:view-plus-one-packed-intermediate", z3.BoolVal(len(made) == 2 and made[1] is res), detail=f"{len(made)} series created")
        if len(made) != 2:
            return
        pk = made[0].kw
        pshape = pk.get("shape")
        eng.oblige("packed-intermediate-is-a-scalar-series-over-the-same-orders",
                   z3.BoolVal(isinstance(pshape, STup) and not pshape.items and pk.get("n_infinite") == ninf), detail=repr(pk.get("shape")))
        pout = eng.call(pk["eval"], list(orders), {})

        def unit_slices(key):
            try:
                items = eng.as_seq(key).items
            except Exception:  # noqa: BLE001
                return False
            if len(items) != len(item_entries) + ninf or not all(x is y for x, y in zip(items, item_entries)):
                return False
            for sl, o in zip(items[len(item_entries):], orders):
                if not (isinstance(sl, SSlice) and sl.lo is o and sl.step is None and isinstance(sl.hi, SI) and eng.valid(sl.hi.e == o.e + 1)):
                    return False
            return True
        # reshape(filled(parent[item + unit slices], zero), shape-of-that-array[:-ninf])
        okp = False
        if isinstance(pout, T) and pout.head == ".reshape" and len(pout.args) == 2:
            filled, newshape = pout.args
            arr = filled.args[0] if isinstance(filled, T) and filled.head == ".filled" and len(filled.args) == 2 and filled.args[1] is ZERO else None
            okshape2 = (isinstance(newshape, T) and newshape.head == "[]" and isinstance(newshape.args[0], T) and newshape.args[0].head == ".shape" and newshape.args[0].args[0] is arr
                        and isinstance(newshape.args[1], SSlice) and newshape.args[1].lo is None and newshape.args[1].step is None and newshape.args[1].hi == -ninf)
            okp = isinstance(arr, T) and arr.head == "parent[]" and okshape2 and len(reads) == 1 and unit_slices(reads[0])
        eng.oblige("packed-element-is-the-parent-array-at-item-plus-unit-slices-of-the-orders-filled-with-zero-without-the-trailing-singleton-axes", z3.BoolVal(okp), detail=repr(pout)[:300] + " read " + repr(reads)[:200])
        vidx = [SI(eng.fresh(f"v{q}")) for q in range(nview)]
        out = eng.call(kw["eval"], vidx + orders, {})
        okv = (isinstance(out, T) and out.head == "[]" and isinstance(out.args[0], T) and out.args[0].head == "made[]" and out.args[0].args[0].head == "made0"
               and same_key(out.args[0].args[1], orders) and same_key(out.args[1], vidx))
        eng.oblige("array-index:element-(v,orders)-is-entry-v-of-the-packed-element-at-orders", z3.BoolVal(okv), detail=repr(out)[:300])
    r = run_unit(f"series:BlockSeries.__getitem__[view,{'/'.join(kinds)},n_infinite={ninf}]", harness, functions=[(MODULE, "BlockSeries.__getitem__")], timeout_ms=timeout_ms)
    r.bounded.append(f"{len(kinds)} finite dimensions of kinds {kinds}, n_infinite = {ninf} (index values, shape and orders symbolic)")
    r.used_models.add("numpy's result shape of basic/advanced indexing is an uninterpreted function of (array shape, index): the view must ask numpy for exactly that")
    return r


# ======================================================================================
# sentinels, __contains__, pop
# ======================================================================================


class _Opaque(Model):
    def __init__(self, label):
        self.label = label

    def m_unop(self, eng, op):
        if isinstance(op, ast.USub):
            return _Opaque("neg(" + self.label + ")")
        raise Unsupported("unary op on opaque value")

    def m_is(self, eng, other):
        return other is self


def unit_sentinels(timeout_ms=10000):
    """series.Zero / One: the class bodies are read from source and their methods executed, so the
    model of sentinel arithmetic used everywhere else (pyvc/models.py:_add etc.) is tied to the code:
    zero + x is x, zero - x is -x, zero * x is zero, -zero is zero, zero.adjoint() is zero; One defines
    no arithmetic."""
    tree, _ = frontend.module_ast(MODULE)

    def harness(eng):
        classes = {n.name: n for n in tree.body if isinstance(n, ast.ClassDef)}
        zero_cls, one_cls = classes.get("Zero"), classes.get("One")
        eng.oblige("Zero-and-One-classes-exist", z3.BoolVal(zero_cls is not None and one_cls is not None))
        if zero_cls is None or one_cls is None:
            return
        methods = {}
        aliases = {}
        for st in zero_cls.body:
            if isinstance(st, ast.FunctionDef):
                methods[st.name] = st
            elif isinstance(st, ast.Assign) and isinstance(st.value, ast.Name):
                for t in st.targets:
                    aliases[t.id] = st.value.id
                    # chained assignment a = b = c
            if isinstance(st, ast.Assign):
                names = [t.id for t in st.targets if isinstance(t, ast.Name)]
                if isinstance(st.value, ast.Name):
                    for nm in names:
                        aliases[nm] = st.value.id

        def resolve(name):
            seen = set()
            while name in aliases and name not in seen:
                seen.add(name)
                name = aliases[name]
            return methods.get(name)

        me, x = _Opaque("zero"), _Opaque("x")

        def run(mname, *args):
            m = resolve(mname)
            if m is None:
                return "missing"
            return eng.call(Closure(m, Env(None, {}), mname), [me, *args], {})

        r = run("__add__", x)
        eng.oblige("Zero.__add__-returns-other", z3.BoolVal(r is x), detail="zero + x is x")
        r = run("__mul__", x)
        eng.oblige("Zero.__mul__-returns-self", z3.BoolVal(r is me), detail="zero * x is zero")
        r = run("__neg__")
        eng.oblige("Zero.__neg__-returns-self", z3.BoolVal(r is me), detail="-zero is zero")
        r = run("adjoint")
        eng.oblige("Zero.adjoint-returns-self", z3.BoolVal(r is me), detail="zero.adjoint() is zero (so Dagger(zero) is zero)")
        r = run("__sub__", x)
        eng.oblige("Zero.__sub__-returns-neg-other", z3.BoolVal(isinstance(r, _Opaque) and r.label == "neg(x)"), detail="zero - x is -x")
        if "__rmul__" in methods or "__rmul__" in aliases:
            r = run("__rmul__", x)
            eng.oblige("Zero.__rmul__-returns-self", z3.BoolVal(r is me), detail="x * zero is zero (an integer literal on the left of a series in the mini-language)")
        extra = sorted(set(list(methods) + list(aliases)) - {"__add__", "__mul__", "__rmul__", "__neg__", "adjoint", "__sub__", "__repr__"})
        eng.oblige("Zero-defines-no-other-arithmetic", z3.BoolVal(not extra), detail=f"unexpected members: {extra} (x + zero, zero / k, zero @ x stay TypeErrors as modelled)")
        one_members = sorted(st.name for st in one_cls.body if isinstance(st, ast.FunctionDef) and st.name != "__repr__")
        eng.oblige("One-defines-no-arithmetic", z3.BoolVal(not one_members), detail=f"members: {one_members}")

    return run_unit("series:Zero/One sentinels", harness, functions=[(MODULE, "Zero"), (MODULE, "One")], timeout_ms=timeout_ms)


class _SelfData(Model):
    def __init__(self, data):
        self.data = data

    def m_getattr(self, eng, name):
        if name == "_data":
            return self.data
        raise Unsupported(f"self.{name}")


class _DictView(Model):
    """dict with symbolic presence and sentinel tag at one key."""

    def __init__(self, present, tag):
        self.present, self.tag = present, tag
        self.popped = None

    def m_getattr(self, eng, name):
        if name == "get":
            def get(eng_, key, default=None):
                if eng_.branch(self.present):
                    return SCacheObj(self.tag, z3.BoolVal(True))
                return default
            return Builtin("dict.get", get)
        if name == "pop":
            def pop(eng_, key, default=None):
                self.popped = (key, default)
                if eng_.branch(self.present):
                    return SCacheObj(self.tag, z3.BoolVal(True))
                return default
            return Builtin("dict.pop", pop)
        raise Unsupported(f"dict.{name}")


def unit_contains_pop(timeout_ms=10000):
    ncont = frontend.find(MODULE, "BlockSeries.__contains__")
    npop = frontend.find(MODULE, "BlockSeries.pop")

    def harness(eng):
        present, tag = z3.Bool("present"), z3.Int("tag")
        eng.assume(z3.And(tag >= 0, tag <= 3))
        d = _DictView(present, tag)
        key = _Opaque("key")
        r = eng.call(Closure(ncont, Env(None, {}), "__contains__"), [_SelfData(d), key], {})
        rb = r if isinstance(r, bool) else None
        if rb is None:
            rb = eng.truth(r)
        eng.oblige("__contains__-false-iff-cached-zero", z3.BoolVal(rb) == z3.Not(z3.And(present, tag == TAG_ZERO)),
                   detail="`index in series` is False exactly when the element is cached as the zero sentinel (not known to vanish otherwise)")
        default = _Opaque("default")
        d2 = _DictView(present, tag)
        r2 = eng.call(Closure(npop, Env(None, {}), "pop"), [_SelfData(d2), key, default], {})
        eng.oblige("pop-removes-exactly-the-key-with-default", z3.BoolVal(d2.popped is not None and d2.popped[0] is key and d2.popped[1] is default))
        if eng.branch(present):
            eng.oblige("pop-returns-cached-object", z3.BoolVal(isinstance(r2, SCacheObj)))
        else:
            eng.oblige("pop-returns-default-when-absent", z3.BoolVal(r2 is default))

    return run_unit("series:BlockSeries.__contains__/pop", harness,
                    functions=[(MODULE, "BlockSeries.__contains__"), (MODULE, "BlockSeries.pop")], timeout_ms=timeout_ms)


# ---- BlockSeries.__init__ ------------------------------------------------------------------------------

def unit_series_init(timeout_ms=10000):
    """BlockSeries.__init__: the state every other contract of the class starts from.
      * `_data` is a NEW dictionary with exactly the entries of `data` (the caller's dictionary is neither kept nor written: caching into the series cannot change it - C10);
        without `data` it is a new empty dictionary (not a shared default);
      * `eval` is the caller's callback, or - without one - a function that answers the zero sentinel for every index of every length;
      * shape and n_infinite are stored as given; dimension_names are the caller's if non-empty, else ('n_0', ..., 'n_{k-1}') with k = n_infinite;
        the name is the caller's if non-empty, else 'Series_' + token_hex(4)."""
    fn = frontend.find(MODULE, "BlockSeries.__init__")

    class Me(Model):
        def __init__(s):
            s.attrs = {}

        def m_setattr(s, eng, name, value):
            s.attrs[name] = value

        def m_getattr(s, eng, name):
            if name in s.attrs:
                return s.attrs[name]
            raise Unsupported(f"self.{name} read before assignment")

    def harness(eng):
        copies = []

        class Data(Model):
            def m_getattr(s, e, name):
                if name == "copy":
                    def cp(e_):
                        c = _Opaque("copy-of-data")
                        copies.append(c)
                        return c
                    return Builtin("dict.copy", cp)
                raise Unsupported(f"data.{name}")

            def m_setitem(s, e, key, value):
                raise Unsupported("store into the caller's dictionary")
        tok = _Opaque("token_hex(4)")
        hexcalls = []

        def token_hex(e, n):
            hexcalls.append(n)
            return "TOKEN"
        eng.globals.update({"zero": ZERO, "token_hex": Builtin("token_hex", token_hex)})
        for with_data in (False, True):
            for with_eval in (False, True):
                for names_given in ("none", "empty", "given"):
                    for name_given in ("none", "empty", "given"):
                        me = Me()
                        del copies[:]
                        data = Data() if with_data else None
                        ev = _Opaque("user-eval") if with_eval else None
                        shape = _Opaque("shape")
                        k = 3
                        dn = {"none": None, "empty": STup([]), "given": STup(["x", "y", "z"])}[names_given]
                        nm = {"none": None, "empty": "", "given": "H"}[name_given]
                        eng.call(Closure(fn, Env(None, {}), "__init__"), [me], {"eval": ev, "data": data, "shape": shape, "n_infinite": k, "dimension_names": dn, "name": nm})
                        a = me.attrs
                        tag = f"[data={with_data},eval={with_eval},names={names_given},name={name_given}]"
                        d = a.get("_data")
                        if with_data:
                            eng.oblige("init:_data-is-a-copy-of-the-caller's-dictionary" + tag, z3.BoolVal(len(copies) == 1 and d is copies[0]))
                        else:
                            eng.oblige("init:_data-is-a-new-empty-dictionary" + tag, z3.BoolVal(isinstance(d, dict) and not d))
                        if with_eval:
                            eng.oblige("init:eval-is-the-caller's-callback" + tag, z3.BoolVal(a.get("eval") is ev))
                        else:
                            f = a.get("eval")
                            ok = isinstance(f, Closure)
                            if ok:
                                for nargs in (0, 1, 4):
                                    try:
                                        r = eng.call(f, [SI(eng.fresh("ix")) for _ in range(nargs)], {})
                                    except Unsupported as u:
                                        if "argument" not in str(u):
                                            raise
                                        r = None     # the default callback does not accept this number of index entries (a TypeError in Python)
                                    ok = ok and r is ZERO
                            eng.oblige("init:default-eval-answers-zero-for-every-index" + tag, z3.BoolVal(ok))
                        eng.oblige("init:shape-and-n_infinite-stored-as-given" + tag, z3.BoolVal(a.get("shape") is shape and a.get("n_infinite") == k))
                        got = a.get("dimension_names")
                        if names_given == "given":
                            eng.oblige("init:dimension_names-are-the-caller's" + tag, z3.BoolVal(got is dn))
                        else:
                            items = eng.as_seq(got).items if got is not None else None
                            eng.oblige("init:default-dimension_names-are-n_0..n_{k-1}" + tag, z3.BoolVal(items == ["n_0", "n_1", "n_2"]), detail=f"{items}")
                        gn = a.get("name")
                        if name_given == "given":
                            eng.oblige("init:name-is-the-caller's" + tag, z3.BoolVal(gn == "H"))
                        else:
                            eng.oblige("init:default-name-is-Series_+token_hex(4)" + tag, z3.BoolVal(gn == "Series_TOKEN" and hexcalls[-1:] == [4]), detail=f"{gn!r}")
                        eng.oblige("init:sets-exactly-the-six-attributes" + tag, z3.BoolVal(sorted(a) == ["_data", "dimension_names", "eval", "n_infinite", "name", "shape"]), detail=f"{sorted(a)}")

    return run_unit("series:BlockSeries.__init__", harness, functions=[(MODULE, "BlockSeries.__init__")], timeout_ms=timeout_ms)
