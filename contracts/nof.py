"""Contracts for pymablock.number_ordered_form.NumberOrderedForm (C08, C07).

Specification = action on unnormalised occupation-number states |n_0 ... n_{k-1}):
    boson   a^dagger|n) = |n+1)      a|n) = n |n-1)          N|n) = n|n)       (n in Z as a polynomial identity)
    ladder  a^dagger|n) = |n+1)      a|n) =   |n-1)
    spin    s^dagger|n) = (1-n)|n+1) s|n) = n |n-1)          n in {0,1}
    fermion as spin, times the Jordan-Wigner sign (-1)^(sum of fermionic occupations of earlier modes)
and a term with powers p and coefficient f(N) denotes
    c_0^dagger^{r_0} ... c_{k-1}^dagger^{r_{k-1}}  f(N)  c_{k-1}^{s_{k-1}} ... c_0^{s_0},    r_i = max(-p_i, 0), s_i = max(p_i, 0)
(the order fixed by the real `as_expr`).  All amplitudes are polynomial in the occupations with the
falling factorial ff(n, s) = n (n-1) ... (n-s+1) as a ghost function and its law
    ff(n, a + b) = ff(n, a) * ff(n - a, b),  ff(n, 0) = 1
instantiated by the generator.  Coefficients are arbitrary (uninterpreted) functions of the occupations;
sympy's xreplace / Mul / Add / unary minus on them are modelled as substitution and point-wise arithmetic
(assumption A-SY1).  The number of modes is concrete per unit (bounded); powers, occupations and
coefficients are symbolic.

Representation invariant (canonical form) used as precondition and proved as postcondition:
  for a fermion / spin mode with non-zero power the coefficient does not depend on that mode's number
  operator (f(.., 0, ..) = f(.., 1, ..)), and powers of such modes lie in {-1, 0, 1}.
"""
from __future__ import annotations

import ast
import itertools

import z3

from pyvc import frontend
from pyvc.core import (
    Closure, Env, STup, SI, SB, SExc, Model, Builtin, Namespace, TypeObj, PyRaise, Unsupported, PathInfeasible,
    StarTail, wrap_bool, wrap_int, zi, _Cont, _Brk,
)
from pyvc.unit import run_unit

MODULE = "number_ordered_form"
KINDS = ("boson", "ladder", "spin", "fermion")   # generator_types order: BosonOp, LadderOp, SigmaMinus, FermionOp

ff = z3.Function("ff", z3.IntSort(), z3.IntSort(), z3.IntSort())


def layout_counts(layout):
    return {k: sum(1 for x in layout if x == k) for k in KINDS}


class Coef(Model):
    """Coefficient: function of the occupation vector, eval(occ) -> z3 Real expr."""

    def __init__(self, fn, label="coef"):
        self.fn, self.label = fn, label

    def at(self, occ):
        return self.fn(list(occ))

    @staticmethod
    def lift(v):
        if isinstance(v, Coef):
            return v
        if isinstance(v, Placeholder):
            return Coef(lambda occ, i=v.i: z3.ToReal(occ[i]), f"n{v.i}")
        if isinstance(v, (int, SI)):
            e = zi(v)
            return Coef(lambda occ, e=e: z3.ToReal(e), str(v))
        raise Unsupported(f"not a coefficient: {v!r}")

    def m_getattr(self, eng, name):
        if name == "xreplace":
            return Builtin("xreplace", lambda e, d: self.xreplace(e, d))
        if name == "adjoint":
            return Builtin("adjoint", lambda e: self)   # coefficients are real-valued functions in this model
        raise Unsupported(f"coefficient.{name}")

    def xreplace(self, eng, d):
        eng.used_models.add("A-SY1:xreplace on a coefficient is simultaneous substitution of number-operator placeholders")
        subs = {}
        for k, v in d.items():
            if not isinstance(k, Placeholder):
                raise Unsupported("xreplace key")
            subs[k.i] = Coef.lift(v)
        f = self.fn

        def g(occ):
            new = list(occ)
            for i, c in subs.items():
                val = c.at(occ)
                new[i] = z3.ToInt(val) if val.sort() == z3.RealSort() else val
            return f(new)
        return Coef(g, f"{self.label}[subst]")

    def m_binop(self, eng, op, other, reflected):
        if isinstance(other, ProdFamily):
            other = other.as_coef()
        if isinstance(op, ast.Eq) and isinstance(other, int) and other == 0:
            # sympy structural test `coeff == 0`: if it succeeds the coefficient is identically zero
            eng.used_models.add("A-SY1:`coeff == 0` is True only for a coefficient that is identically zero")
            z = eng.fresh("coeff_is_zero", "bool")
            if not hasattr(eng, "zero_facts"):
                eng.zero_facts = []
            eng.zero_facts.append((z, self))
            return SB(z)
        try:
            o = Coef.lift(other)
        except Unsupported:
            return NotImplemented
        l, r = (o, self) if reflected else (self, o)
        if isinstance(op, ast.Mult):
            return Coef(lambda occ: l.at(occ) * r.at(occ), "mul")
        if isinstance(op, ast.Add):
            return Coef(lambda occ: l.at(occ) + r.at(occ), "add")
        if isinstance(op, ast.Sub):
            return Coef(lambda occ: l.at(occ) - r.at(occ), "sub")
        return NotImplemented

    def m_unop(self, eng, op):
        if isinstance(op, ast.USub):
            return Coef(lambda occ: -self.at(occ), "neg")
        raise Unsupported("unary op on coefficient")


class Placeholder(Model):
    """Number-operator placeholder symbol n_i."""

    def __init__(self, i):
        self.i = i

    def __hash__(self):
        return hash(("ph", self.i))

    def __eq__(self, o):
        return isinstance(o, Placeholder) and o.i == self.i

    def m_binop(self, eng, op, other, reflected):
        return Coef.lift(self).m_binop(eng, op, other, reflected)


class ProdFamily(Model):
    """sympy.Mul(*(g(i) for i in range(lo, hi))) with symbolic bounds, g affine in i with slope +-1."""

    def __init__(self, eng, g, lo, hi):
        self.eng, self.g, self.lo, self.hi = eng, g, lo, hi

    def as_coef(self):
        g, lo, hi = self.g, self.lo, self.hi

        def fn(occ):
            g0 = g(z3.IntVal(0)).at(occ)
            g1 = g(z3.IntVal(1)).at(occ)
            slope = z3.simplify(g1 - g0)
            if z3.is_rational_value(slope) and slope.numerator_as_long() == -slope.denominator_as_long():
                # prod_{i=lo}^{hi-1} (beta - i) = ff(beta - lo, hi - lo)
                beta = z3.ToInt(g0)
                return z3.ToReal(ff(beta - lo, hi - lo))
            if z3.is_rational_value(slope) and slope.numerator_as_long() == slope.denominator_as_long():
                # prod_{i=lo}^{hi-1} (beta + i) = ff(beta + hi - 1, hi - lo)
                beta = z3.ToInt(g0)
                return z3.ToReal(ff(beta + hi - 1, hi - lo))
            raise Unsupported("product family that is not affine with slope +-1")
        return Coef(fn, "prodfamily")


class SymRange(Model):
    """range(lo, hi) with symbolic bounds used only as the source of a product family."""

    def __init__(self, lo, hi):
        self.lo, self.hi = lo, hi

    def m_comprehension(self, eng, e, g, env):
        if g.ifs or not isinstance(g.target, ast.Name):
            raise Unsupported("comprehension over symbolic range")
        target = g.target.id

        def gen(i):
            cenv = Env(env)
            cenv.is_comprehension = True
            cenv.set(target, SI(i) if not z3.is_int_value(i) else i.as_long())
            return Coef.lift(eng.eval(e.elt, cenv))
        return FamilySeq(ProdFamily(eng, gen, zi(self.lo), zi(self.hi)))


class FamilySeq(STup):
    def __init__(self, fam):
        super().__init__([], None, True)
        self.fam = fam
        self.tail = fam   # marks "symbolic length": only sympy.Mul understands it


def sympy_mul(eng, *args):
    eng.used_models.add("A-SY1:sympy.Mul / * / + / unary minus on coefficients are point-wise arithmetic")
    out = None
    for a in args:
        if isinstance(a, StarTail) and isinstance(a.seq, FamilySeq):
            c = a.seq.fam.as_coef()
        else:
            c = Coef.lift(a)
        out = c if out is None else out.m_binop(eng, ast.Mult(), c, False)
    return out if out is not None else Coef(lambda occ: z3.RealVal(1), "1")


class OpModel(Model):
    def __init__(self, kind, i):
        self.kind, self.i = kind, i

    def m_isinstance(self, eng, clsname):
        names = {"boson": "BosonOp", "ladder": "LadderOp", "spin": "SigmaMinus", "fermion": "FermionOp"}
        if clsname in names.values():
            return names[self.kind] == clsname
        raise Unsupported(f"isinstance(operator, {clsname})")


class TermSeq(Model):
    """self.args[1]: the terms; a `for powers, coeff in ...` loop is verified for an arbitrary term."""

    def __init__(self, owner):
        self.owner = owner

    def m_for(self, eng, stmt, env):
        return self.owner.term_loop(eng, stmt, env)


class TermDict(Model):
    def __init__(self):
        self.items = []

    def m_setitem(self, eng, key, value):
        self.items.append((key, value))


class NofSelf(Model):
    def __init__(self, owner, layout):
        self.owner, self.layout = owner, layout
        self.ops = STup([OpModel(k, i) for i, k in enumerate(layout)])
        self.ph = STup([Placeholder(i) for i in range(len(layout))])

    def m_getattr(self, eng, name):
        c = layout_counts(self.layout)
        if name == "operators":
            return self.ops
        if name == "args":
            return STup([self.ops, TermSeq(self.owner)])
        if name == "_number_operator_placeholders":
            return self.ph
        if name == "_n_bosons":
            return c["boson"]
        if name == "_n_inf_order":
            return c["boson"] + c["ladder"]
        if name == "_n_fermions":
            return c["fermion"]
        if name == "_n_spins":
            return c["spin"]
        raise Unsupported(f"self.{name}")


class NofClass(Model):
    def __init__(self, owner):
        self.owner = owner

    def m_call(self, eng, args, kwargs):
        ops, terms = args[0], args[1]
        self.owner.result = (ops, terms)
        return NofResult(ops, terms)


class NofResult(Model):
    def __init__(self, ops, terms):
        self.ops, self.terms = ops, terms


# --------------------------------------------------------------------------------------------------
# Fock-space semantics

class Fock:
    def __init__(self, layout):
        self.layout = layout
        self.k = len(layout)

    def jw_sign(self, occ, j):
        s = z3.RealVal(1)
        if self.layout[j] != "fermion":
            return s
        for l in range(j):
            if self.layout[l] == "fermion":
                s = s * z3.ToReal(1 - 2 * occ[l])
        return s

    def annihilate(self, occ, amp, j, s):
        """apply c_j^s (s >= 0 symbolic)."""
        kind = self.layout[j]
        if kind == "boson":
            amp = amp * z3.ToReal(ff(occ[j], s))
        elif kind == "ladder":
            pass
        else:
            amp = amp * z3.If(s == 1, z3.ToReal(occ[j]) * self.jw_sign(occ, j), z3.If(s == 0, z3.RealVal(1), z3.RealVal(0)))
        occ = list(occ)
        occ[j] = occ[j] - s
        return occ, amp

    def create(self, occ, amp, j, r):
        kind = self.layout[j]
        if kind in ("spin", "fermion"):
            amp = amp * z3.If(r == 1, z3.ToReal(1 - occ[j]) * self.jw_sign(occ, j), z3.If(r == 0, z3.RealVal(1), z3.RealVal(0)))
        occ = list(occ)
        occ[j] = occ[j] + r
        return occ, amp

    def apply_op_power(self, occ, amp, j, q):
        """operators[j]^q, q > 0 annihilation, q < 0 creation."""
        sp = z3.If(q > 0, q, 0)
        rp = z3.If(q < 0, -q, 0)
        occ, amp = self.annihilate(occ, amp, j, sp)
        occ, amp = self.create(occ, amp, j, rp)
        return occ, amp

    def apply_term(self, occ, amp, powers, coef):
        """c_0^+^{r_0}..c_{k-1}^+^{r_{k-1}} f(N) c_{k-1}^{s_{k-1}}..c_0^{s_0} applied to |occ): rightmost factor first."""
        for j in range(self.k):
            s = z3.If(powers[j] > 0, powers[j], 0)
            occ, amp = self.annihilate(occ, amp, j, s)
        amp = amp * coef.at(occ)
        for j in reversed(range(self.k)):
            r = z3.If(powers[j] < 0, -powers[j], 0)
            occ, amp = self.create(occ, amp, j, r)
        return occ, amp


def ff_lemmas(exprs, extra_terms=()):
    """Instances of the falling-factorial law for every pair of ff applications occurring in exprs."""
    apps = {}

    def collect(e):
        if z3.is_app(e):
            if e.decl().name() == "ff" and e.num_args() == 2:
                apps[e.get_id()] = e
            for c in e.children():
                collect(c)
    for e in exprs:
        collect(e)
    apps = list(apps.values())
    out = []
    for a in apps:
        x, m = a.arg(0), a.arg(1)
        out.append(z3.Implies(m == 0, a == 1))
        out.append(z3.Implies(m == 1, a == x))
    for a in apps:
        for b in apps:
            x, m = a.arg(0), a.arg(1)
            y, n = b.arg(0), b.arg(1)
            # ff(x, m + n) = ff(x, m) * ff(x - m, n)   used when y = x - m
            out.append(z3.Implies(z3.And(m >= 0, n >= 0, y == x - m), ff(x, m + n) == a * b))
    return out


class MultiplyOpHarness:
    def __init__(self, layout, op_index, canary=False):
        self.layout, self.op_index, self.canary = layout, op_index, canary

    def __call__(self, eng):
        self.eng = eng
        eng.int_is_eq = True
        layout, k = self.layout, len(self.layout)
        node = frontend.find(MODULE, "NumberOrderedForm._multiply_op")
        self.fock = Fock(layout)
        self.result = None
        self.loop_seen = False
        q = z3.Int("op_power")
        eng.assume(q != 0)
        self.q = q
        slf = NofSelf(self, layout)
        g = {
            "One": 1, "Zero": 0, "FermionOp": TypeObj("FermionOp"), "BosonOp": TypeObj("BosonOp"), "LadderOp": TypeObj("LadderOp"),
            "Tuple": Builtin("Tuple", lambda e, *a: STup(list(a))), "type": Builtin("type", lambda e, x: NofClass(self)),
            "sympy": Namespace("sympy", {"Mul": Builtin("sympy.Mul", sympy_mul), "S": Builtin("sympy.S", lambda e, x: x)}),
            "range": Builtin("range", lambda e, *a: SymRange(*( (0, a[0]) if len(a) == 1 else a))),
        }
        eng.globals.update(g)
        clo = Closure(node, Env(None, {}), "_multiply_op")
        self.term = None
        res = eng.call(clo, [slf, self.op_index, SI(q)], {})
        if not isinstance(res, NofResult):
            eng.oblige("returns-number-ordered-form", False)
            return
        eng.oblige("result-keeps-operator-list", z3.BoolVal(res.ops is slf.ops))
        binary = layout[self.op_index] in ("spin", "fermion")
        if not self.loop_seen:
            # only legitimate for nilpotent powers of binary modes: the result is the empty form
            eng.oblige("no-term-loop-only-for-nilpotent-power", z3.And(z3.BoolVal(binary), z3.Or(q > 1, q < -1)),
                       detail="an operator power that skips all terms must be a nilpotent power of a fermion / spin mode")
            empty = isinstance(res.terms, STup) and not res.terms.items
            eng.oblige("nilpotent-power-gives-zero", z3.BoolVal(empty))

    def term_loop(self, eng, stmt, env):
        self.loop_seen = True
        layout, k, i = self.layout, len(self.layout), self.op_index
        q = self.q
        fock = self.fock
        # an arbitrary canonical term
        p = [eng.fresh(f"p{j}") for j in range(k)]
        F = z3.Function("F", *([z3.IntSort()] * k), z3.RealSort())
        for j in range(k):
            if layout[j] in ("spin", "fermion"):
                eng.assume(z3.And(p[j] >= -1, p[j] <= 1))
        coef = Coef(lambda occ: F(*occ), "f")
        # canonical-form precondition: coefficient independent of binary numbers whose power is non-zero
        n = [z3.Int(f"n{j}") for j in range(k)]
        for j in range(k):
            if layout[j] in ("spin", "fermion"):
                eng.assume(z3.And(n[j] >= 0, n[j] <= 1))
        self.n = n

        def indep(fn, occ):
            conds = []
            for j in range(k):
                if layout[j] in ("spin", "fermion"):
                    o0 = list(occ); o0[j] = z3.IntVal(0)
                    o1 = list(occ); o1[j] = z3.IntVal(1)
                    conds.append(z3.Implies(p[j] != 0, fn(o0) == fn(o1)))
            return conds
        # case split on the sign pattern of the touched mode (keeps each solver query small)
        binary_modes = [j for j in range(k) if layout[j] in ("spin", "fermion")]
        if len(binary_modes) >= 3:
            for j in binary_modes:
                eng.branch(n[j] == 0)
                if not eng.branch(p[j] == 0):
                    eng.branch(p[j] == 1)
            if layout[i] in ("spin", "fermion"):
                if not eng.branch(q == 1):
                    eng.branch(q == -1)
        if layout[i] in ("boson", "ladder"):
            eng.branch(p[i] >= 0)
            eng.branch(q > 0)
            eng.branch(p[i] + q >= 0)
            eng.branch(p[i] == 0)
        new_terms = env.lookup("new_terms") if env.has("new_terms") else None
        td = TermDict()
        env.set("new_terms", td)
        eng.assign(stmt.target, STup([STup([SI(x) for x in p]), coef]), env)
        try:
            eng.exec_block(stmt.body, env)
        except _Cont:
            pass
        except _Brk:
            raise Unsupported("break in term loop")
        # spec: (term o op_i^q)|n)
        occ0 = list(n)
        occ1, amp1 = fock.apply_op_power(occ0, z3.RealVal(1), i, q)
        occ_s, amp_s = fock.apply_term(occ1, amp1, p, coef)
        binary = layout[i] in ("spin", "fermion")
        if binary:
            # physical domain of binary occupations; instantiate the independence precondition where the spec evaluates f
            pass
        if not td.items:
            # the term was dropped: its contribution must vanish on every state
            hyps = self.indep_instances(eng, F, p, occ_s, amp_s)
            self.prove(eng, "dropped-term-contributes-zero", amp_s == 0, hyps + [amp_s == amp_s])
            env.set("new_terms", td)
            return
        eng.oblige("one-result-term-per-term", z3.BoolVal(len(td.items) == 1))
        key, val = td.items[0]
        newp = [zi(x) for x in eng.as_seq(key).items]
        eng.oblige("result-powers-are-shifted-by-op-power", z3.And(*[newp[j] == (p[j] + q if j == i else p[j]) for j in range(k)]))
        newcoef = Coef.lift(val)
        occ_c, amp_c = fock.apply_term(list(n), z3.RealVal(1), newp, newcoef)
        if self.canary:
            amp_c = amp_c + 1
        hyps = self.indep_instances(eng, F, p, occ_s, amp_s, amp_c)
        self.prove(eng, "same-final-state", z3.And(*[a == b for a, b in zip(occ_c, occ_s)]), hyps)
        self.prove(eng, "same-amplitude", amp_c == amp_s, hyps,
                   detail="<result term>|n) = <term> op_i^q |n) for every occupation state")
        # canonical form is preserved
        for j in range(k):
            if layout[j] in ("spin", "fermion"):
                o0 = list(n); o0[j] = z3.IntVal(0)
                o1 = list(n); o1[j] = z3.IntVal(1)
                goal = z3.Implies(newp[j] != 0, newcoef.at(o0) == newcoef.at(o1))
                self.prove(eng, f"canonical-form-preserved:mode{j}", goal, self.indep_instances(eng, F, p, None, goal) + hyps)
                self.prove(eng, f"binary-power-in-range:mode{j}", z3.And(newp[j] >= -1, newp[j] <= 1), hyps)
        env.set("new_terms", td)

    def indep_at(self, F, p, occs):
        layout, k = self.layout, len(self.layout)
        out = []
        for occ in occs:
            for j in range(k):
                if layout[j] in ("spin", "fermion"):
                    o0 = list(occ); o0[j] = z3.IntVal(0)
                    o1 = list(occ); o1[j] = z3.IntVal(1)
                    out.append(z3.Implies(p[j] != 0, F(*o0) == F(*o1)))
        return out

    def indep_instances(self, eng, F, p, occ_s, *exprs):
        """Instances of the canonical-form precondition at every argument tuple at which F is applied."""
        apps = {}

        def collect(e):
            if z3.is_app(e):
                if e.decl().name() == "F":
                    apps[e.get_id()] = e
                for c in e.children():
                    collect(c)
        for e in exprs:
            collect(e)
        occs = [[a.arg(j) for j in range(a.num_args())] for a in apps.values()]
        return self.indep_at(F, p, occs)

    def prove(self, eng, name, goal, hyps, detail=""):
        hyps = list(hyps)
        # use the equalities `variable == constant` of the path condition as substitutions (sound: they are assumptions of the
        # obligation anyway); after the case splits on binary modes this makes the amplitude terms nearly ground
        subs = []
        for c in eng.pc:
            if z3.is_eq(c) and z3.is_const(c.arg(0)) and c.arg(0).decl().kind() == z3.Z3_OP_UNINTERPRETED and z3.is_int_value(c.arg(1)):
                subs.append((c.arg(0), c.arg(1)))
        if subs:
            goal = z3.simplify(z3.substitute(goal, *subs))
            hyps = [z3.simplify(z3.substitute(h, *subs)) for h in hyps]
        for z, c in getattr(eng, "zero_facts", []):
            apps = {}

            def collect(e):
                if z3.is_app(e):
                    if e.decl().name() == "F":
                        apps[e.get_id()] = e
                    for ch in e.children():
                        collect(ch)
            collect(goal)
            for a in apps.values():
                occ = [a.arg(j) for j in range(a.num_args())]
                hyps.append(z3.Implies(z, c.at(occ) == 0))
            hyps.append(z3.Implies(z, c.at(self.n) == 0))
        lem = ff_lemmas([goal] + list(hyps))
        eng.solver.push()
        try:
            for h in list(hyps) + lem:
                eng.solver.add(h)
            # second round: lemmas may introduce new ff terms (ff(x, m+n))
            lem2 = ff_lemmas([goal] + list(hyps) + lem)
            for h in lem2:
                eng.solver.add(h)
            return eng.oblige(name, goal, detail=detail)
        finally:
            eng.solver.pop()


def unit_multiply_op(layout, op_index, timeout_ms=20000, canary=False):
    nm = f"number_ordered_form:_multiply_op[{'+'.join(layout)};op={op_index}]" + ("[canary]" if canary else "")
    r = run_unit(nm, MultiplyOpHarness(tuple(layout), op_index, canary=canary), functions=[(MODULE, "NumberOrderedForm._multiply_op")], timeout_ms=timeout_ms)
    r.bounded.append(f"mode layout {layout} (number of modes concrete; powers, occupations, coefficient function symbolic)")
    return r


# ==================================================================================================
# per-term maps: _multiply_expr, _linearize_binary_operators, _cancel_binary_operator_numbers,
# __neg__, _eval_adjoint
# ==================================================================================================

class TermMapHarness(MultiplyOpHarness):
    """Methods that rebuild every term independently.  `spec(self, eng, p, coef, n)` returns the
    expected (final occupations, amplitude) of <result term>|n)."""

    method = None

    def __init__(self, layout, canary=False):
        self.layout, self.canary = tuple(layout), canary
        self.op_index = 0

    def setup(self, eng, slf):
        return [], {}

    def __call__(self, eng):
        self.eng = eng
        eng.int_is_eq = True
        layout = self.layout
        node = frontend.find(MODULE, f"NumberOrderedForm.{self.method}")
        self.fock = Fock(layout)
        self.loop_seen = False
        self.comp_result = None
        slf = NofSelf(self, layout)
        self.slf = slf
        g = {
            "One": 1, "Zero": 0, "FermionOp": TypeObj("FermionOp"), "BosonOp": TypeObj("BosonOp"), "LadderOp": TypeObj("LadderOp"),
            "Tuple": Builtin("Tuple", lambda e, *a: STup(list(a))), "type": Builtin("type", lambda e, x: NofClass(self)),
            "sympy": Namespace("sympy", {"Mul": Builtin("sympy.Mul", sympy_mul), "S": Builtin("sympy.S", lambda e, x: x)}),
            "operator_types": STup([]),
            "NumberOperator": Builtin("NumberOperator", lambda e, op: ("numop", op.i)),
            "_number_operator_to_placeholder": Builtin("_number_operator_to_placeholder", lambda e, x: Placeholder(x[1])),
        }
        eng.globals.update(g)
        args, kwargs = self.setup(eng, slf)
        clo = Closure(node, Env(None, {}), self.method)
        res = eng.call(clo, [slf, *args], kwargs)
        self.after(eng, res)

    def after(self, eng, res):
        binary = any(k in ("spin", "fermion") for k in self.layout)
        if res is self.slf:
            eng.oblige("returns-self-only-without-binary-modes", z3.BoolVal(not binary))
            return
        eng.oblige("returns-number-ordered-form", z3.BoolVal(isinstance(res, NofResult)))
        eng.oblige("term-loop-executed", z3.BoolVal(self.loop_seen))

    def expected(self, eng, p, coef, n):
        raise NotImplementedError

    def term_loop(self, eng, stmt, env):
        self.loop_seen = True
        layout, k = self.layout, len(self.layout)
        fock = self.fock
        p = [eng.fresh(f"p{j}") for j in range(k)]
        F = z3.Function("F", *([z3.IntSort()] * k), z3.RealSort())
        n = [z3.Int(f"n{j}") for j in range(k)]
        for j in range(k):
            if layout[j] in ("spin", "fermion"):
                eng.assume(z3.And(p[j] >= -1, p[j] <= 1, n[j] >= 0, n[j] <= 1))
        coef = Coef(lambda occ: F(*occ), "f")
        self.p, self.F, self.n = p, F, n
        # with many binary modes the amplitude identities are decided per occupation pattern (keeps every query small and
        # the verdict independent of machine load)
        binary = [j for j in range(k) if layout[j] in ("spin", "fermion")]
        if len(binary) >= 3 and self.split_binary:
            for j in binary:
                eng.branch(n[j] == 0)
                if not eng.branch(p[j] == 0):
                    eng.branch(p[j] == 1)
        td = TermDict()
        env.set("new_terms", td)
        eng.assign(stmt.target, STup([STup([SI(x) for x in p]), coef]), env)
        try:
            eng.exec_block(stmt.body, env)
        except _Cont:
            pass
        occ_s, amp_s, dropped_ok = self.expected(eng, p, coef, n)
        if not td.items:
            hyps = self.indep_instances(eng, F, p, None, amp_s) if self.assume_canonical else []
            self.prove(eng, "dropped-term-contributes-zero", amp_s == 0, hyps)
            env.set("new_terms", td)
            return
        eng.oblige("one-result-term-per-term", z3.BoolVal(len(td.items) == 1))
        key, val = td.items[0]
        newp = [zi(x) for x in eng.as_seq(key).items]
        newcoef = Coef.lift(val)
        occ_c, amp_c = fock.apply_term(list(n), z3.RealVal(1), newp, newcoef)
        if self.canary:
            amp_c = amp_c + 1
        hyps = self.indep_instances(eng, F, p, None, amp_s, amp_c) if self.assume_canonical else []
        self.prove(eng, "same-final-state", z3.And(*[a == b for a, b in zip(occ_c, occ_s)]), hyps)
        self.prove(eng, "same-amplitude", amp_c == amp_s, hyps, detail=self.detail)
        self.extra(eng, newp, newcoef, hyps)
        env.set("new_terms", td)

    assume_canonical = True
    split_binary = False
    detail = ""

    def extra(self, eng, newp, newcoef, hyps):
        pass


class MultiplyExprHarness(TermMapHarness):
    method = "_multiply_expr"
    detail = "<result term>|n) = <term> g(N) |n) = g(n) <term>|n)"

    def setup(self, eng, slf):
        k = len(self.layout)
        G = z3.Function("G", *([z3.IntSort()] * k), z3.RealSort())
        self.G = G

        class Expr(Coef):
            def m_getattr(self2, e, name):
                if name == "has":
                    return Builtin("has", lambda e2, *a: False)
                return Coef.m_getattr(self2, e, name)
        return [Expr(lambda occ: G(*occ), "g")], {}

    def expected(self, eng, p, coef, n):
        occ, amp = self.fock.apply_term(list(n), z3.RealVal(1), p, coef)
        return occ, amp * self.G(*n), None


class LinearizeHarness(TermMapHarness):
    method = "_linearize_binary_operators"
    split_binary = True
    detail = "f(n_c) = (1-n_c) f(0) + n_c f(1) for n_c in {0,1}: the denotation is unchanged"
    assume_canonical = False

    def expected(self, eng, p, coef, n):
        occ, amp = self.fock.apply_term(list(n), z3.RealVal(1), p, coef)
        return occ, amp, None

    def after(self, eng, res):
        TermMapHarness.after(self, eng, res)


class CancelHarness(TermMapHarness):
    method = "_cancel_binary_operator_numbers"
    detail = "n_c next to c or c^dagger may be replaced by 0: the denotation is unchanged"
    assume_canonical = False

    def expected(self, eng, p, coef, n):
        occ, amp = self.fock.apply_term(list(n), z3.RealVal(1), p, coef)
        return occ, amp, None

    def extra(self, eng, newp, newcoef, hyps):
        # establishes the canonical form
        layout, k, n = self.layout, len(self.layout), self.n
        for j in range(k):
            if layout[j] in ("spin", "fermion"):
                o0 = list(n); o0[j] = z3.IntVal(0)
                o1 = list(n); o1[j] = z3.IntVal(1)
                self.prove(eng, f"establishes-canonical-form:mode{j}", z3.Implies(newp[j] != 0, newcoef.at(o0) == newcoef.at(o1)), hyps)


def _unit(cls, label, layout, timeout_ms, canary=False):
    nm = f"number_ordered_form:{cls.method}[{'+'.join(layout)}]" + ("[canary]" if canary else "")
    r = run_unit(nm, cls(tuple(layout), canary=canary), functions=[(MODULE, f"NumberOrderedForm.{cls.method}")], timeout_ms=timeout_ms)
    r.bounded.append(f"mode layout {layout} (number of modes concrete; powers, occupations, coefficient functions symbolic)")
    return r


def unit_multiply_expr(layout, timeout_ms=20000, canary=False):
    return _unit(MultiplyExprHarness, "_multiply_expr", layout, timeout_ms, canary)


def unit_linearize(layout, timeout_ms=20000, canary=False):
    return _unit(LinearizeHarness, "_linearize_binary_operators", layout, timeout_ms, canary)


def unit_cancel(layout, timeout_ms=20000, canary=False):
    return _unit(CancelHarness, "_cancel_binary_operator_numbers", layout, timeout_ms, canary)


# ==================================================================================================
# __mul__: composition of the per-factor contracts (modular: callee bodies are not re-entered)
# ==================================================================================================

class NofAbs(Model):
    """Abstract NumberOrderedForm value: `base` times the factors applied on the right so far."""

    def __init__(self, owner, base, factors=(), summands=None):
        self.owner, self.base, self.factors, self.summands = owner, base, tuple(factors), summands

    def m_getattr(self, eng, name):
        o = self.owner
        if name == "operators":
            return o.ops
        if name == "args":
            return STup([o.ops, TermSeq(o) if self.base == "other" else ("terms-of", self.base)])
        if name == "_combine_operators":
            def comb(e, other):
                e.used_models.add("contract:_combine_operators returns both forms over the union operator list with unchanged denotation")
                return STup([NofAbs(o, "self"), NofAbs(o, "other")])
            return Builtin("_combine_operators", comb)
        if name == "_multiply_op":
            def mop(e, i, q):
                e.used_models.add("contract:_multiply_op(i, q): result = self o operators[i]^q (verified as its own unit)")
                e.oblige(f"pre:_multiply_op-power-nonzero@{e.site()}", zi(q) != 0)
                e.oblige(f"pre:_multiply_op-index-in-range@{e.site()}", z3.And(zi(i) >= 0, zi(i) < len(o.layout)))
                return NofAbs(o, self.base, self.factors + (("op", i, zi(q)),))
            return Builtin("_multiply_op", mop)
        if name == "_multiply_expr":
            def mex(e, g):
                e.used_models.add("contract:_multiply_expr(g): result = self o g(N) (verified as its own unit)")
                return NofAbs(o, self.base, self.factors + (("expr", g),))
            return Builtin("_multiply_expr", mex)
        if name == "_linearize_binary_operators":
            def lin(e):
                e.used_models.add("contract:_linearize_binary_operators preserves the denotation (verified as its own unit)")
                return self
            return Builtin("_linearize_binary_operators", lin)
        raise Unsupported(f"NumberOrderedForm.{name} (abstract)")

    def m_isinstance(self, eng, clsname):
        return clsname == "NumberOrderedForm"

    def m_binop(self, eng, op, other, reflected):
        if isinstance(op, ast.Add) and isinstance(other, NofAbs):
            l, r = (other, self) if reflected else (self, other)
            return NofAbs(self.owner, "sum", (), summands=(l, r))
        return NotImplemented


class MulHarness:
    def __init__(self, layout, canary=False):
        self.layout, self.canary = tuple(layout), canary

    def __call__(self, eng):
        eng.int_is_eq = True
        layout, k = self.layout, len(self.layout)
        self.ops = STup([OpModel(kd, i) for i, kd in enumerate(layout)])
        self.loop_seen = False
        node = frontend.find(MODULE, "NumberOrderedForm.__mul__")
        owner = self

        class Cls(Model):
            def m_call(self2, e, args, kwargs):
                terms = args[1]
                if isinstance(terms, dict) and not terms:
                    return NofAbs(owner, "zero")
                if isinstance(terms, tuple) and terms[0] == "terms-of":
                    return NofAbs(owner, terms[1])
                raise Unsupported("NumberOrderedForm(...) construction in __mul__")
        cls = Cls()
        cls.name = "NumberOrderedForm"
        eng.globals.update({"NumberOrderedForm": cls, "type": Builtin("type", lambda e, x: cls),
                            "sympy": Namespace("sympy", {"sympify": Builtin("sympify", lambda e, x: x)})})
        cls.m_isinstance = lambda e, c: False
        self.result_check_done = False
        clo = Closure(node, Env(None, {}), "__mul__")
        res = eng.call(clo, [NofAbs(self, "self"), NofAbs(self, "other")], {})
        eng.oblige("term-loop-executed", z3.BoolVal(self.loop_seen))
        eng.oblige("returns-accumulated-sum", z3.BoolVal(isinstance(res, NofAbs) and res is self.final))

    def term_loop(self, eng, stmt, env):
        self.loop_seen = True
        layout, k = self.layout, len(self.layout)
        p = [eng.fresh(f"p{j}") for j in range(k)]
        for j in range(k):
            if layout[j] in ("spin", "fermion"):
                eng.assume(z3.And(p[j] >= -1, p[j] <= 1))
        coef = Coef(lambda occ: z3.RealVal(1), "f")
        acc = NofAbs(self, "acc")
        env.set("result", acc)
        eng.assign(stmt.target, STup([STup([SI(x) for x in p]), coef]), env)
        try:
            eng.exec_block(stmt.body, env)
        except _Cont:
            pass
        out = env.lookup("result")
        ok = isinstance(out, NofAbs) and out.base == "sum" and out.summands[0] is acc
        eng.oblige("accumulates:result+=partial", z3.BoolVal(ok), detail="result = result + (self o term)")
        if ok:
            part = out.summands[1]
            eng.oblige("partial-starts-from-self", z3.BoolVal(part.base == "self"))
            # expected word: creators ascending, coefficient, annihilators descending; zero powers skipped
            exp = []
            for j in range(k):
                if eng.valid(p[j] < 0):
                    exp.append(("op", j, p[j]))
            exp.append(("expr", coef))
            for j in reversed(range(k)):
                if eng.valid(p[j] > 0):
                    exp.append(("op", j, p[j]))
            got = list(part.factors)
            if self.canary and got:
                got = got[1:]
            self.compare_words(eng, got, exp)
        self.final = NofAbs(self, "final")
        env.set("result", self.final)

    def compare_words(self, eng, got, exp):
        layout = self.layout

        def describe(w):
            return [(f[0], f[1] if f[0] == "op" else "f") for f in w]
        eng.oblige("factors:same-multiset", z3.BoolVal(sorted(map(str, describe(got))) == sorted(map(str, describe(exp)))),
                   detail=f"applied {describe(got)}, term denotes {describe(exp)}")
        # powers passed are the term's powers
        for f in got:
            if f[0] == "op":
                m = [e for e in exp if e[0] == "op" and e[1] == f[1]]
                if m:
                    eng.oblige(f"factors:power-of-mode-{f[1]}", f[2] == m[0][2])
            else:
                m = [e for e in exp if e[0] == "expr"]
                eng.oblige("factors:coefficient-is-the-term-coefficient", z3.BoolVal(bool(m) and f[1] is m[0][1]))
        # creators before the coefficient, annihilators after it
        def phase(w):
            idx = [q for q, f in enumerate(w) if f[0] == "expr"]
            return idx[0] if idx else -1
        gi = phase(got)
        for q, f in enumerate(got):
            if f[0] == "op":
                before = q < gi
                eng.oblige(f"order:mode-{f[1]}-on-the-correct-side-of-the-coefficient", z3.If(f[2] < 0, z3.BoolVal(before), z3.BoolVal(not before)),
                           detail="creation operators are multiplied in before the number part, annihilation operators after it")
        # relative order of anticommuting (fermionic) factors must be the canonical one
        gf = [f[1] for f in got if f[0] == "op" and layout[f[1]] == "fermion"]
        ef = [f[1] for f in exp if f[0] == "op" and layout[f[1]] == "fermion"]
        eng.oblige("order:fermionic-factors-in-canonical-order", z3.BoolVal(gf == ef),
                   detail=f"fermionic factors applied in mode order {gf}; the term denotes them in order {ef} (creators ascending, annihilators descending)")


def unit_mul(layout, timeout_ms=20000, canary=False):
    nm = f"number_ordered_form:__mul__[{'+'.join(layout)}]" + ("[canary]" if canary else "")
    r = run_unit(nm, MulHarness(tuple(layout), canary=canary), functions=[(MODULE, "NumberOrderedForm.__mul__")], timeout_ms=timeout_ms)
    r.bounded.append(f"mode layout {layout} (number of modes concrete; term powers symbolic)")
    return r


# ==================================================================================================
# _eval_adjoint: the adjoint with respect to the Fock inner product.  In the unnormalised basis used here
# (|n) has squared norm prod_bosons n_j!) this reads, for every pair of occupation states,
#       <a| T' |b> * ||b||^2 ... i.e.   amp_{T'}(a -> b) * prod_j ff(b_j, s_j)  =  conj(amp_T(b -> a)) * prod_j ff(a_j, r_j)
# where T takes |b) to |a) (s_j boson quanta annihilated, r_j created): b_j!/nu_j! = ff(b_j, s_j), a_j!/nu_j! = ff(a_j, r_j).
# Coefficients are real-valued functions in this model (coeff.adjoint() = coeff).
# ==================================================================================================

class AdjointHarness(MultiplyOpHarness):
    def __init__(self, layout, canary=False):
        self.layout, self.canary = tuple(layout), canary
        self.op_index = 0

    def __call__(self, eng):
        self.eng = eng
        eng.int_is_eq = True
        layout, k = self.layout, len(self.layout)
        node = frontend.find(MODULE, "NumberOrderedForm._eval_adjoint")
        fock = Fock(layout)
        harness = self
        p = [eng.fresh(f"p{j}") for j in range(k)]
        F = z3.Function("F", *([z3.IntSort()] * k), z3.RealSort())
        n = [z3.Int(f"n{j}") for j in range(k)]
        for j in range(k):
            if layout[j] in ("spin", "fermion"):
                eng.assume(z3.And(p[j] >= -1, p[j] <= 1, n[j] >= 0, n[j] <= 1))
        class ACoef(Coef):
            """the term's coefficient: its modulus-sign part is the real function F (amplitude relation below); its complex phase is tracked symbolically by the
            number of conjugations applied (a coefficient may be complex without containing a literal imaginary unit: a plain Symbol, conjugate(g), f(g))"""
            conj = False

            def m_getattr(s, e, name):
                if name in ("adjoint", "conjugate"):
                    def adj(e2):
                        c = ACoef(s.fn, s.label)
                        c.conj = not s.conj
                        return c
                    return Builtin(name, adj)
                if name in ("has", "is_real", "is_extended_real", "is_commutative", "free_symbols", "atoms", "is_number"):
                    # syntactic / assumption queries cannot decide whether the coefficient is real for every value of its symbols
                    q = e.fresh(f"coefficient_query_{name}", "bool")
                    return Builtin(name, lambda e2, *a: SB(q)) if name in ("has", "atoms") else SB(q)
                return super().m_getattr(e, name)
        coef = ACoef(lambda occ: F(*occ), "f")
        self.n = n
        binary_modes = [j for j in range(k) if layout[j] in ("spin", "fermion")]
        if len(binary_modes) >= 2:
            # decide the amplitude identity per occupation / power pattern of the binary modes (small queries, load-independent verdicts)
            for j in binary_modes:
                eng.branch(n[j] == 0)
                if not eng.branch(p[j] == 0):
                    eng.branch(p[j] == 1)
        seen = []

        class Terms(Model):
            def m_comprehension(s, e, ce, g, env):
                cenv = Env(env)
                cenv.is_comprehension = True
                e.assign(g.target, STup([STup([SI(x) for x in p]), coef]), cenv)
                if g.ifs:
                    raise Unsupported("filtered adjoint")
                seen.append(1)
                return STup([e.eval(ce.elt, cenv)], None, True)

            def m_for(s, e, stmt, env):
                # explicit-loop form of the same per-term map: the body is executed for the arbitrary term
                e.assign(stmt.target, STup([STup([SI(x) for x in p]), coef]), env)
                seen.append(1)
                try:
                    e.exec_block(stmt.body, env)
                except (_Cont, _Brk):
                    raise Unsupported("continue / break in a per-term loop")
        ops = STup([OpModel(kd, i) for i, kd in enumerate(layout)])

        class Self(Model):
            def m_getattr(s, e, name):
                if name == "args":
                    return STup([ops, Terms()])
                if name == "operators":
                    return ops
                raise Unsupported(f"self.{name}")
        built = []

        def cls_call(e, o, terms, validate=True):
            built.append((o, terms))
            return NofResult(o, terms)
        from contracts.formats import T as _T
        eng.globals.update({"type": Builtin("type", lambda e, x: Builtin("cls", cls_call)), "sympy": Namespace("sympy", {"I": _T("I"), "S": Namespace("S", {"ImaginaryUnit": _T("I")})})})
        res = eng.call(Closure(node, Env(None, {}), "_eval_adjoint"), [Self()], {})
        ok = isinstance(res, NofResult) and len(built) == 1 and built[0][0] is ops and len(seen) == 1
        eng.oblige("returns-a-form-on-the-same-operators-with-one-term-per-term", z3.BoolVal(ok))
        if not ok:
            return
        terms = eng.as_seq(built[0][1])
        t = eng.as_seq(terms.items[0])
        newp = [zi(x) for x in eng.as_seq(t.items[0]).items]
        newcoef = Coef.lift(t.items[1])
        eng.oblige("coefficient-conjugated-exactly-once", z3.BoolVal(isinstance(t.items[1], ACoef) and t.items[1].conj is True),
                   detail="the adjoint conjugates every coefficient, whatever it looks like syntactically (complex symbols carry no literal I)")
        eng.oblige("powers-negated", z3.And(*[a == -b for a, b in zip(newp, p)]))
        # T : |n) -> |a)
        occ_a, amp_T = fock.apply_term(list(n), z3.RealVal(1), p, coef)
        # T': |a) -> ?
        occ_b, amp_Tp = fock.apply_term(list(occ_a), z3.RealVal(1), newp, newcoef)
        wb = z3.RealVal(1)
        wa = z3.RealVal(1)
        for j in range(k):
            if layout[j] == "boson":
                s = z3.If(p[j] > 0, p[j], 0)
                r = z3.If(p[j] < 0, -p[j], 0)
                wb = wb * z3.ToReal(ff(n[j], s))
                wa = wa * z3.ToReal(ff(occ_a[j], r))
        lhs, rhs = amp_Tp * wb, amp_T * wa
        if self.canary:
            rhs = -rhs
        # matrix elements are between physical states: binary occupations of the image state lie in {0, 1}
        phys = [z3.And(occ_a[j] >= 0, occ_a[j] <= 1) for j in range(k) if layout[j] in ("spin", "fermion")]
        self.prove(eng, "adjoint-returns-to-the-initial-state", z3.And(*[x == y for x, y in zip(occ_b, n)]), phys)
        self.prove(eng, "adjoint-amplitude", lhs == rhs, phys,
                   detail="<a|T'|b> ||b||^2 = conj(<b|T|a>) ||a||^2 in the unnormalised occupation basis, for every pair of states")


def unit_adjoint(layout, timeout_ms=20000, canary=False):
    nm = f"number_ordered_form:_eval_adjoint[{'+'.join(layout)}]" + ("[canary]" if canary else "")
    r = run_unit(nm, AdjointHarness(tuple(layout), canary=canary), functions=[(MODULE, "NumberOrderedForm._eval_adjoint")], timeout_ms=timeout_ms)
    r.bounded.append(f"mode layout {list(layout)} (number of modes concrete; powers, occupations, coefficient functions symbolic; real coefficients)")
    return r


# ==================================================================================================
# __neg__ (per-term comprehension) and __add__ (accumulation into a dict keyed by powers)
# ==================================================================================================

def unit_neg(layout, timeout_ms=20000):
    layout = tuple(layout)

    def harness(eng):
        eng.int_is_eq = True
        k = len(layout)
        node = frontend.find(MODULE, "NumberOrderedForm.__neg__")
        fock = Fock(layout)
        p = [eng.fresh(f"p{j}") for j in range(k)]
        F = z3.Function("F", *([z3.IntSort()] * k), z3.RealSort())
        n = [z3.Int(f"n{j}") for j in range(k)]
        coef = Coef(lambda occ: F(*occ), "f")
        ops = STup([OpModel(kd, i) for i, kd in enumerate(layout)])
        seen, built = [], []

        class Terms(Model):
            def m_comprehension(s, e, ce, g, env):
                cenv = Env(env)
                cenv.is_comprehension = True
                e.assign(g.target, STup([STup([SI(x) for x in p]), coef]), cenv)
                if g.ifs:
                    raise Unsupported("filtered negation")
                seen.append(1)
                return STup([e.eval(ce.elt, cenv)], None, True)

            def m_for(s, e, stmt, env):
                e.assign(stmt.target, STup([STup([SI(x) for x in p]), coef]), env)
                seen.append(1)
                try:
                    e.exec_block(stmt.body, env)
                except (_Cont, _Brk):
                    raise Unsupported("continue / break in a per-term loop")

        class Self(Model):
            def m_getattr(s, e, name):
                if name == "args":
                    return STup([ops, Terms()])
                if name == "operators":
                    return ops
                raise Unsupported(f"self.{name}")

        def cls_call(e, o, terms, validate=True):
            built.append((o, terms))
            return NofResult(o, terms)
        eng.globals.update({"type": Builtin("type", lambda e, x: Builtin("cls", cls_call))})
        res = eng.call(Closure(node, Env(None, {}), "__neg__"), [Self()], {})
        ok = isinstance(res, NofResult) and len(built) == 1 and built[0][0] is ops and len(seen) == 1
        eng.oblige("returns-a-form-on-the-same-operators-with-one-term-per-term", z3.BoolVal(ok))
        if not ok:
            return
        t = eng.as_seq(eng.as_seq(built[0][1]).items[0])
        newp = [zi(x) for x in eng.as_seq(t.items[0]).items]
        newcoef = Coef.lift(t.items[1])
        occ1, amp1 = fock.apply_term(list(n), z3.RealVal(1), p, coef)
        occ2, amp2 = fock.apply_term(list(n), z3.RealVal(1), newp, newcoef)
        eng.oblige("same-final-state", z3.And(*[a == b for a, b in zip(occ1, occ2)]))
        eng.oblige("amplitude-negated", amp2 == -amp1, detail="(-x)|n) = -(x|n)) for every occupation state")
    r = run_unit(f"number_ordered_form:__neg__[{'+'.join(layout)}]", harness, functions=[(MODULE, "NumberOrderedForm.__neg__")], timeout_ms=timeout_ms)
    r.bounded.append(f"mode layout {list(layout)}")
    return r


def unit_add(layout, timeout_ms=20000, canary=False):
    """__add__: both operands are brought to a common operator list by _combine_operators (callee, assumed denotation-preserving: battery),
    then every term of either operand adds its coefficient to the entry of its own powers and touches no other entry; the result is built
    from that dictionary on the common operator list.  Since a term's denotation is linear in its coefficient, the result denotes the sum."""
    layout = tuple(layout)

    def harness(eng):
        eng.int_is_eq = True
        k = len(layout)
        node = frontend.find(MODULE, "NumberOrderedForm.__add__")
        fock = Fock(layout)
        n = [z3.Int(f"n{j}") for j in range(k)]
        ops = STup([OpModel(kd, i) for i, kd in enumerate(layout)])
        loops = []

        class Acc(Model):
            """defaultdict(lambda: Zero) seen by one iteration: the current entry of any key is an arbitrary coefficient"""
            def __init__(s):
                s.reads, s.writes = [], []

            def m_getitem(s, e, key):
                C = z3.Function(f"C{len(s.reads)}", *([z3.IntSort()] * k), z3.RealSort())
                c = Coef(lambda occ, C=C: C(*occ), "current")
                s.reads.append((key, c))
                return c

            def m_setitem(s, e, key, val):
                s.writes.append((key, val))
        acc = Acc()

        class Terms(Model):
            def __init__(s, tag):
                s.tag = tag

            def m_for(s, e, stmt, env):
                p = [e.fresh(f"p_{s.tag}{j}") for j in range(k)]
                F = z3.Function(f"F_{s.tag}", *([z3.IntSort()] * k), z3.RealSort())
                coef = Coef(lambda occ: F(*occ), "f")
                r0, w0 = len(acc.reads), len(acc.writes)
                e.assign(stmt.target, STup([STup([SI(x) for x in p]), coef]), env)
                try:
                    e.exec_block(stmt.body, env)
                except (_Cont, _Brk):
                    raise Unsupported("continue / break in the accumulation loop")
                loops.append(s.tag)
                rd, wr = acc.reads[r0:], acc.writes[w0:]
                e.oblige(f"{s.tag}:one-entry-read-and-written-per-term", z3.BoolVal(len(rd) == 1 and len(wr) == 1))
                if len(rd) == 1 and len(wr) == 1:
                    kr = [zi(x) for x in e.as_seq(rd[0][0]).items]
                    kw = [zi(x) for x in e.as_seq(wr[0][0]).items]
                    e.oblige(f"{s.tag}:entry-is-the-one-of-the-terms-powers", z3.And(*[a == b for a, b in zip(kr, p)], *[a == b for a, b in zip(kw, p)]))
                    newc = Coef.lift(wr[0][1])
                    goal = newc.at(n) == rd[0][1].at(n) + coef.at(n)
                    if canary and s.tag == "other":
                        goal = newc.at(n) == rd[0][1].at(n) - coef.at(n)
                    e.oblige(f"{s.tag}:coefficient-added-to-the-entry", goal, detail="new entry = old entry + coefficient of the term, as functions of the occupations")

        class Operand(Model):
            def __init__(s, tag):
                s.tag = tag

            def m_getattr(s, e, name):
                if name == "args":
                    return STup([ops, Terms(s.tag)])
                if name == "operators":
                    return ops
                if name == "_combine_operators":
                    return Builtin("_combine_operators", lambda e2, other: STup([s, other]))
                raise Unsupported(f"{s.tag}.{name}")

            def m_isinstance(s, e, c):
                return c == "NumberOrderedForm"
        a, b = Operand("self"), Operand("other")
        built = []

        def cls_call(e, o, terms, validate=True):
            built.append((o, terms))
            return NofResult(o, terms)
        eng.globals.update({"type": Builtin("type", lambda e, x: Builtin("cls", cls_call)), "NumberOrderedForm": TypeObj("NumberOrderedForm"),
                            "defaultdict": Builtin("defaultdict", lambda e, f: acc), "Zero": 0})
        res = eng.call(Closure(node, Env(None, {}), "__add__"), [a, b], {})
        eng.oblige("both-operands-are-accumulated-once", z3.BoolVal(sorted(loops) == ["other", "self"]), detail=repr(loops))
        eng.oblige("result-built-from-the-accumulated-entries-on-the-common-operators", z3.BoolVal(isinstance(res, NofResult) and len(built) == 1 and built[0][0] is ops and built[0][1] is acc))
    r = run_unit(f"number_ordered_form:__add__[{'+'.join(layout)}]" + ("[canary]" if canary else ""), harness, functions=[(MODULE, "NumberOrderedForm.__add__")], timeout_ms=timeout_ms)
    r.bounded.append(f"mode layout {list(layout)}")
    return r


# ==================================================================================================
# __pow__ with an integer exponent (C08 "integer power"): exp == 0 gives the identity form, a positive integer the exp-fold product of
# `self` with itself (loop rule: after k iterations `result` denotes self^(k+1); the product is the contract of __mul__).  Any other
# way of producing the power (e.g. a closed form for special terms) reads the term dictionary and leaves this contract: it is reported
# as undecided (exit 2) unless the native battery refutes it.
# ==================================================================================================

class PowAbs(Model):
    """self ** k for symbolic k >= 1 (k == 1: self itself)."""

    def __init__(self, owner, k, is_self=False):
        self.owner, self.k, self.is_self = owner, k, is_self

    def m_isinstance(self, eng, clsname):
        return clsname == "NumberOrderedForm"

    def m_getattr(self, eng, name):
        if name == "operators":
            return self.owner.ops
        raise Unsupported(f"NumberOrderedForm.{name} in __pow__ (the term dictionary is opaque in this contract)")

    def m_binop(self, eng, op, other, reflected):
        if isinstance(op, ast.Mult) and isinstance(other, PowAbs) and other.owner is self.owner:
            eng.used_models.add("contract:__mul__ denotes the operator product (verified as its own unit)")
            return PowAbs(self.owner, self.k + other.k)     # powers of one element commute
        return NotImplemented


class PowHarness:
    def __init__(self, layout):
        self.layout = tuple(layout)

    def __call__(self, eng):
        layout, k = self.layout, len(self.layout)
        self.ops = STup([OpModel(kd, i) for i, kd in enumerate(layout)])
        node = frontend.find(MODULE, "NumberOrderedForm.__pow__")
        owner = self
        exp = eng.fresh("exp")
        eng.assume(exp >= 0)
        made = []

        class Cls(Model):
            def m_call(self2, e, args, kwargs):
                made.append(args)
                return ("constructed", args)
        cls = Cls()
        cls.name = "NumberOrderedForm"
        loops = []

        class SymRangeN(Model):
            def __init__(s, n):
                s.n = n

            def m_for(s, e, stmt, env):
                assigned = {t.id for st in ast.walk(ast.Module(body=stmt.body, type_ignores=[])) if isinstance(st, (ast.Assign, ast.AugAssign))
                            for t in (st.targets if isinstance(st, ast.Assign) else [st.target]) if isinstance(t, ast.Name)}
                if assigned != {"result"} or stmt.orelse:
                    raise Unsupported("loop of __pow__ assigns other variables than `result`")
                r0 = env.lookup("result")
                e.oblige("loop:starts-from-self", z3.BoolVal(isinstance(r0, PowAbs) and r0.is_self))
                j = e.fresh("iteration")
                e.assume(z3.And(j >= 0, j < s.n))
                inv = PowAbs(owner, j + 1)
                env.set("result", inv)
                e.assign(stmt.target, SI(j), env)
                try:
                    e.exec_block(stmt.body, env)
                except (_Cont, _Brk):
                    raise Unsupported("continue / break in the loop of __pow__")
                r1 = env.lookup("result")
                ok = isinstance(r1, PowAbs) and r1 is not inv
                e.oblige("loop:every-iteration-multiplies-by-self-once", r1.k == j + 2 if ok else z3.BoolVal(False), detail="invariant: after j iterations result = self^(j+1)")
                loops.append(s.n)
                env.set("result", PowAbs(owner, s.n + 1))

        def rng(e, *a):
            if len(a) == 1:
                return SymRangeN(zi(a[0]))
            raise Unsupported("range with several arguments")
        eng.globals.update({"NumberOrderedForm": cls, "type": Builtin("type", lambda e, x: cls), "range": Builtin("range", rng),
                            "sympy": Namespace("sympy", {"Integer": TypeObj("Integer"), "Expr": TypeObj("Expr")}),
                            "Tuple": Builtin("Tuple", lambda e, *a: STup(list(a))), "Zero": 0, "One": 1})
        slf = PowAbs(self, z3.IntVal(1), is_self=True)
        res = eng.call(Closure(node, Env(None, {}), "__pow__"), [slf, SI(exp)], {})
        if eng.branch(exp == 0):
            ok = isinstance(res, tuple) and res[0] == "constructed" and len(made) == 1
            eng.oblige("zero:constructs-a-form", z3.BoolVal(ok), detail=repr(res)[:200])
            if ok:
                args = res[1]
                okops = args[0] is self.ops
                terms = eng.as_seq(args[1])
                okt = len(terms.items) == 1
                eng.oblige("zero:same-operator-list", z3.BoolVal(okops))
                eng.oblige("zero:exactly-one-term", z3.BoolVal(okt))
                if okt:
                    t = eng.as_seq(terms.items[0])
                    pw = eng.as_seq(t.items[0])
                    eng.oblige("zero:the-term-has-no-operators-and-coefficient-one",
                               z3.BoolVal(len(pw.items) == k and all(isinstance(x, int) and x == 0 for x in pw.items) and t.items[1] == 1), detail=repr(t)[:200])
            return
        ok = isinstance(res, PowAbs)
        eng.oblige("positive:returns-a-product-of-copies-of-self", z3.BoolVal(ok), detail=repr(res)[:200])
        if ok:
            eng.oblige("positive:exactly-exp-factors", res.k == exp, detail="self ** exp = self * ... * self (exp factors)")


def unit_pow(layout, timeout_ms=20000):
    nm = f"number_ordered_form:__pow__[{'+'.join(layout)}]"
    r = run_unit(nm, PowHarness(tuple(layout)), functions=[(MODULE, "NumberOrderedForm.__pow__")], timeout_ms=timeout_ms)
    r.bounded.append(f"mode layout {layout} (number of modes concrete; exponent any non-negative integer)")
    return r


# ==================================================================================================
# _expand_operators / _combine_operators: bringing two forms to a common operator list.
#   _expand_operators(new): every term keeps its coefficient; the power of new operator i is the power of the same operator in the old list, 0 for
#   an operator the old list does not have.  Precondition (stated by the docstring, established by _combine_operators): `new` contains every old operator
#   and is in canonical order, so the relative order of the old operators is unchanged - the term denotes the same product.
#   _combine_operators(other): equal lists: both forms returned as they are; otherwise both are expanded to ONE list, the canonically sorted union.
# ==================================================================================================

class NamedOp(OpModel):
    """an operator with a name; hashable and comparable like the sympy operators (by kind and name)"""

    def __init__(self, kind, name):
        super().__init__(kind, name)
        self.name = name

    def __repr__(self):
        return f"{self.kind}:{self.name}"

    def __hash__(self):
        return hash((self.kind, self.name))

    def __eq__(self, other):
        return isinstance(other, NamedOp) and (self.kind, self.name) == (other.kind, other.name)

    def m_getattr(self, eng, name):
        if name == "name":
            return self.name
        raise Unsupported(f"operator.{name}")

    def m_binop(self, eng, op, other, reflected):
        if isinstance(op, ast.Eq):
            return self == other
        if isinstance(op, ast.NotEq):
            return not (self == other)
        return NotImplemented


def unit_expand_operators(old, new, timeout_ms=20000):
    """old / new: lists of (kind, name); new contains old"""
    def harness(eng):
        eng.int_is_eq = True
        node = frontend.find(MODULE, "NumberOrderedForm._expand_operators")
        old_ops = STup([NamedOp(k, nm) for k, nm in old])
        new_ops = STup([NamedOp(k, nm) for k, nm in new], None, True)
        p = [eng.fresh(f"p{j}") for j in range(len(old))]
        coef = Coef(lambda occ: z3.RealVal(1), "f")
        seen, built = [], []

        class Terms(Model):
            dictcomp_ok = True

            def m_comprehension(s, e, ce, g, env):
                cenv = Env(env)
                cenv.is_comprehension = True
                e.assign(g.target, STup([STup([SI(x) for x in p]), coef]), cenv)
                if g.ifs:
                    raise Unsupported("filtered expansion")
                seen.append(1)
                if isinstance(ce, ast.DictComp):
                    return {"__generic__": (e.eval(ce.key, cenv), e.eval(ce.value, cenv))}
                return STup([e.eval(ce.elt, cenv)], None, True)

        class Self(Model):
            def m_getattr(s, e, name):
                if name == "args":
                    return STup([old_ops, Terms()])
                if name == "operators":
                    return old_ops
                raise Unsupported(f"self.{name}")

        def cls_call(e, o, terms, validate=True):
            built.append((o, terms, validate))
            return NofResult(o, terms)
        eng.globals.update({"type": Builtin("type", lambda e, x: Builtin("cls", cls_call))})
        res = eng.call(Closure(node, Env(None, {}), "_expand_operators"), [Self(), new_ops], {})
        ok = isinstance(res, NofResult) and len(built) == 1 and len(seen) == 1 and isinstance(built[0][1], dict) and "__generic__" in built[0][1]
        eng.oblige("one-new-term-per-old-term-on-the-new-operator-list", z3.BoolVal(ok and built[0][0] is new_ops), detail=repr(built)[:200])
        if not ok:
            return
        key, val = built[0][1]["__generic__"]
        newp = eng.as_seq(key)
        eng.oblige("coefficient-unchanged", z3.BoolVal(val is coef))
        eng.oblige("one-power-per-new-operator", z3.BoolVal(newp.tail is None and len(newp.items) == len(new)))
        if newp.tail is None and len(newp.items) == len(new):
            for i, (k, nm) in enumerate(new):
                if (k, nm) in old:
                    eng.oblige(f"power-of-{k}:{nm}-is-its-old-power", zi(newp.items[i]) == p[old.index((k, nm))])
                else:
                    eng.oblige(f"power-of-new-operator-{k}:{nm}-is-zero", zi(newp.items[i]) == 0)
    r = run_unit(f"number_ordered_form:_expand_operators[{len(old)}->{len(new)} operators]", harness, functions=[(MODULE, "NumberOrderedForm._expand_operators")], timeout_ms=timeout_ms)
    r.bounded.append(f"operator lists {old} -> {new} (concrete; powers symbolic)")
    return r


def unit_combine_operators(a_ops, b_ops, timeout_ms=20000):
    """a_ops / b_ops: canonically ordered lists of (kind, name)"""
    KINDS = ["boson", "ladder", "spin", "fermion"]      # generator_types order

    def harness(eng):
        node = frontend.find(MODULE, "NumberOrderedForm._combine_operators")
        calls = []

        class Form(Model):
            def __init__(s, tag, ops):
                s.tag, s.ops = tag, STup([NamedOp(k, nm) for k, nm in ops])

            def m_getattr(s, e, name):
                if name == "operators":
                    return s.ops
                if name == "_expand_operators":
                    def ex(e2, new):
                        e2.used_models.add("contract:_expand_operators keeps every term's denotation on a larger canonically ordered list (verified as its own unit)")
                        calls.append((s.tag, new))
                        return ("expanded", s.tag, new)
                    return Builtin("_expand_operators", ex)
                raise Unsupported(f"form.{name}")

        class GenTypes(Model):
            def m_getattr(s, e, name):
                if name == "index":
                    return Builtin("index", lambda e2, t: KINDS.index(t.kind))
                raise Unsupported(name)

        class TypeOf(Model):
            def __init__(s, kind):
                s.kind = kind
        A, B = Form("self", a_ops), Form("other", b_ops)

        def set_(e, x):
            return set(e.as_seq(x).items)

        def sorted_(e, x, key=None):
            items = list(x) if isinstance(x, (set, list)) else list(e.as_seq(x).items)
            keyed = [(e.call(key, [it], {}) if key is not None else it, it) for it in items]

            def plain(k):
                return tuple(plain(y) for y in k.items) if isinstance(k, STup) else k
            keyed.sort(key=lambda kv: plain(kv[0]))
            return STup([it for _k, it in keyed], None, True)

        class SetModel(Model):
            pass
        eng.globals.update({"set": Builtin("set", lambda e, x: PySet(set(e.as_seq(x).items))), "sorted": Builtin("sorted", lambda e, x, key=None: sorted_(e, x.s if isinstance(x, PySet) else x, key)),
                            "generator_types": GenTypes(), "type": Builtin("type", lambda e, o: TypeOf(o.kind)), "str": Builtin("str", lambda e, x: str(x))})
        res = eng.call(Closure(node, Env(None, {}), "_combine_operators"), [A, B], {})
        r = eng.as_seq(res)
        same = list(a_ops) == list(b_ops)
        if same:
            eng.oblige("equal-lists:both-forms-returned-unchanged", z3.BoolVal(len(r.items) == 2 and r.items[0] is A and r.items[1] is B and not calls))
            return
        union = sorted(set(a_ops) | set(b_ops), key=lambda o: (KINDS.index(o[0]), str(o[1])))
        ok = len(r.items) == 2 and len(calls) == 2 and [c[0] for c in calls] == ["self", "other"] and r.items[0] == ("expanded", "self", calls[0][1]) and r.items[1] == ("expanded", "other", calls[1][1])
        eng.oblige("different-lists:self-then-other-each-expanded", z3.BoolVal(ok), detail=repr(res)[:200])
        if ok:
            l1, l2 = [(o.kind, o.name) for o in eng.as_seq(calls[0][1]).items], [(o.kind, o.name) for o in eng.as_seq(calls[1][1]).items]
            eng.oblige("both-expanded-to-one-and-the-same-list", z3.BoolVal(l1 == l2))
            eng.oblige("the-list-is-the-union-in-canonical-order-(type-then-name)", z3.BoolVal(l1 == union), detail=f"{l1} vs {union}")
    r = run_unit(f"number_ordered_form:_combine_operators[{len(a_ops)}+{len(b_ops)} operators]", harness, functions=[(MODULE, "NumberOrderedForm._combine_operators")], timeout_ms=timeout_ms)
    r.bounded.append(f"operator lists {a_ops} and {b_ops} (concrete)")
    return r


class PySet(Model):
    """a concrete Python set of model objects (hashable models only)"""

    def __init__(self, s):
        self.s = s

    def m_getattr(self, eng, name):
        if name == "union":
            return Builtin("union", lambda e, other: PySet(self.s | set(e.as_seq(other).items)))
        raise Unsupported(f"set.{name}")
