"""Contract of the mask / flag fragment of block_diagonalization.block_diagonalize (numeric branch):
the statements from the computation of `commuting_blocks` up to `scope["offdiag"] = offdiag`
(extracted mechanically: the `if not isinstance(fully_diagonalize, dict)` statement, the `scope = {...}`
and `equal_eigs = {...}` assignments and the `if not fully_diagonalize: ... elif not operators:` statement).
What extraction drops: everything before and after that slice of the function body; the slice is
executed from a symbolic pre-state (block energies, masks, flags symbolic; number of blocks concrete).

These are the call-site obligations of the Lean setting (DESIGN.md C01, items 3-4):
  masks are 0/1-valued, complementary, symmetric in Hermitian mode; eliminated elements have
  |E_a - E_c| > atol (the solver divides there); kept pattern of a block given by index is
  |E_a - E_c| <= atol; `commuting_blocks[i]` is set only if the kept pattern is transitive (or the
  block has no mask); `two_block_optimized` only for exactly two blocks without any mask;
  diag/offdiag multiply element-wise by the keep / eliminate mask for dense, sparse and sympy values,
  are the identity / zero on blocks without a mask, and index a BlockSeries argument first.
"""
from __future__ import annotations

import ast

import z3

from pyvc import frontend, pw
from pyvc.core import Closure, Env, STup, SI, SB, SExc, Model, Builtin, Namespace, TypeObj, PyRaise, Unsupported, wrap_bool, zi
from pyvc.models import ZERO, SObj, SSeries
from pyvc.pw import Cx, PArr, PSparse, PSym, SymVal, SReal, cx_if, R0
from pyvc.unit import run_unit

MODULE = "block_diagonalization"

_dim = z3.Function("block_dim", z3.IntSort(), z3.IntSort())
_Er = z3.Function("E_re", z3.IntSort(), z3.IntSort(), z3.RealSort())
_mask = z3.Function("user_mask", z3.IntSort(), z3.IntSort(), z3.IntSort(), z3.BoolSort())
_Xr = z3.Function("X_re", z3.IntSort(), z3.IntSort(), z3.RealSort())
_Xi = z3.Function("X_im", z3.IntSort(), z3.IntSort(), z3.RealSort())
_Xst = z3.Function("X_stored", z3.IntSort(), z3.IntSort(), z3.BoolSort())


def fragment():
    fn = frontend.find(MODULE, "block_diagonalize")
    body = fn.body
    start = end = None
    for k, st in enumerate(body):
        if start is None and isinstance(st, ast.If) and "isinstance(fully_diagonalize, dict)" in ast.unparse(st.test) \
                and any(isinstance(n, ast.Name) and n.id == "commuting_blocks" and isinstance(n.ctx, ast.Store) for n in ast.walk(st)):
            start = k      # the statement that initialises `commuting_blocks` (either polarity of the isinstance test)
        if isinstance(st, ast.If) and ast.unparse(st.test) == "not fully_diagonalize" and start is not None:
            end = k
    if start is None or end is None:
        raise frontend.SourceError("mask fragment of block_diagonalize not found")
    return body[start:end + 1]


class HShape(Model):
    def __init__(self, nb):
        self.nb = nb

    def m_getattr(self, eng, name):
        if name == "shape":
            return STup([self.nb, self.nb])
        raise Unsupported(f"H.{name}")


def make_harness(variant, nb, hermitian, canary=False):
    """variant: 'none' | 'tuple' | 'dict'"""
    def harness(eng):
        frag = fragment()
        atol = z3.Real("atol")
        eng.assume(atol >= 0)
        for b in range(nb):
            eng.assume(_dim(b) >= 0)
        diagonal = STup([PArr([_dim(b)], (lambda b: (lambda i: Cx(_Er(b, i[0]))))(b), "num", False, f"diagonal[{b}]") for b in range(nb)])
        herm = z3.Bool("hermitian_mode") if hermitian is None else z3.BoolVal(hermitian)
        masked_block = 0
        if variant == "none":
            fully = STup([])
        elif variant == "tuple":
            fully = STup([masked_block])
        else:
            m = PArr([_dim(masked_block), _dim(masked_block)], lambda i: _mask(masked_block, i[0], i[1]), "bool", False, "user_mask")
            fully = {masked_block: m}
        sparse_ns = Namespace("sparse", {"issparse": Builtin("issparse", lambda e, x: isinstance(x, PSparse))})
        sympy_ns = Namespace("sympy", {"MatrixBase": TypeObj("MatrixBase"), "Matrix": Builtin("sympy.Matrix", lambda e, x: x),
                                       "S": Namespace("S", {"One": 1})})
        eng.globals.update({"np": pw.make_np(), "sparse": sparse_ns, "sympy": sympy_ns})
        opaque = Builtin("opaque", lambda *a, **k: None)
        env = Env(None, {"fully_diagonalize": fully, "H": HShape(nb), "diagonal": diagonal, "atol": SReal(atol), "operators": STup([]),
                         "hermitian": SB(herm) if not z3.is_true(herm) and not z3.is_false(herm) else z3.is_true(herm),
                         "solve_sylvester": opaque, "use_linear_operator": opaque})
        a, c, k = z3.Ints("a c k")
        d0 = _dim(masked_block)
        eng.assume(z3.And(a >= 0, a < d0, c >= 0, c < d0, k >= 0, k < d0))
        try:
            eng.exec_block(frag, env)
        except PyRaise as pr:
            exc = pr.exc
            eng.oblige("raises-only-ValueError", z3.BoolVal(exc.cls == "ValueError"), detail=f"{exc.cls}")
            eng.oblige("raises-only-for-dict-masks", z3.BoolVal(variant == "dict"))
            # the witness of np.any/np.all is the violating element: the error is justified
            return
        scope = env.lookup("scope")
        cb = eng.as_seq(env.lookup("commuting_blocks")).items
        tb = scope.get("two_block_optimized")
        eng.oblige("flag:two_block_optimized-iff-two-blocks-and-no-mask", z3.BoolVal(bool(tb) == (nb == 2 and variant == "none")),
                   detail="the two-block equations are used only for exactly two blocks without any elimination mask")
        eng.oblige("flag:commuting_blocks-has-one-entry-per-block", z3.BoolVal(len(cb) == nb))
        if variant == "none":
            eng.oblige("no-mask:no-diag-offdiag-closures", z3.BoolVal("diag" not in scope and "offdiag" not in scope))
            eng.oblige("no-mask:all-blocks-commuting", z3.BoolVal(all(x is True for x in cb)))
            return
        to_keep, to_elim = env.lookup("to_keep"), env.lookup("to_eliminate")
        kk, el = to_keep[masked_block], to_elim[masked_block]
        pw.instantiate_any(eng, [[a, c], [c, a], [a, k], [k, c]])
        Ea, Ec = Cx(_Er(masked_block, a)), Cx(_Er(masked_block, c))
        close = pw.AbsVal(Ea - Ec).cmp(ast.LtE(), atol)

        def as_int(v):
            return z3.If(v, 1, 0) if isinstance(v, z3.BoolRef) else v
        kv, ev = as_int(kk.elem([a, c])), as_int(el.elem([a, c]))
        eng.oblige("mask:keep-and-eliminate-are-complementary-0-1", z3.And(z3.Or(kv == 0, kv == 1), ev == 1 - kv))
        if variant == "tuple":
            eng.oblige("mask:kept-iff-energies-within-atol", (kv == 1) == (close if not canary else pw.AbsVal(Ea - Ec).cmp(ast.Lt(), atol)),
                       detail="fully_diagonalize given by block index keeps exactly the pairs with |E_a - E_c| <= atol")
        else:
            eng.oblige("mask:eliminate-is-the-user-mask", (ev == 1) == _mask(masked_block, a, c))
        eng.oblige("mask:eliminated-implies-solver-divides", z3.Implies(ev == 1, z3.Not(close)),
                   detail="an element selected for elimination has |E_a - E_c| > atol, so solve_sylvester_diagonal divides there (C20)")
        eng.oblige("mask:diagonal-entries-kept", z3.Implies(a == c, kv == 1),
                       detail="a diagonal entry is never selected for elimination (hypothesis cls_diag of the Lean matrix model)")
        (eng.oblige_nra if variant == "tuple" else eng.oblige)("mask:symmetric-in-hermitian-mode", z3.Implies(herm, kv == as_int(kk.elem([c, a]))),
                       detail="the kept pattern is symmetric (required by T-adj); asymmetric user masks raise ValueError in Hermitian mode")
        # commuting flag
        if variant == "dict":
            eng.oblige("flag:masked-block-not-commuting", z3.BoolVal(cb[masked_block] is False))
        else:
            flag = cb[masked_block]
            fl = flag.e if isinstance(flag, SB) else z3.BoolVal(bool(flag))
            tv = (lambda v: v if isinstance(v, z3.BoolRef) else v != 0)
            trans = z3.Implies(z3.And(tv(kk.elem([a, k])), tv(kk.elem([k, c]))), tv(kk.elem([a, c])))
            pw.instantiate_any(eng, [[a, c, k]])   # instance of the np.any fact for the triple (a, k, c)
            eng.oblige("flag:commuting-implies-kept-pattern-transitive", z3.Implies(fl, trans),
                       detail="commuting_blocks[i] is set only if kept x kept stays kept, so kept x eliminated has no kept element (Lean: comm_left/right)")
        for b in range(nb):
            if b != masked_block:
                eng.oblige(f"flag:unmasked-block-{b}-commuting", z3.BoolVal(cb[b] is True))
        # closures
        diag, offdiag = scope.get("diag"), scope.get("offdiag")
        eng.oblige("closures-installed", z3.BoolVal(isinstance(diag, Closure) and isinstance(offdiag, Closure)))
        if not (isinstance(diag, Closure) and isinstance(offdiag, Closure)):
            return
        X = Cx(_Xr(a, c), _Xi(a, c))
        kval = Cx(z3.ToReal(kv))
        evalc = Cx(z3.ToReal(ev))
        idx = STup([masked_block, masked_block, 1])
        xd = PArr([d0, d0], lambda i: Cx(_Xr(i[0], i[1]), _Xi(i[0], i[1])), "num", False, "x")
        rd, ro = eng.call(diag, [xd, idx], {}), eng.call(offdiag, [xd, idx], {})
        ok = isinstance(rd, PArr) and isinstance(ro, PArr)
        eng.oblige("dense:closures-return-arrays", z3.BoolVal(ok))
        if ok:
            eng.oblige_nra("dense:diag-multiplies-by-keep-mask", Cx.of(rd.elem([a, c])).eq(X * kval))
            eng.oblige_nra("dense:offdiag-multiplies-by-eliminate-mask", Cx.of(ro.elem([a, c])).eq(X * evalc))
            eng.oblige_nra("dense:diag+offdiag=identity", (Cx.of(rd.elem([a, c])) + Cx.of(ro.elem([a, c]))).eq(X))
        xs = PSparse([d0, d0], lambda i: _Xst(i[0], i[1]), lambda i: Cx(_Xr(i[0], i[1]), _Xi(i[0], i[1])), "x")
        rd, ro = eng.call(diag, [xs, idx], {}), eng.call(offdiag, [xs, idx], {})
        ok = isinstance(rd, PSparse) and isinstance(ro, PSparse)
        eng.oblige("sparse:closures-return-sparse", z3.BoolVal(ok))
        if ok:
            xs_ac = xs.dense_at([a, c])
            eng.oblige_nra("sparse:diag-denotes-x-times-keep-mask", rd.dense_at([a, c]).eq(xs_ac * kval),
                           detail="every stored element is multiplied by the keep mask; nothing outside the mask survives, nothing inside is dropped")
            eng.oblige_nra("sparse:offdiag-denotes-x-times-eliminate-mask", ro.dense_at([a, c]).eq(xs_ac * evalc))
        # series argument is indexed first
        ser = SSeries("Hser", nb, nb, 1)
        got = []
        ser.hooks["on_read"] = lambda e, s, i, j, vec: got.append((i, j))
        try:
            r1 = eng.call(diag, [ser, idx], {})
        except Unsupported:
            r1 = None
        eng.oblige("series-argument:diag-indexes-the-series-at-the-index", z3.BoolVal(len(got) == 1 and got[0] == (masked_block, masked_block)))
        # blocks without a mask
        if nb > 1:
            other = 1 if masked_block == 0 else 0
            idx2 = STup([other, other, 1])
            r = eng.call(diag, [xd, idx2], {})
            eng.oblige("unmasked-block:diag-is-identity", z3.BoolVal(r is xd))
            r = eng.call(offdiag, [xd, idx2], {})
            eng.oblige("unmasked-block:offdiag-is-zero", z3.BoolVal(r is ZERO))

    return harness


def unit_masks(variant, nb=2, hermitian=None, timeout_ms=20000, canary=False):
    nm = f"block_diagonalization:block_diagonalize/masks[{variant},blocks={nb},hermitian={hermitian}]" + ("[canary]" if canary else "")
    r = run_unit(nm, make_harness(variant, nb, hermitian, canary=canary), functions=[(MODULE, "block_diagonalize")], timeout_ms=timeout_ms)
    r.bounded.append(f"number of blocks = {nb} and the masked block is block 0 (block sizes, energies, masks, tolerance symbolic)")
    r.notes.append("extraction: the slice of block_diagonalize from the commuting_blocks statement to the end of the `if not fully_diagonalize` statement")
    return r


# ---- operator-valued masks (second-quantized Hamiltonians) -------------------------------------------

def unit_masks_operators(variant, hermitian=True, n=2, nterms=2, timeout_ms=20000):
    """The `else:` branch (H_0 contains operators) of the `if not fully_diagonalize: ... elif not operators: ... else:` statement of block_diagonalize.
    variant: 'dict' (masks given as matrices of operator expressions) | 'tuple' (blocks given by index).
      dict:  every value is converted entry-wise to number-ordered form once; ValueError - and nothing else - is raised exactly when (Hermitian mode and some
             entry (i, j), i >= j, whose adjoint differs from entry (j, i)) or (some DIAGONAL entry has a term all of whose powers vanish: a number-conserving term
             couples a level to itself); otherwise  diag(x, index) = apply_mask_to_operator(x, mask[index[0]], keep=False)  and
             offdiag(x, index) = apply_mask_to_operator(x, mask[index[0]], keep=True)  with the SAME converted mask object;
      tuple: the mask of a listed block is the 0/1 matrix of equal unperturbed energies (equal_eigs) in number-ordered form; diag keeps it (keep=True), offdiag
             is its complement (keep=False).
      both:  a BlockSeries argument is indexed first; the zero sentinel stays the sentinel; a block without a mask is kept whole by diag and gives zero in offdiag."""
    from contracts.formats import T

    def harness(eng):
        frag = fragment()[-1]
        assert isinstance(frag, ast.If) and ast.unparse(frag.test) == "not fully_diagonalize"

        class Tok(T):
            METHODS = T.METHODS | {"astype", "applyfunc"}

        calls = {"from_expr": 0, "apply": []}
        masked, other = 0, 1
        sym = {(i, j): eng.fresh(f"adjoint_of_{i}{j}_is_{j}{i}", "bool") for i in range(n) for j in range(i + 1)}
        pw_ = {(i, t, m): eng.fresh(f"power_{i}_{t}_{m}") for i in range(n) for t in range(nterms) for m in range(2)}
        for v in pw_.values():
            eng.assume(v >= 0)
        has_terms = {i: (eng.branch(eng.fresh(f"diagonal_entry_{i}_is_an_operator_expression", "bool")) if i == 0 else True) for i in range(n)}

        class Adj(Model):
            def __init__(s, i, j):
                s.i, s.j = i, j

            def m_binop(s, e, op, othr, reflected):
                if isinstance(op, ast.Eq) and isinstance(othr, Ent) and (othr.i, othr.j) == (s.j, s.i) and (s.i, s.j) in sym:
                    return SB(sym[(s.i, s.j)])
                raise Unsupported("comparison of mask entries other than adjoint(i, j) with (j, i), i >= j")

        class Ent(Model):
            def __init__(s, i, j, converted):
                s.i, s.j, s.converted = i, j, converted

            def m_getattr(s, e, name):
                if not s.converted:
                    raise Unsupported("attribute of a mask entry before its conversion to number-ordered form")
                if name == "adjoint":
                    return Builtin("adjoint", lambda e_: Adj(s.i, s.j))
                if name == "terms":
                    if s.i != s.j:
                        raise Unsupported("terms of an off-diagonal mask entry")
                    return STup([STup([SI(pw_[(s.i, t, m)]) for m in range(2)]) for t in range(nterms)])
                raise Unsupported(f"mask entry .{name}")

        class MaskMat(Model):
            def __init__(s, converted=False, is_array=False):
                s.converted, s.is_array = converted, is_array
                s.entries = {}

            def m_getattr(s, e, name):
                if name == "applyfunc" and not s.is_array:
                    def applyfunc(e_, f):
                        calls["from_expr"] += 1
                        if f is not FROM_EXPR:
                            raise Unsupported("applyfunc of another function")
                        return MaskMat(True, False)
                    return Builtin("applyfunc", applyfunc)
                if name == "shape":
                    return STup([n, n])
                raise Unsupported(f"mask.{name}")

            def m_getitem(s, e, key):
                if not s.is_array:
                    raise Unsupported("indexing the sympy matrix (the code indexes the numpy copy)")
                k = e.as_seq(key).items
                if not all(isinstance(q, int) for q in k) or len(k) != 2:
                    raise Unsupported("mask index")
                return s.entries.setdefault(tuple(k), Ent(k[0], k[1], s.converted))

        FROM_EXPR = Builtin("NumberOrderedForm.from_expr", lambda e, x: x)
        user_mask = MaskMat()
        arrays = []

        def np_array(e, x):
            if isinstance(x, MaskMat):
                a = MaskMat(x.converted, True)
                arrays.append(a)
                return a
            a = Tok("np.array", x)
            arrays.append(a)
            return a

        def getattr_(e, obj, name, default=None):
            if isinstance(obj, Ent) and name == "terms" and not has_terms[obj.i]:
                return default        # e.g. sympy's Zero: not an operator expression
            return e.getattr(obj, name)

        class IntPower(Model):
            """sympify of an integer power: is_zero is decided (True / False) - the powers of the model are integers; symbolic powers of unknown sign are left to the battery"""
            def __init__(s, v):
                s.v = v

            def m_getattr(s, e, name):
                if name == "is_zero":
                    return bool(e.branch(zi(s.v) == 0))
                raise Unsupported(f"power.{name}")

            def m_truth(s, e):
                return bool(e.branch(zi(s.v) != 0))

        def sympify(e, x):
            if isinstance(x, (int, SI)) and not isinstance(x, bool):
                return IntPower(x)
            return x

        def apply_mask(e, x, mask, keep=None):
            calls["apply"].append((x, mask, keep))
            return Tok("masked", x)
        eng.globals.update({
            "np": Namespace("np", {"array": Builtin("np.array", np_array)}),
            "sympy": Namespace("sympy", {"sympify": Builtin("sympify", sympify), "Matrix": Builtin("sympy.Matrix", lambda e, x: Tok("sympy.Matrix", x))}),
            "NumberOrderedForm": Namespace("NumberOrderedForm", {"from_expr": FROM_EXPR}),
            "second_quantization": Namespace("second_quantization", {"apply_mask_to_operator": Builtin("apply_mask_to_operator", apply_mask)}),
            "getattr": Builtin("getattr", getattr_), "BlockSeries": TypeObj("BlockSeries"), "zero": ZERO,
        })
        EQ = Tok("equal_eigs[0]")
        fully = {masked: user_mask} if variant == "dict" else STup([masked])
        scope = {}
        env = Env(None, {"fully_diagonalize": fully, "operators": STup([Tok("a")], None, True), "hermitian": hermitian, "equal_eigs": {masked: EQ}, "scope": scope})
        not_sym = z3.Or(*[z3.Not(v) for v in sym.values()])
        conserving = z3.Or(*[z3.And(*[pw_[(i, t, m)] == 0 for m in range(2)]) for i in range(n) if has_terms[i] for t in range(nterms)]) if nterms else z3.BoolVal(False)
        must_raise = z3.Or(z3.And(z3.BoolVal(bool(hermitian)), not_sym), conserving) if variant == "dict" else z3.BoolVal(False)
        try:
            eng.exec_block([frag], env)
        except PyRaise as pr:
            eng.oblige("raises-only-ValueError", z3.BoolVal(pr.exc.cls == "ValueError"), detail=pr.exc.cls)
            eng.oblige("mask-rejected-only-if-asymmetric-in-Hermitian-mode-or-selecting-a-number-conserving-diagonal-term", must_raise)
            return
        eng.oblige("asymmetric-mask-(Hermitian-mode)-or-number-conserving-diagonal-term-is-rejected", z3.Not(must_raise),
                   detail="a number-conserving term of a diagonal entry couples a level to itself (equal unperturbed energy) and cannot be eliminated (C20)")
        diag, offdiag = scope.get("diag"), scope.get("offdiag")
        ok = isinstance(diag, Closure) and isinstance(offdiag, Closure)
        eng.oblige("closures-installed", z3.BoolVal(ok))
        if not ok:
            return
        if variant == "dict":
            eng.oblige("dict:mask-converted-to-number-ordered-form-exactly-once", z3.BoolVal(calls["from_expr"] == 1 and len(arrays) == 1 and arrays[0].converted))
        else:
            a0 = arrays[0] if arrays else None
            want = "np.array(.applyfunc(sympy.Matrix(.astype(equal_eigs[0], int)), NumberOrderedForm.from_expr))"
            eng.oblige("tuple:mask-is-the-equal-energy-pattern-in-number-ordered-form", z3.BoolVal(len(arrays) == 1 and _shape_of(a0) == want), detail=f"{_shape_of(a0)}")
        mask = arrays[0] if arrays else None
        X = Tok("x")
        idx = STup([masked, masked, 1])
        keep_diag = (variant == "tuple")
        for fn_, nm, keep in ((diag, "diag", keep_diag), (offdiag, "offdiag", not keep_diag)):
            del calls["apply"][:]
            r = eng.call(fn_, [X, idx], {})
            c = calls["apply"]
            eng.oblige(f"{nm}:applies-the-block's-mask-with-keep={keep}", z3.BoolVal(len(c) == 1 and c[0][0] is X and c[0][1] is mask and c[0][2] is keep
                                                                                      and isinstance(r, Tok) and r.head == "masked"),
                       detail=f"calls: {[(repr(a), type(b).__name__, k) for a, b, k in c]}")
            del calls["apply"][:]
            r = eng.call(fn_, [ZERO, idx], {})
            eng.oblige(f"{nm}:zero-sentinel-stays-zero", z3.BoolVal(r is ZERO and not calls["apply"]))
            ser = SSeries("Hser", 2, 2, 1)
            got = []
            ser.hooks["on_read"] = lambda e, s, i, j, vec: got.append((i, j))
            try:
                eng.call(fn_, [ser, idx], {})
            except Unsupported:
                pass
            eng.oblige(f"{nm}:series-argument-indexed-at-the-index", z3.BoolVal(len(got) == 1 and got[0] == (masked, masked)))
            del calls["apply"][:]
            r = eng.call(fn_, [X, STup([other, other, 1])], {})
            if nm == "diag":
                eng.oblige("unmasked-block:diag-is-identity", z3.BoolVal(r is X and not calls["apply"]))
            else:
                eng.oblige("unmasked-block:offdiag-is-zero", z3.BoolVal(r is ZERO and not calls["apply"]))

    def _shape_of(t):
        from contracts.formats import T as _T
        if isinstance(t, _T):
            h = t.head
            if t.args:
                return f"{h}({', '.join(_shape_of(a) for a in t.args)})"
            return h
        if isinstance(t, Builtin):
            return t.name
        if isinstance(t, TypeObj):
            return t.name
        return repr(t)

    nm = f"block_diagonalization:block_diagonalize/masks[operators,{variant},hermitian={hermitian}]"
    r = run_unit(nm, harness, functions=[(MODULE, "block_diagonalize")], timeout_ms=timeout_ms)
    r.bounded.append(f"mask of block 0 is {n}x{n}, every diagonal entry has {nterms} terms over 2 modes (powers symbolic); symmetry of each entry pair symbolic")
    r.notes.append("extraction: the `if not fully_diagonalize: ... elif not operators: ... else:` statement of block_diagonalize, executed with a non-empty operator list")
    return r
