"""Contracts for the direct implicit-mode solver block_diagonalization.solve_sylvester_direct (C06, C16).

grouped_greens_functions: for every explicit subspace b, every group G returned by _group_close_energies and every member i of G,
    grouped[i] is the Green's function built by direct_greens_function for the energy of the first member of G with the columns G of the
    (conjugated, for the transposed operator) kernel bases of that subspace - i.e. level i is solved at (a representative of) its own energy
    with its own degenerate partners projected out; nothing else is written.
solve_sylvester: which branch serves which block pair; the right-implicit branch solves row k of Y @ P with the k-th Green's function of
    block index[0] and projects the result again (P = complement projector, C17); the left-implicit branch does the same column-wise
    with a minus sign and is available only with nonhermitian=True.
Callee contracts used: _group_close_energies returns a partition of the level indices into chains of close energies, never separating two levels
within atol (contracts/grouping.py); direct_greens_function solves (E - H) x = P_kernel v (contracts/linalg_direct.py + PV.Direct.greens_solves).
"""
from __future__ import annotations

import ast

import z3

from pyvc import frontend
from pyvc.core import Closure, Env, STup, SI, SB, SExc, Model, Builtin, Namespace, TypeObj, PyRaise, Unsupported, SymList, SSlice, zi, _Cont, _Brk
from pyvc.models import ZERO
from pyvc.unit import run_unit
from contracts.formats import T, term_eq

MODULE = "block_diagonalization"


def unit_grouped_greens_functions(nsub, conjugate, timeout_ms=20000):
    node = frontend.find(MODULE, "solve_sylvester_direct/grouped_greens_functions")

    def harness(eng):
        dims = [eng.fresh(f"levels_{b}") for b in range(nsub)]
        for d in dims:
            eng.assume(d >= 0)
        member = z3.Function("member", z3.IntSort(), z3.IntSort(), z3.IntSort(), z3.BoolSort())   # (subspace, group id, level)
        log = []

        class Eigs(T):
            def __init__(s, b):
                super().__init__(f"eigenvalues[{b}]")
                s.b = b

            def m_len(s, e):
                return SI(dims[s.b])

            def m_getitem(s, e, key):
                return T("energy", s.b, key if isinstance(key, (int, SI)) else key)

        class Basis(T):
            def m_getitem(s, e, key):
                k = e.as_seq(key)
                return T("cols", s, *k.items)

        class Group(Model):
            def __init__(s, b, gid):
                s.b, s.gid = b, gid
                s.first = eng.fresh(f"first_of_group_{b}")
                eng.assume(z3.And(s.first >= 0, s.first < dims[b], member(b, gid, s.first)))

            def m_getitem(s, e, key):
                if isinstance(key, int) and key == 0:
                    return SI(s.first)
                if isinstance(key, int):
                    x = e.fresh("some_member")     # any position of a non-empty group holds a member
                    e.assume(z3.And(x >= 0, x < dims[s.b], member(s.b, s.gid, x)))
                    return SI(x)
                raise Unsupported("group[k] with symbolic k")

            def m_for(s, e, stmt, env):
                i = e.fresh("member_level")
                e.assume(z3.And(i >= 0, i < dims[s.b], member(s.b, s.gid, i)))
                cur = log[-1]
                w0 = len(cur["list"].writes) if isinstance(cur["list"], SymList) else None
                e.assign(stmt.target, SI(i), env)
                try:
                    e.exec_block(stmt.body, env)
                except (_Cont, _Brk):
                    raise Unsupported("continue / break in member loop")
                lst = cur["list"]
                ok = isinstance(lst, SymList) and w0 is not None and len(lst.writes) == w0 + 1
                e.oblige("member:exactly-one-indexed-store-per-level-of-the-group", z3.BoolVal(ok), detail="grouped[i] = greens_function for the member i")
                if ok:
                    k, v = lst.writes[-1]
                    e.oblige("member:stored-at-the-levels-own-position", k == i, detail="the Green's function of level i is stored at position i of the per-level list")
                    e.oblige("member:stored-value-is-the-groups-greens-function", z3.BoolVal(v is cur.get("gf")), detail=repr(v)[:200])

        class Groups(Model):
            def __init__(s, b):
                s.b = b

            def m_for(s, e, stmt, env):
                g = Group(s.b, e.fresh("group_id"))
                cur = log[-1]
                cur["group"] = g
                cur["list"] = env.lookup("grouped") if env.has("grouped") else None
                e.assign(stmt.target, g, env)
                n0 = len(calls)
                try:
                    e.exec_block(stmt.body, env)
                except (_Cont, _Brk):
                    raise Unsupported("continue / break in group loop")
                e.oblige("group:one-factorisation-per-group", z3.BoolVal(len(calls) == n0 + 1))
        calls = []

        def dgf(e, operator, energy, kernel_vectors=None, left_kernel_vectors=None, **opts):
            rec = T("greens_function", operator, energy, kernel_vectors, left_kernel_vectors, T("options", *[T(k) for k in sorted(opts)]))
            calls.append(rec)
            cur = log[-1]
            cur["gf"] = rec
            g = cur["group"]
            b = cur["b"]
            e.oblige("gf:operator-is-the-one-passed-in", z3.BoolVal(operator is op))
            oke = isinstance(energy, T) and energy.head == "energy" and energy.args[0] == b and isinstance(energy.args[1], (int, SI))
            e.oblige("gf:energy-is-that-of-a-member-of-the-group", member(b, g.gid, zi(energy.args[1])) if oke else z3.BoolVal(False),
                     detail=f"got {energy!r}; want the energy of a level of the group")

            def want_k(basis):
                w = T("cols", basis, SSL, g)
                return T(".conj", w) if conjugate else w
            okr = _cols_eq(kernel_vectors, rights[b], g, conjugate)
            okl = _cols_eq(left_kernel_vectors, lefts[b], g, conjugate)
            e.oblige("gf:kernel-vectors-are-the-groups-columns-of-this-subspace", z3.BoolVal(okr and okl),
                     detail=f"right {kernel_vectors!r} left {left_kernel_vectors!r}")
            e.oblige("gf:factorisation-options-forwarded", z3.BoolVal(sorted(opts) == ["mumps_option"]))
            return rec

        def _cols_eq(v, basis, g, conj):
            if conj:
                if not (isinstance(v, T) and v.head == ".conj" and len(v.args) == 1):
                    return False
                v = v.args[0]
            return isinstance(v, T) and v.head == "cols" and v.args[0] is basis and len(v.args) == 3 and isinstance(v.args[1], SSlice) \
                and v.args[1].lo is None and v.args[1].hi is None and v.args[2] is g
        SSL = None
        op = T("operator")
        eigs = [Eigs(b) for b in range(nsub)]
        rights = [Basis(f"right_kernel[{b}]") for b in range(nsub)]
        lefts = [Basis(f"left_kernel[{b}]") for b in range(nsub)]

        def gce(e, energies, atol):
            e.oblige("groups-computed-from-this-subspaces-eigenvalues-with-eigenvalue_atol", z3.BoolVal(energies is eigs[log[-1]["b"]] and atol is ATOL))
            return Groups(log[-1]["b"])
        ATOL = T("eigenvalue_atol")

        class ZipSub(Model):
            def m_for(s, e, stmt, env):
                for b in range(nsub):
                    log.append({"b": b})
                    e.assign(stmt.target, STup([eigs[b], rights[b], lefts[b]]), env)
                    e.exec_block(stmt.body, env)
        env = Env(None, {"eigenvalues": STup(list(eigs), None, True), "eigenvalue_atol": ATOL, "factorization_options": {"mumps_option": T("v")},
                         "_group_close_energies": Builtin("_group_close_energies", gce), "direct_greens_function": Builtin("direct_greens_function", dgf),
                         "zip": Builtin("zip", lambda e, *a, strict=False: ZipSub())})
        res = eng.call(Closure(node, env, "grouped_greens_functions"), [op, STup(list(rights)), STup(list(lefts)), conjugate], {})
        r = eng.as_seq(res)
        ok = r.tail is None and len(r.items) == nsub and all(isinstance(x, SymList) for x in r.items) and len(set(map(id, r.items))) == nsub
        eng.oblige("one-per-level-list-per-explicit-subspace-in-order", z3.BoolVal(ok), detail=repr(res)[:200])
        if ok:
            for b in range(nsub):
                eng.oblige(f"subspace{b}:list-has-one-slot-per-level", r.items[b].n == dims[b])
                eng.oblige(f"subspace{b}:list-is-the-one-filled-for-this-subspace", z3.BoolVal(log[b].get("list") is r.items[b]))
    return run_unit(f"block_diagonalization:solve_sylvester_direct/grouped_greens_functions[{nsub} subspaces{',conjugate' if conjugate else ''}]", harness,
                    functions=[(MODULE, "solve_sylvester_direct/grouped_greens_functions")], timeout_ms=timeout_ms)


class Family(Model):
    """[f(k) for k-th pair in zip(list of Green's functions, rows of a matrix)]: an indexed family with a generic element."""

    def __init__(self, elt):
        self.elt = elt


def unit_direct_solve(nsub, nonhermitian, timeout_ms=20000):
    """solve_sylvester_direct/solve_sylvester: branch selection and the row-wise (column-wise) use of the per-level Green's functions."""
    node = frontend.find(MODULE, "solve_sylvester_direct/solve_sylvester")

    def harness(eng):
        i, j = z3.Ints("i j")
        eng.assume(z3.And(i >= 0, i <= nsub, j >= 0, j <= nsub))
        eng.assume(z3.Not(z3.And(i == nsub, j == nsub)))    # the implicit diagonal block is never the subject of a Sylvester equation
        Y = T("Y")
        P = T("projector")
        y_zero = eng.fresh("Y_is_zero_sentinel", "bool")
        explicit_calls = []

        class GFs(Model):
            def __init__(s, side):
                s.side = side

            def m_getitem(s, e, key):
                return T("greens_functions", T(s.side), key)

        class Rows(T):
            pass

        class ZipFam(Model):
            def __init__(s, gfs, rows):
                s.gfs, s.rows = gfs, rows

            def m_comprehension(s, e, ce, g, env):
                k = T("k")
                cenv = Env(env)
                cenv.is_comprehension = True
                gf = T("item", s.gfs, k)

                class GF(T):
                    def m_call(s2, e2, args, kwargs):
                        return T("apply", gf, *args)
                e.assign(g.target, STup([GF("gf"), T("item", s.rows, k)]), cenv)
                if g.ifs:
                    raise Unsupported("filtered family")
                return Family(e.eval(ce.elt, cenv))

        def explicit_part(e, y, index):
            explicit_calls.append((y, index))
            return T("explicit", y)
        env = Env(None, {"eigenvalues": STup([T(f"ev{b}") for b in range(nsub)], None, True), "explicit_part": Builtin("explicit_part", explicit_part),
                         "projector": P, "greens_functions_right": GFs("right"), "greens_functions_left": GFs("left") if nonhermitian else None})
        eng.globals.update({"zero": ZERO, "zip": Builtin("zip", lambda e, a, b: ZipFam(a, b)),
                            "np": Namespace("np", {"vstack": Builtin("vstack", lambda e, f: T("vstack", f.elt) if isinstance(f, Family) else T("vstack?", f)),
                                                   "column_stack": Builtin("column_stack", lambda e, f: T("column_stack", f.elt) if isinstance(f, Family) else T("column_stack?", f))})})
        yarg = ZERO if eng.branch(y_zero) else Y
        index = STup([SI(i), SI(j), SI(eng.fresh("order"))])
        try:
            res = eng.call(Closure(node, env, "solve_sylvester"), [yarg, index], {})
        except PyRaise as pr:
            eng.oblige("raises-only-NotImplementedError-for-a-left-implicit-solve-without-nonhermitian", z3.And(z3.BoolVal(pr.exc.cls == "NotImplementedError" and not nonhermitian), i == nsub),
                       detail=pr.exc.cls)
            return
        if yarg is ZERO:
            return eng.oblige("zero-rhs-gives-zero", z3.BoolVal(res is ZERO and not explicit_calls))
        if eng.branch(z3.And(i < nsub, j < nsub)):
            ok = isinstance(res, T) and res.head == "explicit" and len(explicit_calls) == 1 and explicit_calls[0][0] is Y and explicit_calls[0][1] is index
            return eng.oblige("explicit-pair-goes-to-the-diagonal-solver-unchanged", z3.BoolVal(ok), detail=repr(res))
        eng.oblige("implicit-pairs-do-not-use-the-explicit-solver", z3.BoolVal(not explicit_calls))
        if eng.branch(i == nsub):
            eng.oblige("left-implicit-needs-nonhermitian", z3.BoolVal(nonhermitian))
            k = T("k")
            want = T("MatMult", P, T("column_stack", T("USub", T("apply", T("item", T("greens_functions", T("left"), SI(j)), k), T("item", T(".T?", T("MatMult", P, Y)), k)))))
            # accept Y.T of the projected right-hand side
            ok = isinstance(res, T) and res.head == "MatMult" and res.args[0] is P and isinstance(res.args[1], T) and res.args[1].head == "column_stack"
            eng.oblige("left-implicit:result-projected-from-the-left", z3.BoolVal(ok), detail=repr(res)[:300])
            if ok:
                elt = res.args[1].args[0]
                oke = isinstance(elt, T) and elt.head == "USub" and elt.args[0].head == "apply"
                eng.oblige("left-implicit:columns-solved-with-minus-sign", z3.BoolVal(oke), detail=repr(elt)[:300])
                if oke:
                    ap = elt.args[0]
                    gf, vec = ap.args[0], ap.args[1]
                    eng.oblige("left-implicit:k-th-column-uses-the-k-th-greens-function-of-the-column-block",
                               term_eq(eng, gf, T("item", T("greens_functions", T("left"), SI(j)), k)), detail=repr(gf))
                    okv = isinstance(vec, T) and vec.head == "item" and vec.args[1].head == "k" and isinstance(vec.args[0], T) and vec.args[0].head == "attr:T" \
                        and term_eq_py(vec.args[0].args[0], T("MatMult", P, Y))
                    eng.oblige("left-implicit:columns-are-those-of-the-projected-rhs", z3.BoolVal(okv), detail=repr(vec)[:300])
            return
        # right-implicit
        k = T("k")
        ok = isinstance(res, T) and res.head == "MatMult" and res.args[1] is P and isinstance(res.args[0], T) and res.args[0].head == "vstack"
        eng.oblige("right-implicit:result-projected-from-the-right", z3.BoolVal(ok), detail=repr(res)[:300])
        if ok:
            ap = res.args[0].args[0]
            oke = isinstance(ap, T) and ap.head == "apply"
            eng.oblige("right-implicit:rows-solved-by-greens-functions", z3.BoolVal(oke), detail=repr(ap)[:300])
            if oke:
                gf, vec = ap.args[0], ap.args[1]
                eng.oblige("right-implicit:k-th-row-uses-the-k-th-greens-function-of-the-row-block",
                           term_eq(eng, gf, T("item", T("greens_functions", T("right"), SI(i)), k)), detail=repr(gf))
                okv = isinstance(vec, T) and vec.head == "item" and vec.args[1].head == "k" and term_eq_py(vec.args[0], T("MatMult", Y, P))
                eng.oblige("right-implicit:rows-are-those-of-the-projected-rhs", z3.BoolVal(okv), detail=repr(vec)[:300])
    return run_unit(f"block_diagonalization:solve_sylvester_direct/solve_sylvester[{nsub} explicit subspaces{',nonhermitian' if nonhermitian else ''}]", harness,
                    functions=[(MODULE, "solve_sylvester_direct/solve_sylvester")], timeout_ms=timeout_ms)


def term_eq_py(a, b):
    if isinstance(a, T) and isinstance(b, T):
        return a.head == b.head and len(a.args) == len(b.args) and all(term_eq_py(x, y) for x, y in zip(a.args, b.args))
    if isinstance(a, (int, float, complex, str)) and isinstance(b, (int, float, complex, str)):
        return type(a) is type(b) and a == b
    return a is b
