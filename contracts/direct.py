"""Contracts for the direct implicit-mode solver block_diagonalization.solve_sylvester_direct (C06, C16).

grouped_greens_functions: for every explicit subspace b, every group G returned by _group_close_energies and every member i of G,
    grouped[i] is the Green's function built by direct_greens_function for the energy of the first member of G with the columns G of the
    (conjugated, for the transposed operator) kernel bases of that subspace - i.e. level i is solved at (a representative of) its own energy
    with its own degenerate partners projected out; nothing else is written.
solve_sylvester: which branch serves which block pair; the right-implicit branch solves row k of Y @ P with the k-th Green's function of
    block index[0] and projects the result again (P = complement projector, C17); the left-implicit branch does the same column-wise
    with a minus sign and is available only with nonhermitian=True.
Callee contracts used: _group_close_energies returns a partition of the level indices into chains of close energies, never separating two levels
within atol (contracts/grouping.py); direct_greens_function solves (E - H) x = P_kernel v (contracts/linalg_direct.py + PV.Direct.greens_solves).
"""
from __future__ import annotations

import ast

import z3

from pyvc import frontend
from pyvc.core import Closure, Env, STup, SI, SB, SExc, Model, Builtin, Namespace, TypeObj, PyRaise, Unsupported, SymList, SSlice, zi, _Cont, _Brk
from pyvc.models import ZERO
from pyvc.unit import run_unit
from contracts.formats import T, term_eq

MODULE = "block_diagonalization"


def unit_grouped_greens_functions(nsub, conjugate, timeout_ms=20000):
    node = frontend.find(MODULE, "solve_sylvester_direct/grouped_greens_functions")

    def harness(eng):
        dims = [eng.fresh(f"levels_{b}") for b in range(nsub)]
        for d in dims:
            eng.assume(d >= 0)
        member = z3.Function("member", z3.IntSort(), z3.IntSort(), z3.IntSort(), z3.BoolSort())   # (subspace, group id, level)
        log = []

        class Eigs(T):
            def __init__(s, b):
                super().__init__(f"eigenvalues[{b}]")
                s.b = b

            def m_len(s, e):
                return SI(dims[s.b])

            def m_getitem(s, e, key):
                return T("energy", s.b, key if isinstance(key, (int, SI)) else key)

        class Basis(T):
            def m_getitem(s, e, key):
                k = e.as_seq(key)
                return T("cols", s, *k.items)

        class Group(Model):
            def __init__(s, b, gid):
                s.b, s.gid = b, gid
                s.first = eng.fresh(f"first_of_group_{b}")
                eng.assume(z3.And(s.first >= 0, s.first < dims[b], member(b, gid, s.first)))

            def m_getitem(s, e, key):
                if isinstance(key, int) and key == 0:
                    return SI(s.first)
                if isinstance(key, int):
                    x = e.fresh("some_member")     # any position of a non-empty group holds a member
                    e.assume(z3.And(x >= 0, x < dims[s.b], member(s.b, s.gid, x)))
                    return SI(x)
                raise Unsupported("group[k] with symbolic k")

            def m_for(s, e, stmt, env):
                i = e.fresh("member_level")
                e.assume(z3.And(i >= 0, i < dims[s.b], member(s.b, s.gid, i)))
                cur = log[-1]
                w0 = len(cur["list"].writes) if isinstance(cur["list"], SymList) else None
                e.assign(stmt.target, SI(i), env)
                try:
                    e.exec_block(stmt.body, env)
                except (_Cont, _Brk):
                    raise Unsupported("continue / break in member loop")
                lst = cur["list"]
                ok = isinstance(lst, SymList) and w0 is not None and len(lst.writes) == w0 + 1
                e.oblige("member:exactly-one-indexed-store-per-level-of-the-group", z3.BoolVal(ok), detail="grouped[i] = greens_function for the member i")
                if ok:
                    k, v = lst.writes[-1]
                    e.oblige("member:stored-at-the-levels-own-position", k == i, detail="the Green's function of level i is stored at position i of the per-level list")
                    e.oblige("member:stored-value-is-the-groups-greens-function", z3.BoolVal(v is cur.get("gf")), detail=repr(v)[:200])

        class Groups(Model):
            def __init__(s, b):
                s.b = b

            def m_for(s, e, stmt, env):
                g = Group(s.b, e.fresh("group_id"))
                cur = log[-1]
                cur["group"] = g
                cur["list"] = env.lookup("grouped") if env.has("grouped") else None
                e.assign(stmt.target, g, env)
                n0 = len(calls)
                try:
                    e.exec_block(stmt.body, env)
                except (_Cont, _Brk):
                    raise Unsupported("continue / break in group loop")
                e.oblige("group:one-factorisation-per-group", z3.BoolVal(len(calls) == n0 + 1))
        calls = []

        def dgf(e, operator, energy, kernel_vectors=None, left_kernel_vectors=None, **opts):
            rec = T("greens_function", operator, energy, kernel_vectors, left_kernel_vectors, T("options", *[T(k) for k in sorted(opts)]))
            calls.append(rec)
            cur = log[-1]
            cur["gf"] = rec
            g = cur["group"]
            b = cur["b"]
            e.oblige("gf:operator-is-the-one-passed-in", z3.BoolVal(operator is op))
            oke = isinstance(energy, T) and energy.head == "energy" and energy.args[0] == b and isinstance(energy.args[1], (int, SI))
            e.oblige("gf:energy-is-that-of-a-member-of-the-group", member(b, g.gid, zi(energy.args[1])) if oke else z3.BoolVal(False),
                     detail=f"got {energy!r}; want the energy of a level of the group")

            def want_k(basis):
                w = T("cols", basis, SSL, g)
                return T(".conj", w) if conjugate else w
            okr = _cols_eq(kernel_vectors, rights[b], g, conjugate)
            okl = _cols_eq(left_kernel_vectors, lefts[b], g, conjugate)
            e.oblige("gf:kernel-vectors-are-the-groups-columns-of-this-subspace", z3.BoolVal(okr and okl),
                     detail=f"right {kernel_vectors!r} left {left_kernel_vectors!r}")
            e.oblige("gf:factorisation-options-forwarded", z3.BoolVal(sorted(opts) == ["mumps_option"]))
            return rec

        def _cols_eq(v, basis, g, conj):
            if conj:
                if not (isinstance(v, T) and v.head == ".conj" and len(v.args) == 1):
                    return False
                v = v.args[0]
            return isinstance(v, T) and v.head == "cols" and v.args[0] is basis and len(v.args) == 3 and isinstance(v.args[1], SSlice) \
                and v.args[1].lo is None and v.args[1].hi is None and v.args[2] is g
        SSL = None
        op = T("operator")
        eigs = [Eigs(b) for b in range(nsub)]
        rights = [Basis(f"right_kernel[{b}]") for b in range(nsub)]
        lefts = [Basis(f"left_kernel[{b}]") for b in range(nsub)]

        def gce(e, energies, atol):
            e.oblige("groups-computed-from-this-subspaces-eigenvalues-with-eigenvalue_atol", z3.BoolVal(energies is eigs[log[-1]["b"]] and atol is ATOL))
            return Groups(log[-1]["b"])
        ATOL = T("eigenvalue_atol")

        class ZipSub(Model):
            def m_for(s, e, stmt, env):
                for b in range(nsub):
                    log.append({"b": b})
                    e.assign(stmt.target, STup([eigs[b], rights[b], lefts[b]]), env)
                    e.exec_block(stmt.body, env)
        env = Env(None, {"eigenvalues": STup(list(eigs), None, True), "eigenvalue_atol": ATOL, "factorization_options": {"mumps_option": T("v")},
                         "_group_close_energies": Builtin("_group_close_energies", gce), "direct_greens_function": Builtin("direct_greens_function", dgf),
                         "zip": Builtin("zip", lambda e, *a, strict=False: ZipSub())})
        res = eng.call(Closure(node, env, "grouped_greens_functions"), [op, STup(list(rights)), STup(list(lefts)), conjugate], {})
        r = eng.as_seq(res)
        ok = r.tail is None and len(r.items) == nsub and all(isinstance(x, SymList) for x in r.items) and len(set(map(id, r.items))) == nsub
        eng.oblige("one-per-level-list-per-explicit-subspace-in-order", z3.BoolVal(ok), detail=repr(res)[:200])
        if ok:
            for b in range(nsub):
                eng.oblige(f"subspace{b}:list-has-one-slot-per-level", r.items[b].n == dims[b])
                eng.oblige(f"subspace{b}:list-is-the-one-filled-for-this-subspace", z3.BoolVal(log[b].get("list") is r.items[b]))
    return run_unit(f"block_diagonalization:solve_sylvester_direct/grouped_greens_functions[{nsub} subspaces{',conjugate' if conjugate else ''}]", harness,
                    functions=[(MODULE, "solve_sylvester_direct/grouped_greens_functions")], timeout_ms=timeout_ms)


class Family(Model):
    """[f(k) for k-th pair in zip(list of Green's functions, rows of a matrix)]: an indexed family with a generic element."""

    def __init__(self, elt):
        self.elt = elt


def unit_direct_solve(nsub, nonhermitian, timeout_ms=20000):
    """solve_sylvester_direct/solve_sylvester: branch selection and the row-wise (column-wise) use of the per-level Green's functions."""
    node = frontend.find(MODULE, "solve_sylvester_direct/solve_sylvester")

    def harness(eng):
        i, j = z3.Ints("i j")
        eng.assume(z3.And(i >= 0, i <= nsub, j >= 0, j <= nsub))
        both_implicit = z3.And(i == nsub, j == nsub)        # requested by the non-Hermitian algorithm for fully diagonalized problems; nothing is eliminated there
        Y = T("Y")
        P = T("projector")
        y_zero = eng.fresh("Y_is_zero_sentinel", "bool")
        explicit_calls = []

        class GFs(Model):
            def __init__(s, side):
                s.side = side

            def m_getitem(s, e, key):
                return T("greens_functions", T(s.side), key)

        class Rows(T):
            pass

        class ZipFam(Model):
            def __init__(s, gfs, rows):
                s.gfs, s.rows = gfs, rows

            def m_comprehension(s, e, ce, g, env):
                k = T("k")
                cenv = Env(env)
                cenv.is_comprehension = True
                gf = T("item", s.gfs, k)

                class GF(T):
                    def m_call(s2, e2, args, kwargs):
                        return T("apply", gf, *args)
                e.assign(g.target, STup([GF("gf"), T("item", s.rows, k)]), cenv)
                if g.ifs:
                    raise Unsupported("filtered family")
                return Family(e.eval(ce.elt, cenv))

        def explicit_part(e, y, index):
            explicit_calls.append((y, index))
            return T("explicit", y)
        env = Env(None, {"eigenvalues": STup([T(f"ev{b}") for b in range(nsub)], None, True), "explicit_part": Builtin("explicit_part", explicit_part),
                         "projector": P, "greens_functions_right": GFs("right"), "greens_functions_left": GFs("left") if nonhermitian else None})
        eng.globals.update({"zero": ZERO, "zip": Builtin("zip", lambda e, a, b: ZipFam(a, b)),
                            "np": Namespace("np", {"vstack": Builtin("vstack", lambda e, f: T("vstack", f.elt) if isinstance(f, Family) else T("vstack?", f)),
                                                   "column_stack": Builtin("column_stack", lambda e, f: T("column_stack", f.elt) if isinstance(f, Family) else T("column_stack?", f))})})
        yarg = ZERO if eng.branch(y_zero) else Y
        index = STup([SI(i), SI(j), SI(eng.fresh("order"))])
        try:
            res = eng.call(Closure(node, env, "solve_sylvester"), [yarg, index], {})
        except PyRaise as pr:
            eng.oblige("raises-only-NotImplementedError-for-a-left-implicit-solve-without-nonhermitian", z3.And(z3.BoolVal(pr.exc.cls == "NotImplementedError" and not nonhermitian), i == nsub, j != nsub),
                       detail=pr.exc.cls)
            return
        if yarg is ZERO:
            return eng.oblige("zero-rhs-gives-zero", z3.BoolVal(res is ZERO and not explicit_calls))
        if eng.branch(both_implicit):
            return eng.oblige("implicit-diagonal-block:nothing-to-eliminate-answers-zero", z3.BoolVal(res is ZERO and not explicit_calls), detail=repr(res)[:200])
        if eng.branch(z3.And(i < nsub, j < nsub)):
            ok = isinstance(res, T) and res.head == "explicit" and len(explicit_calls) == 1 and explicit_calls[0][0] is Y and explicit_calls[0][1] is index
            return eng.oblige("explicit-pair-goes-to-the-diagonal-solver-unchanged", z3.BoolVal(ok), detail=repr(res))
        eng.oblige("implicit-pairs-do-not-use-the-explicit-solver", z3.BoolVal(not explicit_calls))
        if eng.branch(i == nsub):
            eng.oblige("left-implicit-needs-nonhermitian", z3.BoolVal(nonhermitian))
            k = T("k")
            want = T("MatMult", P, T("column_stack", T("USub", T("apply", T("item", T("greens_functions", T("left"), SI(j)), k), T("item", T(".T?", T("MatMult", P, Y)), k)))))
            # accept Y.T of the projected right-hand side
            ok = isinstance(res, T) and res.head == "MatMult" and res.args[0] is P and isinstance(res.args[1], T) and res.args[1].head == "column_stack"
            eng.oblige("left-implicit:result-projected-from-the-left", z3.BoolVal(ok), detail=repr(res)[:300])
            if ok:
                elt = res.args[1].args[0]
                oke = isinstance(elt, T) and elt.head == "USub" and elt.args[0].head == "apply"
                eng.oblige("left-implicit:columns-solved-with-minus-sign", z3.BoolVal(oke), detail=repr(elt)[:300])
                if oke:
                    ap = elt.args[0]
                    gf, vec = ap.args[0], ap.args[1]
                    eng.oblige("left-implicit:k-th-column-uses-the-k-th-greens-function-of-the-column-block",
                               term_eq(eng, gf, T("item", T("greens_functions", T("left"), SI(j)), k)), detail=repr(gf))
                    okv = isinstance(vec, T) and vec.head == "item" and vec.args[1].head == "k" and isinstance(vec.args[0], T) and vec.args[0].head == "attr:T" \
                        and term_eq_py(vec.args[0].args[0], T("MatMult", P, Y))
                    eng.oblige("left-implicit:columns-are-those-of-the-projected-rhs", z3.BoolVal(okv), detail=repr(vec)[:300])
            return
        # right-implicit
        k = T("k")
        ok = isinstance(res, T) and res.head == "MatMult" and res.args[1] is P and isinstance(res.args[0], T) and res.args[0].head == "vstack"
        eng.oblige("right-implicit:result-projected-from-the-right", z3.BoolVal(ok), detail=repr(res)[:300])
        if ok:
            ap = res.args[0].args[0]
            oke = isinstance(ap, T) and ap.head == "apply"
            eng.oblige("right-implicit:rows-solved-by-greens-functions", z3.BoolVal(oke), detail=repr(ap)[:300])
            if oke:
                gf, vec = ap.args[0], ap.args[1]
                eng.oblige("right-implicit:k-th-row-uses-the-k-th-greens-function-of-the-row-block",
                           term_eq(eng, gf, T("item", T("greens_functions", T("right"), SI(i)), k)), detail=repr(gf))
                okv = isinstance(vec, T) and vec.head == "item" and vec.args[1].head == "k" and term_eq_py(vec.args[0], T("MatMult", Y, P))
                eng.oblige("right-implicit:rows-are-those-of-the-projected-rhs", z3.BoolVal(okv), detail=repr(vec)[:300])
    return run_unit(f"block_diagonalization:solve_sylvester_direct/solve_sylvester[{nsub} explicit subspaces{',nonhermitian' if nonhermitian else ''}]", harness,
                    functions=[(MODULE, "solve_sylvester_direct/solve_sylvester")], timeout_ms=timeout_ms)


def _look(env, name):
    return env.lookup(name) if env.has(name) else None


def unit_direct_setup(nsub, nonhermitian, opts="none", timeout_ms=20000):
    """The body of solve_sylvester_direct itself (everything outside its nested functions): which quantities the nested functions (each under its own
    contract above) are wired to.  opts: which solver options are supplied - none | eigenvalue_atol | atol (deprecated alias) | eps (deprecated, ignored) | extra."""
    node = frontend.find(MODULE, "solve_sylvester_direct")

    def harness(eng):
        h0 = T("h_0")
        R = [T(f"R{b}") for b in range(nsub)]
        L = [T(f"L{b}") for b in range(nsub)]
        grouped_calls, diag_calls, warns = [], [], []
        tol_user = T("user_tolerance")

        def normalize(e, ev):
            return STup([STup(list(R), None, True), STup(list(L), None, True)])

        def grouped_contract(clo):
            def call(e, operator, right_kernel_subspaces, left_kernel_subspaces, conjugate_kernel=None):
                grouped_calls.append((operator, right_kernel_subspaces, left_kernel_subspaces, conjugate_kernel,
                                      _look(clo.env, "eigenvalues"), _look(clo.env, "eigenvalue_atol"), _look(clo.env, "factorization_options")))
                return T("grouped", T(f"call{len(grouped_calls) - 1}"))
            return Builtin("grouped_greens_functions", call)

        def diag_solver(e, eigs, vecs_implicit=None, atol=None):
            diag_calls.append((eigs, vecs_implicit, atol))
            return T("explicit_part")

        def hstack(e, seq):
            return T("hstack", *e.as_seq(seq).items)

        def warn(e, msg, cat=None, stacklevel=None):
            warns.append((msg, cat))
        eng.nested_contracts = {"grouped_greens_functions": grouped_contract}
        eng.globals.update({"_normalize_subspace_eigenvectors": Builtin("_normalize_subspace_eigenvectors", normalize),
                            "ComplementProjector": Builtin("ComplementProjector", lambda e, a, b=None: T("ComplementProjector", a, b)),
                            "np": Namespace("np", dict({"hstack": Builtin("hstack", hstack), "diag": Builtin("diag", lambda e, x: T("diag", x))},
                                                  # any other element-wise numpy function applied to the energies is a different term: refuted, not unsupported
                                                  **{f: Builtin(f, (lambda f_: lambda e, x, *a, **kw: T("np." + f_, x))(f)) for f in ("real", "imag", "abs", "conj", "asarray", "array", "sort", "round", "real_if_close")})),
                            "Dagger": Builtin("Dagger", lambda e, x: T("Dagger", x)), "solve_sylvester_diagonal": Builtin("solve_sylvester_diagonal", diag_solver),
                            "warn": Builtin("warn", warn), "DeprecationWarning": TypeObj("DeprecationWarning"), "zero": ZERO,
                            "direct_greens_function": T("direct_greens_function"), "_group_close_energies": T("_group_close_energies")})
        kwargs = {"none": {}, "eigenvalue_atol": {"eigenvalue_atol": tol_user}, "atol": {"atol": tol_user}, "eps": {"eps": T("eps")},
                  "extra": {"eigenvalue_atol": tol_user, "ordering": T("ordering_option")}}[opts]
        kwargs = dict(kwargs, nonhermitian=nonhermitian) if (nonhermitian or opts == "extra") else dict(kwargs)
        res = eng.call(Closure(node, Env(None, {}), "solve_sylvester_direct"), [h0, STup([T(f"vecs{b}") for b in range(nsub)], None, True)], kwargs)
        ok = isinstance(res, Closure) and res.name == "solve_sylvester"
        eng.oblige("returns-its-nested-solve_sylvester", z3.BoolVal(ok), detail=repr(res)[:200])
        if not ok:
            return
        env = res.env
        want_eigs = [T("diag", T("MatMult", T("MatMult", T("Dagger", L[b]), h0), R[b])) for b in range(nsub)]

        def eigs_ok(v):
            try:
                items = eng.as_seq(v).items
            except Exception:  # noqa: BLE001
                return False
            return len(items) == nsub and all(term_eq_py(x, w) for x, w in zip(items, want_eigs))
        eng.oblige("energies-are-the-diagonal-of-L^dagger-h_0-R-per-subspace-unmodified", z3.BoolVal(eigs_ok(_look(env, "eigenvalues"))),
                   detail="eigenvalues[b] = np.diag(Dagger(left_b) @ h_0 @ right_b): complex energies of a non-Hermitian h_0 are kept whatever the flag says; " + repr(_look(env, "eigenvalues"))[:300])
        want_P = T("ComplementProjector", T("hstack", *R), T("hstack", *L))
        eng.oblige("projector-is-the-complement-of-all-explicit-vectors-with-their-left-partners", z3.BoolVal(term_eq_py(_look(env, "projector"), want_P)), detail=repr(_look(env, "projector"))[:300])
        tol_want = tol_user if opts in ("eigenvalue_atol", "atol", "extra") else None

        def tol_ok(v):
            if tol_want is None:
                return isinstance(v, float) and v == 1e-12
            return v is tol_want
        eng.oblige("explicit-pairs-are-solved-by-the-diagonal-solver-with-the-same-energies-and-tolerance",
                   z3.BoolVal(len(diag_calls) == 1 and eigs_ok(diag_calls[0][0]) and diag_calls[0][1] is None and tol_ok(diag_calls[0][2]) and term_eq_py(_look(env, "explicit_part"), T("explicit_part"))),
                   detail=repr(diag_calls)[:300])
        n_want = 2 if nonhermitian else 1
        eng.oblige("greens-functions-prepared-once-per-needed-orientation", z3.BoolVal(len(grouped_calls) == n_want), detail=f"{len(grouped_calls)} calls")
        if len(grouped_calls) == n_want:
            op, rk, lk, cj, ev, tol, fo = grouped_calls[0]
            okr = (isinstance(op, T) and op.head == "attr:T" and op.args[0] is h0 and [*eng.as_seq(rk).items] == L and [*eng.as_seq(lk).items] == R and cj is True
                   and eigs_ok(ev) and tol_ok(tol))
            eng.oblige("right-implicit-greens-functions:transposed-h_0-conjugated-kernels-left-vectors-as-kernel", z3.BoolVal(okr), detail=repr(grouped_calls[0])[:400])
            eng.oblige("right-implicit-greens-functions-are-what-the-solver-uses", z3.BoolVal(term_eq_py(_look(env, "greens_functions_right"), T("grouped", T("call0")))))
            if nonhermitian:
                op, rk, lk, cj, ev, tol, fo = grouped_calls[1]
                okl = (op is h0 and [*eng.as_seq(rk).items] == R and [*eng.as_seq(lk).items] == L and cj is False and eigs_ok(ev) and tol_ok(tol))
                eng.oblige("left-implicit-greens-functions:h_0-itself-right-vectors-as-kernel", z3.BoolVal(okl), detail=repr(grouped_calls[1])[:400])
                eng.oblige("left-implicit-greens-functions-are-what-the-solver-uses", z3.BoolVal(term_eq_py(_look(env, "greens_functions_left"), T("grouped", T("call1")))))
            else:
                eng.oblige("without-nonhermitian-no-left-implicit-greens-functions", z3.BoolVal(_look(env, "greens_functions_left") is None))
            fo = grouped_calls[0][6]
            keys = set(fo) if isinstance(fo, dict) else None
            eng.oblige("factorization-options-are-the-solver-options-without-the-tolerance-keys",
                       z3.BoolVal(keys == ({"ordering"} if opts == "extra" else set())), detail=repr(fo)[:200])
        n_warn = {"atol": 1, "eps": 1}.get(opts, 0)
        eng.oblige("deprecation-warnings-only-for-deprecated-options", z3.BoolVal(len(warns) == n_warn), detail=repr(warns)[:200])
    return run_unit(f"block_diagonalization:solve_sylvester_direct[{nsub} explicit subspaces{',nonhermitian' if nonhermitian else ''},options={opts}]", harness,
                    functions=[(MODULE, "solve_sylvester_direct")], timeout_ms=timeout_ms)


def term_eq_py(a, b):
    if isinstance(a, T) and isinstance(b, T):
        return a.head == b.head and len(a.args) == len(b.args) and all(term_eq_py(x, y) for x, y in zip(a.args, b.args))
    if isinstance(a, (int, float, complex, str)) and isinstance(b, (int, float, complex, str)):
        return type(a) is type(b) and a == b
    return a is b
