"""Contracts for pymablock/series.py: product_by_order and cauchy_dot_product (C18, C12).

Spec (DESIGN.md C18 / Appendix B).  For index (s, e, n), factors F = first, S = second,
K = first.shape[1], hermitian' = hermitian and s == e, the loop over (k, m) with 0 <= k < K and
0 <= m <= n (componentwise) adds the contribution

    c(k, m) = 0                      if hermitian' and m >lex n-m
            = t + t^dagger           if hermitian' and m <lex n-m
            = t                      otherwise,         t = val(F,(s,k,m)) * val(S,(k,e,n-m)),

where a value that is the `zero` sentinel denotes 0 and `one` denotes 1.  The loop is a fold, so
the function returns  SUM_{(k,m)} c(k,m).  That SUM equals the multivariate Cauchy product
    SUM_k SUM_{0<=m<=n} val(F,(s,k,m)) * val(S,(k,e,n-m))
(a) always when not hermitian', (b) when hermitian' under the pairing precondition
val(S,(k,s,p)) = val(F,(s,k,p))^dagger; (a),(b) are the finite-sum lemma proved in Lean
(leanalg/lean/PV/Sums.lean) - this file discharges the per-iteration obligations, the
footprint (C12) and the laziness clause on the real loop body.
"""
from __future__ import annotations

import ast

import z3

from pyvc import frontend
from pyvc.core import (
    Closure, Env, STup, SVec, SI, SB, PyRaise, Unsupported, _Cont, _Brk, _Ret, wrap_bool, zi,
    vec_eq, vec_lexgt,
)
from pyvc.models import SSeries, SObj, SMulOp, ZERO, ONE, TAG_ZERO, TAG_ONE, TAG_VAL
from pyvc.nf import NF, Atom, ZK
from pyvc.unit import run_unit

MODULE = "series"


def _setup_inputs(eng, with_operator):
    N = z3.Int("N")
    eng.assume(N >= 1)
    n_arr = z3.Array("n", z3.IntSort(), z3.IntSort())
    eng.assume_forall(lambda k: z3.Implies(z3.And(k >= 0, k < N), z3.Select(n_arr, k) >= 0))
    n = SVec(n_arr, N)
    A, K, C = z3.Ints("shapeF0 K shapeS1")
    s, e = z3.Ints("start end")
    eng.assume(z3.And(A >= 1, K >= 0, C >= 1, s >= 0, s < A, e >= 0, e < C))
    herm = z3.Bool("hermitian")
    return dict(N=N, n=n, A=A, K=K, C=C, s=s, e=e, herm=herm)


def _contribution(eng, inp, first, second, mid, m, canary=False):
    """Spec contribution c(k, m) as a normal form on this path (forks on the case conditions)."""
    n = inp["n"]
    nm = eng.new_vec(lambda k: n.at(k) - m.at(k), inp["N"])
    F = first.element(eng, SI(inp["s"]), SI(mid), m).nf   # registers: zero-tagged => 0, one-tagged => 1
    S = second.element(eng, SI(mid), SI(inp["e"]), nm).nf
    t = F * S
    hp = z3.And(inp["herm"], inp["s"] == inp["e"])
    if eng.branch(hp):
        if eng.branch(vec_lexgt(m, nm)):
            return NF.zero(), nm
        if eng.branch(vec_eq(m, nm)):
            return t, nm
        if canary:
            return t, nm  # deliberately wrong: forgets the mirrored term
        return t + t.dagger(), nm
    return t, nm


def make_harness(with_operator, canary=False):
    node = frontend.find(MODULE, "product_by_order")

    def harness(eng):
        inp = _setup_inputs(eng, with_operator)
        reads = []

        def on_read_first(eng_, ser, i, j, vec):
            reads.append(("first", i, j, vec))

        first = SSeries("first", SI(inp["A"]), SI(inp["K"]), SI(inp["N"]))
        second = SSeries("second", SI(inp["K"]), SI(inp["C"]), SI(inp["N"]))
        state = {}

        def hook(which):
            def on_read(eng_, ser, i, j, vec):
                # footprint (C12): orders requested are between 0 and n componentwise
                n = inp["n"]
                eng_.oblige_forall(
                    f"footprint:{which}-order<=n@{eng_.site()}", inp["N"],
                    lambda k: z3.And(vec.at(k) >= 0, vec.at(k) <= n.at(k)),
                    detail="an element of a factor is requested only at orders m with 0 <= m <= n componentwise",
                )
                # laziness (C18): request only if the complementary element is not known to vanish
                cur = state.get("iter")
                if cur is None:
                    eng_.oblige(f"read-outside-loop:{which}@{eng_.site()}", False, detail="factor element read outside the product loop")
                    return
                mid, m, nm = cur
                if which == "first":
                    want = z3.And(zi(i) == inp["s"], zi(j) == mid, vec_eq(vec, m))
                    other = second.kz_expr(SI(mid), SI(inp["e"]), nm)
                else:
                    want = z3.And(zi(i) == mid, zi(j) == inp["e"], vec_eq(vec, nm))
                    other = first.kz_expr(SI(inp["s"]), SI(mid), m)
                eng_.oblige(f"footprint:{which}-index@{eng_.site()}", want,
                            detail="the element read is (start,middle,m) of first / (middle,end,n-m) of second")
                eng_.oblige(f"lazy:{which}-only-if-complement-present@{eng_.site()}", z3.Not(other),
                            detail="an order of a factor is requested only if the complementary element of the other factor is not cached as zero")
            return on_read

        first.hooks["on_read"] = hook("first")
        second.hooks["on_read"] = hook("second")

        def product_rule(eng_, space, stmt, env):
            if len(space.heads) != 1 or space.rangevec is None:
                raise Unsupported("unexpected iteration space in product_by_order")
            rng = space.heads[0]
            # iteration space must be {0..K-1} x box(n): obligations on the space itself
            eng_.oblige("loop-space:middle-range", z3.And(zi(rng.lo) == 0, zi(rng.hi) == inp["K"]),
                        detail="intermediate block index ranges over 0 .. first.shape[1]-1")
            rv = space.rangevec
            eng_.oblige("loop-space:order-box-arity", rv.n == inp["N"], detail="one range per perturbation parameter")
            eng_.oblige_forall("loop-space:order-box", inp["N"],
                               lambda kk: z3.And(rv.lo_vec.at(kk) == 0, rv.hi_vec.at(kk) == inp["n"].at(kk) + 1),
                               detail="orders of the first factor range over the box 0 <= m <= n")
            carried = "result"
            init = env.lookup(carried)
            if not isinstance(init, SObj):
                raise Unsupported("loop-carried accumulator is not an element value")
            # arbitrary iteration: havoc accumulator
            acc_tag = eng_.fresh("acc_tag")
            eng_.assume(z3.And(acc_tag >= 0, acc_tag <= 2))
            acc_atom = Atom(("acc", "result"))
            eng_.add_fact(acc_tag == TAG_ZERO, acc_atom, NF.zero())
            eng_.add_fact(acc_tag == TAG_ONE, acc_atom, NF.one())
            acc = SObj(acc_tag, NF({(acc_atom,): 1}), alias="unknown")
            mid = eng_.fresh("middle")
            m_arr = z3.Array(eng_.fresh_name("m"), z3.IntSort(), z3.IntSort())
            m = SVec(m_arr, inp["N"])
            eng_.assume(z3.And(mid >= zi(rng.lo), mid < zi(rng.hi)))
            eng_.assume_forall(lambda kk: z3.Implies(z3.And(kk >= 0, kk < inp["N"]),
                                                     z3.And(m.at(kk) >= rv.lo_vec.at(kk), m.at(kk) < rv.hi_vec.at(kk))))
            nm = eng_.new_vec(lambda k2: inp["n"].at(k2) - m.at(k2), inp["N"])
            state["iter"] = (mid, m, nm)
            env.set(carried, acc)
            eng_.assign(stmt.target, STup([SI(mid)], m, True), env)
            try:
                eng_.exec_block(stmt.body, env)
            except _Cont:
                pass
            except _Brk:
                raise Unsupported("break inside the product loop")
            except _Ret:
                eng_.oblige("no-return-inside-loop", False, detail="the product loop must not return early")
                raise
            except PyRaise as pr:
                if getattr(pr.exc, "tag", None) == "sentinel-arith":
                    # excluded by the sentinel-discipline precondition P-ONE (see DESIGN.md C18):
                    # `one` never meets another non-zero contribution.  Counted, not hidden.
                    state.setdefault("p_one_paths", 0)
                    state["p_one_paths"] += 1
                    eng_.p_one_paths = getattr(eng_, "p_one_paths", 0) + 1
                    from pyvc.core import PathInfeasible
                    raise PathInfeasible()
                raise
            out = env.lookup(carried)
            if not isinstance(out, SObj):
                raise Unsupported("accumulator is not an element value after the loop body")
            c, _nm = _contribution(eng_, inp, first, second, mid, m, canary=canary)
            eng_.oblige_nf("iteration-adds-spec-contribution", out.nf, acc.nf + c,
                           detail="den(result') = den(result) + c(middle, m)")
            # accumulator sentinel invariant
            if eng_.branch(out.tag == TAG_ZERO):
                eng_.oblige_nf("acc-invariant:zero-denotes-0", out.nf, NF.zero())
            elif eng_.branch(out.tag == TAG_ONE):
                eng_.oblige_nf("acc-invariant:one-denotes-1", out.nf, NF.one())
            else:
                eng_.oblige("acc-invariant:tag-range", out.tag == TAG_VAL)
            # after the loop: fold of the contributions
            state["iter"] = None
            total_atom = Atom(("foldsum", "c(k,m)"))
            t_tag = eng_.fresh("result_tag")
            eng_.assume(z3.And(t_tag >= 0, t_tag <= 2))
            total = init.nf + NF({(total_atom,): 1})
            env.set(carried, SObj(t_tag, total))
            state["total"] = total
            eng_.exec_block(stmt.orelse, env)

        eng.loop_rules["product"] = product_rule
        from pyvc.models import numeric_probe_namespace
        eng.globals.setdefault("np", numeric_probe_namespace(eng))
        clo = Closure(node, Env(None, {}), "product_by_order")
        index = STup([SI(inp["s"]), SI(inp["e"])], inp["n"])
        kwargs = {"hermitian": SB(inp["herm"])}
        if with_operator:
            kwargs["operator"] = SMulOp("operator")
        else:
            kwargs["operator"] = None
        res = eng.call(clo, [index, first, second], kwargs)
        if not isinstance(res, SObj):
            eng.oblige("returns-element-value", False, detail=f"returned {res!r}")
            return
        eng.oblige_nf("returns-fold-of-contributions", res.nf, state.get("total", NF.zero()),
                      detail="return value is the accumulator after the loop, started from zero")

    return harness


def unit_product_by_order(timeout_ms=10000):
    results = []
    for with_op in (True, False):
        r = run_unit(
            f"series:product_by_order[operator={'given' if with_op else 'None'}]",
            make_harness(with_op),
            functions=[(MODULE, "product_by_order")],
            timeout_ms=timeout_ms,
        )
        results.append(r)
    # canary: a wrong spec (mirrored term forgotten) must be refuted
    rc = run_unit("series:product_by_order[canary]", make_harness(True, canary=True), timeout_ms=timeout_ms)
    refuted = any(o.status == "refuted" and "iteration-adds-spec-contribution" in o.name for o in rc.obligations)
    results[0].canaries.append(("product_by_order: spec without the mirrored Hermitian term is refuted", refuted and rc.engine_error is None))
    return results


# ======================================================================================
# cauchy_dot_product: wrapper around product_by_order (binary) and left fold (n-ary)
# ======================================================================================
from pyvc.core import Model, Builtin, TypeObj, SStr, SExc  # noqa: E402
from pyvc.nf import fn_atom  # noqa: E402


class SNewSeries(SSeries):
    """A BlockSeries created by the code under contract (callers' view + settable eval)."""

    def __init__(self, name, shape0, shape1, n_inf, dimnames, kwargs):
        super().__init__(name, shape0, shape1, n_inf)
        self.dimension_names = dimnames
        self.kwargs = kwargs
        self.eval_fn = None
        self.factors = None
        self.hermitian_flag = None

    def m_getattr(self, eng, name):
        if name == "eval":
            return self.eval_fn
        return super().m_getattr(eng, name)

    def m_setattr(self, eng, name, value):
        if name == "eval":
            self.eval_fn = value
            return
        raise Unsupported(f"assignment to BlockSeries.{name}")


class SInSeries(SSeries):
    def __init__(self, name, eng):
        a, b, n, d = (eng.fresh(f"{name}_shape0"), eng.fresh(f"{name}_shape1"), eng.fresh(f"{name}_ninf"), eng.fresh(f"{name}_dimnames"))
        eng.assume(z3.And(a >= 1, b >= 1, n >= 1))
        super().__init__(name, SI(a), SI(b), SI(n))
        self.dimension_names = SI(d)


def _series_ctor(eng, *args, **kw):
    if args:
        raise Unsupported("positional arguments to BlockSeries(...)")
    shape = eng.as_seq(kw.get("shape"))
    if len(shape.items) != 2:
        raise Unsupported("product shape is not 2-dimensional")
    return SNewSeries("product", shape.items[0], shape.items[1], kw.get("n_infinite"), kw.get("dimension_names"), kw)


def _pbo_contract(calls):
    def pbo(eng, index, first, second, operator=None, hermitian=False):
        calls.append(dict(index=index, first=first, second=second, operator=operator, hermitian=hermitian))
        eng.used_models.add("contract:product_by_order (verified as its own unit)")
        tag = eng.fresh("pbo_tag")
        eng.assume(z3.And(tag >= 0, tag <= 2))
        herm = hermitian if isinstance(hermitian, bool) else ZK(hermitian.e)
        idx = eng.as_seq(index)
        key = ("pbo", first.name, second.name, ZK(zi(idx.items[0])), ZK(zi(idx.items[1])), ZK(idx.tail.arr), herm, id(operator) if operator is not None else None)
        return SObj(tag, NF.atom(key))
    return pbo


def unit_cauchy_binary(timeout_ms=10000):
    node = frontend.find(MODULE, "cauchy_dot_product")

    def harness(eng):
        first, second = SInSeries("first", eng), SInSeries("second", eng)
        herm = z3.Bool("hermitian")
        op = SMulOp("operator")
        calls = []
        eng.globals["BlockSeries"] = Builtin("BlockSeries", _series_ctor)
        eng.globals["product_by_order"] = Builtin("product_by_order", _pbo_contract(calls))
        eng.globals["cauchy_dot_product"] = Builtin("cauchy_dot_product(recursive)", lambda *a, **k: (_ for _ in ()).throw(Unsupported("unexpected recursion in binary case")))
        clo = Closure(node, Env(None, {}), "cauchy_dot_product")
        compat = z3.And(zi(first.n_inf) == zi(second.n_inf), zi(first.dimension_names) == zi(second.dimension_names),
                        zi(first.shape1) == zi(second.shape0))
        try:
            prod = eng.call(clo, [first, second], {"operator": op, "hermitian": SB(herm)})
        except PyRaise as pr:
            eng.oblige("raises-only-ValueError", z3.BoolVal(pr.exc.cls == "ValueError"), detail=str(pr.exc.cls))
            eng.oblige("raises-only-if-incompatible", z3.Not(compat), detail="ValueError only for factors with different numbers/names of infinite dimensions or incompatible finite shapes")
            return
        eng.oblige("accepted-implies-compatible", compat)
        if not isinstance(prod, SNewSeries) or prod.eval_fn is None:
            eng.oblige("returns-series-with-eval", False)
            return
        eng.oblige("product-shape", z3.And(zi(prod.shape0) == zi(first.shape0), zi(prod.shape1) == zi(second.shape1), zi(prod.n_inf) == zi(first.n_inf)),
                   detail="shape (first.shape[0], second.shape[1]) and the factors' number of infinite dimensions")
        eng.oblige("product-starts-empty", z3.BoolVal(prod.kwargs.get("data") is None), detail="no preset data in the product series")
        # behaviour of the evaluator for an arbitrary index
        N = zi(prod.n_inf)
        i, j = eng.fresh("i"), eng.fresh("j")
        n = SVec(z3.Array("n", z3.IntSort(), z3.IntSort()), N)
        eng.assume_forall(lambda k: z3.Implies(z3.And(k >= 0, k < N), n.at(k) >= 0))
        eng.assume(z3.And(i >= 0, i < zi(prod.shape0), j >= 0, j < zi(prod.shape1)))
        # a product declared hermitian is square (its lower blocks are adjoints of upper blocks)
        eng.assume(z3.Implies(herm, zi(prod.shape0) == zi(prod.shape1)))
        calls.clear()
        res = eng.call(prod.eval_fn, [SI(i), SI(j), __import__("pyvc.core", fromlist=["StarTail"]).StarTail(STup([], n))], {})
        lower_h = z3.And(herm, i > j)
        if eng.branch(lower_h):
            want = prod.element(eng, SI(j), SI(i), n).nf.dagger()
            eng.oblige_nf("eval:lower-block-of-hermitian-product-is-adjoint-of-upper", res.nf, want,
                          detail="for hermitian=True and i > j the element is Dagger(product[j, i, n])")
            eng.oblige("eval:no-product_by_order-call-for-lower-block", z3.BoolVal(len(calls) == 0))
        else:
            ok = len(calls) == 1
            eng.oblige("eval:one-product_by_order-call", z3.BoolVal(ok))
            if ok:
                c = calls[0]
                idx = eng.as_seq(c["index"])
                eng.oblige("eval:product_by_order-gets-index-factors-operator-flag",
                           z3.And(zi(idx.items[0]) == i, zi(idx.items[1]) == j, z3.BoolVal(idx.tail is n or idx.tail.arr.get_id() == n.arr.get_id()),
                                  z3.BoolVal(c["first"] is first and c["second"] is second and c["operator"] is op),
                                  (c["hermitian"].e if isinstance(c["hermitian"], SB) else z3.BoolVal(bool(c["hermitian"]))) == herm),
                           detail="product_by_order(index, first, second, operator=operator, hermitian=hermitian)")

    return run_unit("series:cauchy_dot_product[2 factors]", harness, functions=[(MODULE, "cauchy_dot_product")], timeout_ms=timeout_ms)


def unit_cauchy_nary(nfactors=3, timeout_ms=10000):
    """n > 2 factors: left fold of binary products; the hermitian flag must not reach the inner
    binary products (their factors are not adjoint pairs), only the lower-block wrapper."""
    node = frontend.find(MODULE, "cauchy_dot_product")

    def harness(eng):
        factors = [SInSeries(f"f{k}", eng) for k in range(nfactors)]
        herm = z3.Bool("hermitian")
        op = SMulOp("operator")
        rec_calls = []

        class Inner(SNewSeries):
            pass

        def rec(eng_, *series, operator=None, hermitian=False):
            eng_.used_models.add("contract:cauchy_dot_product for fewer factors (induction on the number of factors)")
            rec_calls.append(dict(series=series, operator=operator, hermitian=hermitian))
            h = hermitian.e if isinstance(hermitian, SB) else z3.BoolVal(bool(hermitian))
            # precondition of hermitian=True: the factors form an adjoint pair (second = first^dagger);
            # nothing in this context establishes that, so the flag has to be False here
            eng_.oblige("inner-product-not-declared-hermitian", z3.Not(h),
                        detail="hermitian=True needs second = adjoint(first); a partial product A.B and the next factor are not such a pair")
            if len(series) < 2 or len(series) >= nfactors:
                eng_.oblige("recursion-on-fewer-factors", False, detail=f"recursive call with {len(series)} factors")
            p = Inner("prod(" + ",".join(s.name for s in series) + ")", series[0].shape0, series[-1].shape1, series[0].n_inf, series[0].dimension_names, {})
            p.factors = series
            inner_eval_calls = []
            p.inner_eval_calls = inner_eval_calls

            def inner_eval(eng2, *index):
                inner_eval_calls.append(index)
                idx = pack(index)
                return p.element(eng2, idx.items[0], idx.items[1], idx.tail)
            p.eval_fn = Builtin("nonhermitian_eval", inner_eval)
            return p

        from pyvc.core import pack_star as pack
        eng.globals["cauchy_dot_product"] = Builtin("cauchy_dot_product(recursive)", rec)
        eng.globals["BlockSeries"] = Builtin("BlockSeries", _series_ctor)
        clo = Closure(node, Env(None, {}), "cauchy_dot_product")
        prod = eng.call(clo, factors, {"operator": op, "hermitian": SB(herm)})
        # structure: left fold ((f0 f1) f2 ...)
        ok = len(rec_calls) == 2 and [s.name for s in rec_calls[0]["series"]] == ["f0", "f1"] \
            and rec_calls[1]["series"][0].factors is rec_calls[0]["series"] and [s.name for s in rec_calls[1]["series"][1:]] == [f.name for f in factors[2:]]
        eng.oblige("nary:left-fold-of-all-factors-in-order", z3.BoolVal(ok), detail="cauchy(cauchy(f0, f1), f2, ...)")
        eng.oblige("nary:operator-forwarded", z3.BoolVal(all(c["operator"] is op for c in rec_calls)))
        if not isinstance(prod, SNewSeries) or prod.eval_fn is None:
            eng.oblige("nary:returns-product-series", False)
            return
        outer = rec_calls[1]["series"] and prod
        N = zi(prod.n_inf)
        i, j = eng.fresh("i"), eng.fresh("j")
        n = SVec(z3.Array("n", z3.IntSort(), z3.IntSort()), N)
        eng.assume(z3.And(i >= 0, i < zi(prod.shape0), j >= 0, j < zi(prod.shape1)))
        eng.assume_forall(lambda k: z3.Implies(z3.And(k >= 0, k < N), n.at(k) >= 0))
        eng.assume(z3.Implies(herm, zi(prod.shape0) == zi(prod.shape1)))
        from pyvc.core import StarTail
        res = eng.call(prod.eval_fn, [SI(i), SI(j), StarTail(STup([], n))], {})
        if eng.branch(z3.And(herm, i > j)):
            eng.oblige_nf("nary:lower-block-of-hermitian-product-is-adjoint-of-upper", res.nf, prod.element(eng, SI(j), SI(i), n).nf.dagger())
        else:
            eng.oblige_nf("nary:element-is-the-folded-product-element", res.nf, prod.element(eng, SI(i), SI(j), n).nf)

    r = run_unit(f"series:cauchy_dot_product[{nfactors} factors]", harness, functions=[(MODULE, "cauchy_dot_product")], timeout_ms=timeout_ms)
    r.bounded.append(f"number of factors = {nfactors} (the recursive call is replaced by the contract for fewer factors, i.e. an induction step)")
    return r
