"""Contracts for pymablock/series.py: product_by_order and cauchy_dot_product (C18, C12).

Spec (DESIGN.md C18 / Appendix B).  For index (s, e, n), factors F = first, S = second,
K = first.shape[1], hermitian' = hermitian and s == e, the loop over (k, m) with 0 <= k < K and
0 <= m <= n (componentwise) adds the contribution

    c(k, m) = 0                      if hermitian' and m >lex n-m
            = t + t^dagger           if hermitian' and m <lex n-m
            = t                      otherwise,         t = val(F,(s,k,m)) * val(S,(k,e,n-m)),

where a value that is the `zero` sentinel denotes 0 and `one` denotes 1.  The loop is a fold, so
the function returns  SUM_{(k,m)} c(k,m).  That SUM equals the multivariate Cauchy product
    SUM_k SUM_{0<=m<=n} val(F,(s,k,m)) * val(S,(k,e,n-m))
(a) always when not hermitian', (b) when hermitian' under the pairing precondition
val(S,(k,s,p)) = val(F,(s,k,p))^dagger; (a),(b) are the finite-sum lemma proved in Lean
(leanalg/lean/PV/Sums.lean) - this file discharges the per-iteration obligations, the
footprint (C12) and the laziness clause on the real loop body.
"""
from __future__ import annotations

import ast

import z3

from pyvc import frontend
from pyvc.core import (
    Closure, Env, STup, SVec, SI, SB, PyRaise, Unsupported, _Cont, _Brk, _Ret, wrap_bool, zi,
    vec_eq, vec_lexgt,
)
from pyvc.models import SSeries, SObj, SMulOp, ZERO, ONE, TAG_ZERO, TAG_ONE, TAG_VAL
from pyvc.nf import NF, Atom, ZK
from pyvc.unit import run_unit

MODULE = "series"


def _setup_inputs(eng, with_operator):
    N = z3.Int("N")
    eng.assume(N >= 1)
    n_arr = z3.Array("n", z3.IntSort(), z3.IntSort())
    eng.assume_forall(lambda k: z3.Implies(z3.And(k >= 0, k < N), z3.Select(n_arr, k) >= 0))
    n = SVec(n_arr, N)
    A, K, C = z3.Ints("shapeF0 K shapeS1")
    s, e = z3.Ints("start end")
    eng.assume(z3.And(A >= 1, K >= 0, C >= 1, s >= 0, s < A, e >= 0, e < C))
    herm = z3.Bool("hermitian")
    return dict(N=N, n=n, A=A, K=K, C=C, s=s, e=e, herm=herm)


def _contribution(eng, inp, first, second, mid, m, canary=False):
    """Spec contribution c(k, m) as a normal form on this path (forks on the case conditions)."""
    n = inp["n"]
    nm = eng.new_vec(lambda k: n.at(k) - m.at(k), inp["N"])
    F = first.element(eng, SI(inp["s"]), SI(mid), m).nf   # registers: zero-tagged => 0, one-tagged => 1
    S = second.element(eng, SI(mid), SI(inp["e"]), nm).nf
    t = F * S
    hp = z3.And(inp["herm"], inp["s"] == inp["e"])
    if eng.branch(hp):
        if eng.branch(vec_lexgt(m, nm)):
            return NF.zero(), nm
        if eng.branch(vec_eq(m, nm)):
            return t, nm
        if canary:
            return t, nm  # deliberately wrong: forgets the mirrored term
        return t + t.dagger(), nm
    return t, nm


def make_harness(with_operator, canary=False):
    node = frontend.find(MODULE, "product_by_order")

    def harness(eng):
        inp = _setup_inputs(eng, with_operator)
        reads = []

        def on_read_first(eng_, ser, i, j, vec):
            reads.append(("first", i, j, vec))

        first = SSeries("first", SI(inp["A"]), SI(inp["K"]), SI(inp["N"]))
        second = SSeries("second", SI(inp["K"]), SI(inp["C"]), SI(inp["N"]))
        state = {}

        def hook(which):
            def on_read(eng_, ser, i, j, vec):
                # footprint (C12): orders requested are between 0 and n componentwise
                n = inp["n"]
                eng_.oblige_forall(
                    f"footprint:{which}-order<=n@{eng_.site()}", inp["N"],
                    lambda k: z3.And(vec.at(k) >= 0, vec.at(k) <= n.at(k)),
                    detail="an element of a factor is requested only at orders m with 0 <= m <= n componentwise",
                )
                # laziness (C18): request only if the complementary element is not known to vanish
                cur = state.get("iter")
                if cur is None:
                    eng_.oblige(f"read-outside-loop:{which}@{eng_.site()}", False, detail="factor element read outside the product loop")
                    return
                mid, m, nm = cur
                if which == "first":
                    want = z3.And(zi(i) == inp["s"], zi(j) == mid, vec_eq(vec, m))
                    other = second.kz_expr(SI(mid), SI(inp["e"]), nm)
                else:
                    want = z3.And(zi(i) == mid, zi(j) == inp["e"], vec_eq(vec, nm))
                    other = first.kz_expr(SI(inp["s"]), SI(mid), m)
                eng_.oblige(f"footprint:{which}-index@{eng_.site()}", want,
                            detail="the element read is (start,middle,m) of first / (middle,end,n-m) of second")
                eng_.oblige(f"lazy:{which}-only-if-complement-present@{eng_.site()}", z3.Not(other),
                            detail="an order of a factor is requested only if the complementary element of the other factor is not cached as zero")
            return on_read

        first.hooks["on_read"] = hook("first")
        second.hooks["on_read"] = hook("second")

        def product_rule(eng_, space, stmt, env):
            if len(space.heads) != 1 or space.rangevec is None:
                raise Unsupported("unexpected iteration space in product_by_order")
            rng = space.heads[0]
            # iteration space must be {0..K-1} x box(n): obligations on the space itself
            eng_.oblige("loop-space:middle-range", z3.And(zi(rng.lo) == 0, zi(rng.hi) == inp["K"]),
                        detail="intermediate block index ranges over 0 .. first.shape[1]-1")
            rv = space.rangevec
            eng_.oblige("loop-space:order-box-arity", rv.n == inp["N"], detail="one range per perturbation parameter")
            eng_.oblige_forall("loop-space:order-box", inp["N"],
                               lambda kk: z3.And(rv.lo_vec.at(kk) == 0, rv.hi_vec.at(kk) == inp["n"].at(kk) + 1),
                               detail="orders of the first factor range over the box 0 <= m <= n")
            carried = "result"
            init = env.lookup(carried)
            if not isinstance(init, SObj):
                raise Unsupported("loop-carried accumulator is not an element value")
            # arbitrary iteration: havoc accumulator
            acc_tag = eng_.fresh("acc_tag")
            eng_.assume(z3.And(acc_tag >= 0, acc_tag <= 2))
            acc_atom = Atom(("acc", "result"))
            eng_.add_fact(acc_tag == TAG_ZERO, acc_atom, NF.zero())
            eng_.add_fact(acc_tag == TAG_ONE, acc_atom, NF.one())
            acc = SObj(acc_tag, NF({(acc_atom,): 1}), alias="unknown")
            mid = eng_.fresh("middle")
            m_arr = z3.Array(eng_.fresh_name("m"), z3.IntSort(), z3.IntSort())
            m = SVec(m_arr, inp["N"])
            eng_.assume(z3.And(mid >= zi(rng.lo), mid < zi(rng.hi)))
            eng_.assume_forall(lambda kk: z3.Implies(z3.And(kk >= 0, kk < inp["N"]),
                                                     z3.And(m.at(kk) >= rv.lo_vec.at(kk), m.at(kk) < rv.hi_vec.at(kk))))
            nm = eng_.new_vec(lambda k2: inp["n"].at(k2) - m.at(k2), inp["N"])
            state["iter"] = (mid, m, nm)
            env.set(carried, acc)
            eng_.assign(stmt.target, STup([SI(mid)], m, True), env)
            try:
                eng_.exec_block(stmt.body, env)
            except _Cont:
                pass
            except _Brk:
                raise Unsupported("break inside the product loop")
            except _Ret:
                eng_.oblige("no-return-inside-loop", False, detail="the product loop must not return early")
                raise
            except PyRaise as pr:
                if getattr(pr.exc, "tag", None) == "sentinel-arith":
                    # excluded by the sentinel-discipline precondition P-ONE (see DESIGN.md C18):
                    # `one` never meets another non-zero contribution.  Counted, not hidden.
                    state.setdefault("p_one_paths", 0)
                    state["p_one_paths"] += 1
                    eng_.p_one_paths = getattr(eng_, "p_one_paths", 0) + 1
                    from pyvc.core import PathInfeasible
                    raise PathInfeasible()
                raise
            out = env.lookup(carried)
            if not isinstance(out, SObj):
                raise Unsupported("accumulator is not an element value after the loop body")
            c, _nm = _contribution(eng_, inp, first, second, mid, m, canary=canary)
            eng_.oblige_nf("iteration-adds-spec-contribution", out.nf, acc.nf + c,
                           detail="den(result') = den(result) + c(middle, m)")
            # accumulator sentinel invariant
            if eng_.branch(out.tag == TAG_ZERO):
                eng_.oblige_nf("acc-invariant:zero-denotes-0", out.nf, NF.zero())
            elif eng_.branch(out.tag == TAG_ONE):
                eng_.oblige_nf("acc-invariant:one-denotes-1", out.nf, NF.one())
            else:
                eng_.oblige("acc-invariant:tag-range", out.tag == TAG_VAL)
            # after the loop: fold of the contributions
            state["iter"] = None
            total_atom = Atom(("foldsum", "c(k,m)"))
            t_tag = eng_.fresh("result_tag")
            eng_.assume(z3.And(t_tag >= 0, t_tag <= 2))
            total = init.nf + NF({(total_atom,): 1})
            env.set(carried, SObj(t_tag, total))
            state["total"] = total
            eng_.exec_block(stmt.orelse, env)

        eng.loop_rules["product"] = product_rule
        clo = Closure(node, Env(None, {}), "product_by_order")
        index = STup([SI(inp["s"]), SI(inp["e"])], inp["n"])
        kwargs = {"hermitian": SB(inp["herm"])}
        if with_operator:
            kwargs["operator"] = SMulOp("operator")
        else:
            kwargs["operator"] = None
        res = eng.call(clo, [index, first, second], kwargs)
        if not isinstance(res, SObj):
            eng.oblige("returns-element-value", False, detail=f"returned {res!r}")
            return
        eng.oblige_nf("returns-fold-of-contributions", res.nf, state.get("total", NF.zero()),
                      detail="return value is the accumulator after the loop, started from zero")

    return harness


def unit_product_by_order(timeout_ms=10000):
    results = []
    for with_op in (True, False):
        r = run_unit(
            f"series:product_by_order[operator={'given' if with_op else 'None'}]",
            make_harness(with_op),
            functions=[(MODULE, "product_by_order")],
            timeout_ms=timeout_ms,
        )
        results.append(r)
    # canary: a wrong spec (mirrored term forgotten) must be refuted
    rc = run_unit("series:product_by_order[canary]", make_harness(True, canary=True), timeout_ms=timeout_ms)
    refuted = any(o.status == "refuted" and "iteration-adds-spec-contribution" in o.name for o in rc.obligations)
    results[0].canaries.append(("product_by_order: spec without the mirrored Hermitian term is refuted", refuted and rc.engine_error is None))
    return results
