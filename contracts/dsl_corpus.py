# ruff: noqa
"""Corpus of mini-language programs for the translation validation of the repository's compiler (C09, quantifier
"all programs in the documented grammar").  These functions are never executed: `_parse_algorithm` reads their source.
Every grammar production occurs in every context in which the documentation allows it:
  .adj of a series and of a product  x  {unconditional, diagonal, offdiagonal, lower}
  scope function of a series / of an expression  x  {unconditional, offdiagonal}
  start values 0 / 1 / none, hermitian / antihermitian markers (before and after other clauses), products declared hermitian or not,
  integer division (positive, negative), unary minus, subtraction chains, `zero`, flag expressions,
  terms used exactly once (deleted after use) directly and through .adj.
Left out on purpose (known finding F-DSL, DESIGN.md 10.5):
an `if lower:` clause followed by further clauses (the compiler returns after it, the documentation says clauses are summed).
Three members of that family were repaired in /repo after this corpus exposed them (marker position, nested calls incl. calls under `diagonal`, chained divisions)
and are now part of the corpus.
"""


def adj_unconditional():
    with "C":
        start = 0
        "A" - "A".adj / 2 + "C @ A"

    with "C @ A":
        pass

    return "C"


def adj_of_product_unconditional():
    with "C":
        start = 0
        "A @ C".adj - "D".adj + "D2"

    with "D":
        start = 0
        "A".adj / -3

    with "D2":
        start = 0
        -"A" - "A @ C"

    with "A @ C":
        pass

    return "C"


def adj_in_conditions():
    with "B":
        start = 0
        if diagonal:
            "A".adj + "B @ B".adj / -2
        if offdiagonal:
            -"A".adj - "D".adj

    with "D":
        start = 0
        "A" + "A".adj

    with "B @ B":
        pass

    return "B"


def lower_clause():
    with "L":
        start = 0
        "A" - "A".adj + "M"
        if lower:
            -"L".adj / 2

    with "M":
        start = 0
        "A".adj

    return "L"


def markers():
    with "S":
        start = 0
        hermitian
        "A" + "A".adj
        if diagonal:
            "S @ S" / 2

    with "T":
        start = 1
        antihermitian
        if offdiagonal:
            f("A") - g("S" - "A".adj)

    with "S @ S":
        hermitian

    return "S", "T"


def marker_after_clause():
    with "S":
        start = 0
        "A" + "A".adj
        hermitian
        if offdiagonal:
            "A" / 4

    return "S"


def scope_calls():
    with "Y":
        start = 0
        f("A") + g("A" + "X".adj) / 3
        if offdiagonal:
            -g(-"X2")

    with "X":
        start = 0
        "A" - zero

    with "X2":
        start = 1
        "A".adj - "A" - "A"

    return "Y"


def flags():
    with "W":
        start = 0
        zero if two_block_optimized else "A".adj
        if diagonal:
            "A" if commuting_blocks[index[0]] else "A" - "W @ W"

    with "W @ W":
        pass

    return "W"


def no_start():
    with "Z":
        "A".adj - "Z2" / 2

    with "Z2":
        if offdiagonal:
            "A"
        if diagonal:
            "A".adj

    return "Z"


def triple_product():
    with "P":
        start = 0
        "A" + "P @ A @ P" / 2 - "A @ P".adj

    with "P @ A @ P":
        pass

    with "A @ P":
        pass

    return "P"


def hermitian_triple_product():
    with "Q":
        start = 0
        hermitian
        "A" + "A".adj - "Q @ G @ Q" / 4

    with "G":
        start = 0
        hermitian
        "A".adj + "A"

    with "Q @ G @ Q":
        hermitian

    return "Q", "G"


def nested_calls_and_divisions():
    with "N":
        start = 0
        f(g("A")) / 2 / -3 - -"N2"
        if offdiagonal:
            g(f("A") - "A".adj / 5)

    with "N2":
        start = 0
        -(-"A") + ("A" - "A".adj) / 7

    return "N"


def all_conditions():
    with "K":
        start = 0
        "A"
        if diagonal:
            "K1" - "A".adj
        if offdiagonal:
            "K1".adj + "K2"
        if lower:
            "K3".adj

    with "K1":
        start = 0
        "A" / 2

    with "K2":
        start = 0
        "A".adj / 3

    with "K3":
        start = 0
        "A" / 5

    return "K"


def consumer_with_identity_start():
    with "E":
        start = 1
        "A" - "E2".adj
        if diagonal:
            "E2 @ E2" / 2

    with "E2":
        "A".adj + "A"

    with "E2 @ E2":
        pass

    return "E"


def nested_sums():
    with "R":
        start = 0
        -("A" - "R1") - ("A".adj - ("R2" - "A")) / 2
        if diagonal:
            -(-("R1" + "R1".adj)) / 4 - zero

    with "R1":
        start = 0
        "A" + "A"

    with "R2":
        start = 0
        ("A" + "A".adj) / -2 - "A"

    return "R"


def calls_inside_sums():
    with "T":
        start = 0
        -f("A") - (g("A".adj) - f("T1" - "A")) / 3
        if offdiagonal:
            f(g(f("A")))

    with "T1":
        start = 0
        g("A") / 2

    return "T"


def call_under_diagonal():
    with "D":
        start = 0
        if diagonal:
            "A" + f("D1") - g("A" - "D1".adj)
        if offdiagonal:
            f("A") / 2

    with "D1":
        start = 0
        "A" / 2

    return "D"


def start_from_input():
    with "S0":
        start = "B_0"
        "A" - "B".adj / 2 + "S0 @ A"

    with "S0 @ A":
        pass

    return "S0"


def identity_start_consumes_started_term():
    with "C":
        start = 1
        "A" - "D".adj + "B".adj
        if diagonal:
            "D2" / 2

    with "D":
        start = 0
        "B".adj / -3

    with "D2":
        start = "B_0"
        "A" + "A".adj

    return "C"


def no_start_consumes_started_term():
    with "Z":
        "B" - "Z1".adj

    with "Z1":
        start = 0
        "B".adj + "A"

    return "Z"


def integer_multiples():
    with "I":
        start = 0
        2 * "A" - "A".adj * 3 + -2 * ("I1" - "A") / 5
        if offdiagonal:
            3 * f("A") + f(2 * "A".adj)

    with "I1":
        start = 0
        "A" * -1

    return "I"


def input_names_ending_in_zero_or_underscore():
    # `start = "<input>_0"` names the zeroth order of the input called <input>; input names may themselves end in digits or underscores
    with "S":
        start = "E0_0"
        "A" - "E0".adj / 2 + "S @ A"

    with "T":
        start = "V_10_0"
        "V_10" - "S" + "W_".adj

    with "R":
        start = "W__0"
        "A".adj / 3 - "T"

    with "S @ A":
        pass

    return "S", "T", "R"

