# ruff: noqa
"""Corpus of mini-language programs for the translation validation of the repository's compiler (C09, quantifier
"all programs in the documented grammar").  These functions are never executed: `_parse_algorithm` reads their source.
Every grammar production occurs in every context in which the documentation allows it:
  .adj of a series and of a product  x  {unconditional, diagonal, offdiagonal, lower}
  scope function of a series / of an expression  x  {unconditional, offdiagonal}
  start values 0 / 1 / none, hermitian / antihermitian markers (before and after other clauses), products declared hermitian or not,
  integer division (positive, negative), unary minus, subtraction chains, `zero`, flag expressions,
  terms used exactly once (deleted after use) directly and through .adj.
Left out on purpose (known finding F-DSL, DESIGN.md 10.5): a scope function nested under `diagonal`; `start = "<series>"` of a computed series;
a once-used series WITH a start value consumed by a series that is evaluated at zeroth order (start = 1 or no start): its start value is deleted;
an `if lower:` clause followed by further clauses (the compiler returns after it, the documentation says clauses are summed).
"""


def adj_unconditional():
    with "C":
        start = 0
        "A" - "A".adj / 2 + "C @ A"

    with "C @ A":
        pass

    return "C"


def adj_of_product_unconditional():
    with "C":
        start = 0
        "A @ C".adj - "D".adj + "D2"

    with "D":
        start = 0
        "A".adj / -3

    with "D2":
        start = 0
        -"A" - "A @ C"

    with "A @ C":
        pass

    return "C"


def adj_in_conditions():
    with "B":
        start = 0
        if diagonal:
            "A".adj + "B @ B".adj / -2
        if offdiagonal:
            -"A".adj - "D".adj

    with "D":
        start = 0
        "A" + "A".adj

    with "B @ B":
        pass

    return "B"


def lower_clause():
    with "L":
        start = 0
        "A" - "A".adj + "M"
        if lower:
            -"L".adj / 2

    with "M":
        start = 0
        "A".adj

    return "L"


def markers():
    with "S":
        start = 0
        hermitian
        "A" + "A".adj
        if diagonal:
            "S @ S" / 2

    with "T":
        start = 1
        antihermitian
        if offdiagonal:
            f("A") - g("S" - "A".adj)

    with "S @ S":
        hermitian

    return "S", "T"


def marker_after_clause():
    with "S":
        start = 0
        "A" + "A".adj
        hermitian
        if offdiagonal:
            "A" / 4

    return "S"


def scope_calls():
    with "Y":
        start = 0
        f("A") + g("A" + "X".adj) / 3
        if offdiagonal:
            -g(-"X2")

    with "X":
        start = 0
        "A" - zero

    with "X2":
        start = 1
        "A".adj - "A" - "A"

    return "Y"


def flags():
    with "W":
        start = 0
        zero if two_block_optimized else "A".adj
        if diagonal:
            "A" if commuting_blocks[index[0]] else "A" - "W @ W"

    with "W @ W":
        pass

    return "W"


def no_start():
    with "Z":
        "A".adj - "Z2" / 2

    with "Z2":
        if offdiagonal:
            "A"
        if diagonal:
            "A".adj

    return "Z"
