"""Contracts for pymablock.second_quantization (C07): solve_scalar, solve_sylvester_2nd_quant, apply_mask_to_operator.

solve_scalar(Y, H_ii, H_jj, diagonal): for every term  c^dagger^m f(N) c^p  of Y (an arbitrary canonical term; symbolic powers,
uninterpreted coefficient f and energies h_i, h_j as functions of the occupations) the returned term g satisfies, on every
occupation state |n),
      h_i(final occupations) * <term_g|n)  -  <term_g|n) * h_j(n)  =  <term_f|n)
i.e. H_ii V - V H_jj = Y as an operator identity, whenever the energy difference of the two coupled levels is non-zero
(the property's non-degeneracy premise).  With diagonal=True exactly the terms whose shift is lexicographically negative are
solved and the result is R - R^dagger (which solves the remaining off-diagonal terms because Y is Hermitian and H_ii = H_jj:
[H, -R^dagger] = [H, R]^dagger; uses the adjoint of NumberOrderedForm, bounded battery of C08).
The Fock semantics and the coefficient model (xreplace = substitution) are those of contracts/nof.py.
"""
from __future__ import annotations

import ast

import z3

from pyvc import frontend
from pyvc.core import Closure, Env, STup, SI, SB, SExc, Model, Builtin, Namespace, TypeObj, PyRaise, Unsupported, SymKey, zi, _Cont, _Brk
from pyvc.unit import run_unit
from contracts.nof import Coef, Placeholder, OpModel, Fock, ff_lemmas, KINDS
from contracts.formats import T, term_eq
from pyvc.models import ZERO

MODULE = "second_quantization"


class RCoef(Coef):
    """Coefficient with reciprocal and the sympy no-op simplifiers (A-SY2)."""

    def m_getattr(self, eng, name):
        if name in ("simplify", "doit"):
            eng.used_models.add("A-SY2:simplify / collect_const / doit are value-preserving")
            return Builtin(name, lambda e: self)
        return super().m_getattr(eng, name)

    def m_binop(self, eng, op, other, reflected):
        if isinstance(op, ast.Pow) and not reflected and isinstance(other, int) and other == -1:
            return RCoef(lambda occ: 1 / self.at(occ), "recip")
        r = super().m_binop(eng, op, other, reflected)
        if isinstance(r, Coef) and not isinstance(r, RCoef):
            return RCoef(r.fn, r.label)
        return r

    def m_unop(self, eng, op):
        r = super().m_unop(eng, op)
        return RCoef(r.fn, r.label)

    def xreplace(self, eng, d):
        r = super().xreplace(eng, d)
        return RCoef(r.fn, r.label)


class DiagNOF(Model):
    """A number-conserving NumberOrderedForm (an unperturbed energy): one term with zero powers."""

    def __init__(self, coef):
        self.coef = coef

    def m_getattr(self, eng, name):
        if name == "xreplace":
            return Builtin("xreplace", lambda e, d: DiagNOF(self.coef.xreplace(e, d)))
        if name == "terms":
            return {"zero-powers": self.coef}
        raise Unsupported(f"energy.{name}")

    def m_binop(self, eng, op, other, reflected):
        if isinstance(other, DiagNOF) and isinstance(op, ast.Sub):
            l, r = (other, self) if reflected else (self, other)
            return DiagNOF(l.coef.m_binop(eng, ast.Sub(), r.coef, False))
        return NotImplemented


class NofBuilt(Model):
    def __init__(self, ops, terms, chain=()):
        self.ops, self.terms, self.chain = ops, terms, chain

    def m_getattr(self, eng, name):
        if name in ("_cancel_binary_operator_numbers", "_linearize_binary_operators"):
            return Builtin(name, lambda e: NofBuilt(self.ops, self.terms, self.chain + (name,)))
        if name == "adjoint":
            return Builtin("adjoint", lambda e: T("adjoint", self))
        raise Unsupported(f"NumberOrderedForm.{name}")

    def m_binop(self, eng, op, other, reflected):
        if isinstance(op, ast.Sub) and not reflected:
            return T("Sub", self, other)
        return NotImplemented


class ScalarHarness:
    def __init__(self, layout, diagonal, canary=False):
        self.layout, self.diagonal, self.canary = tuple(layout), diagonal, canary

    def __call__(self, eng):
        eng.int_is_eq = True
        eng.allow_symbolic_keys = True
        layout, k = self.layout, len(self.layout)
        self.fock = Fock(layout)
        self.loop_seen = False
        ops = STup([OpModel(kind, i) for i, kind in enumerate(layout)])
        Hi = z3.Function("H_ii", *([z3.IntSort()] * k), z3.RealSort())
        Hj = z3.Function("H_jj", *([z3.IntSort()] * k), z3.RealSort()) if not self.diagonal else Hi
        self.Hi, self.Hj = Hi, Hj
        y_zero = eng.fresh("Y_is_zero", "bool")
        harness = self

        class TermsView(Model):
            def m_getattr(s, e, name):
                if name == "items":
                    return Builtin("items", lambda e2: s)
                raise Unsupported(f"terms.{name}")

            def m_for(s, e, stmt, env):
                return harness.term_loop(e, stmt, env)

        class YModel(Model):
            def m_binop(s, e, op, other, reflected):
                if isinstance(op, ast.Eq) and other == 0:
                    return SB(y_zero)
                return NotImplemented

            def m_getattr(s, e, name):
                if name == "operators":
                    return ops
                if name == "terms":
                    return TermsView()
                if name == "args":
                    return STup([ops, T("term-tuples")])
                raise Unsupported(f"Y.{name}")
        Y = YModel()
        built = []

        class NofCls(Model):
            def m_getattr(s, e, name):
                if name == "from_expr":
                    return Builtin("from_expr", lambda e2, x, *a: x)   # Y is already a NumberOrderedForm
                raise Unsupported(name)

            def m_call(s, e, args, kwargs):
                b = NofBuilt(kwargs.get("operators"), kwargs.get("terms"))
                built.append(b)
                return b
        eng.globals.update({
            "sympy": Namespace("sympy", {"S": Namespace("S", {"One": 1, "Zero": 0}), "collect_const": Builtin("collect_const", lambda e, x: x)}),
            "NumberOrderedForm": NofCls(), "NumberOperator": Builtin("NumberOperator", lambda e, op: op),
            "_number_operator_to_placeholder": Builtin("ph", lambda e, op: Placeholder(op.i)),
            "BosonOp": TypeObj("BosonOp"), "LadderOp": TypeObj("LadderOp"),
        })
        node = frontend.find(MODULE, "solve_scalar")
        self.rejected = False
        try:
            res = eng.call(Closure(node, Env(None, {}), "solve_scalar"),
                           [Y, DiagNOF(RCoef(lambda occ: Hi(*occ), "h_i")), DiagNOF(RCoef(lambda occ: Hj(*occ), "h_j"))], {"diagonal": self.diagonal})
        except PyRaise as pr:
            eng.oblige("raises-only-from-the-degeneracy-test-of-a-term", z3.BoolVal(self.rejected and pr.exc.cls == "ValueError"), detail=pr.exc.cls)
            return
        if eng.branch(y_zero):
            return eng.oblige("zero-rhs-gives-zero", z3.BoolVal(res == 0 and not self.loop_seen))
        eng.oblige("every-term-visited", z3.BoolVal(self.loop_seen))
        ok = len(built) == 1 and built[0].ops is ops and built[0].terms is self.new_terms
        eng.oblige("result-built-from-the-solved-terms-on-the-operators-of-Y", z3.BoolVal(ok))
        if not ok:
            return
        base = NofBuilt(ops, self.new_terms, ("_cancel_binary_operator_numbers", "_linearize_binary_operators"))

        def same(a, b):
            return isinstance(a, NofBuilt) and a.ops is b.ops and a.terms is b.terms and a.chain == b.chain
        if self.diagonal:
            okd = isinstance(res, T) and res.head == "Sub" and same(res.args[0], base) and isinstance(res.args[1], T) and res.args[1].head == "adjoint" \
                and same(res.args[1].args[0], base)
            eng.oblige("diagonal:result-is-R-minus-adjoint-of-R", z3.BoolVal(okd), detail=repr(res)[:200])
        else:
            eng.oblige("result-is-canonicalised-solved-terms", z3.BoolVal(same(res, base)), detail=repr(res)[:200])

    def term_loop(self, eng, stmt, env):
        self.loop_seen = True
        layout, k = self.layout, len(self.layout)
        fock = self.fock
        p = [eng.fresh(f"p{j}") for j in range(k)]
        F = z3.Function("F", *([z3.IntSort()] * k), z3.RealSort())
        n = [z3.Int(f"n{j}") for j in range(k)]
        for j in range(k):
            if layout[j] in ("spin", "fermion"):
                eng.assume(z3.And(p[j] >= -1, p[j] <= 1, n[j] >= 0, n[j] <= 1))
            else:
                eng.assume(n[j] >= 0) if layout[j] == "boson" else None
        coef = RCoef(lambda occ: F(*occ), "f")
        new_terms = env.lookup("new_shifts")
        self.new_terms = new_terms
        before = len(new_terms)
        eng.assign(stmt.target, STup([STup([SI(x) for x in p]), coef]), env)
        skipped = False
        nz0 = len(getattr(eng, "zero_facts", []))

        def binary_numbers_fixed():
            # the degeneracy test must look at the denominator WHERE IT IS EVALUATED: the number of a fermion / spin mode that the term changes is zero there
            # (the canonical form f(N) c / c^+ f(N)), so the tested expression may not depend on it - otherwise a resonance that only shows at N = 0 slips through
            for _z, dcoef in getattr(eng, "zero_facts", [])[nz0:]:
                for j in range(k):
                    if layout[j] in ("spin", "fermion"):
                        at0 = list(n)
                        at0[j] = z3.IntVal(0)
                        eng.oblige(f"degeneracy-test-evaluates-the-number-of-a-changed-binary-mode-at-zero[mode {j}]",
                                   z3.Implies(p[j] != 0, dcoef.at(list(n)) == dcoef.at(at0)),
                                   detail="omega a^+a + omega s^+s + g (a^+ s + s^+ a): the denominator omega N_s is not identically zero but vanishes where it is used")
        try:
            eng.exec_block(stmt.body, env)
            binary_numbers_fixed()
        except _Cont:
            skipped = True
        except _Brk:
            raise Unsupported("break in term loop")
        except PyRaise as pr:
            # the only rejection: the energy denominator of this term vanishes identically (sympy's structural `== 0`, A-SY1) - the term couples levels of equal energy
            zf = getattr(eng, "zero_facts", [])[nz0:]
            binary_numbers_fixed()
            eng.oblige("term-rejected-only-with-ValueError-for-an-identically-vanishing-energy-denominator",
                       z3.BoolVal(pr.exc.cls == "ValueError" and len(zf) >= 1), detail=f"{pr.exc.cls}; zero tests on this path: {len(zf)}")
            self.rejected = True
            raise
        # lexicographic sign of the shift
        neg = z3.BoolVal(False)
        for j in reversed(range(k)):
            neg = z3.If(p[j] < 0, z3.BoolVal(True), z3.If(p[j] > 0, z3.BoolVal(False), neg))
        if skipped or len(new_terms) == before:
            eng.oblige("term-skipped-only-on-diagonal-for-lexicographically-non-negative-shift", z3.And(z3.BoolVal(self.diagonal), z3.Not(neg)),
                       detail="with diagonal=True the terms with shift >= 0 are obtained from the adjoint (and the zero shift is a kept term)")
            return
        if self.diagonal:
            eng.oblige("diagonal:solved-terms-have-negative-shift", neg)
        eng.oblige("one-result-term-per-term", z3.BoolVal(len(new_terms) == before + 1))
        key, val = list(new_terms.items())[-1]
        kp = key.tup.items if isinstance(key, SymKey) else list(key)
        eng.oblige("result-term-has-the-same-powers", z3.And(z3.BoolVal(len(kp) == k), *[zi(a) == b for a, b in zip(kp, p)]))
        g = Coef.lift(val)
        # operator identity on an arbitrary occupation state
        occ_y, amp_y = fock.apply_term(list(n), z3.RealVal(1), p, coef)
        occ_v, amp_v = fock.apply_term(list(n), z3.RealVal(1), p, g)
        # energy difference of the two coupled levels (non-degeneracy premise) - needed only where the term acts
        e_final = self.Hi(*occ_v)
        e_init = self.Hj(*n)
        lhs = e_final * amp_v - amp_v * e_init
        if self.canary:
            lhs = e_init * amp_v - amp_v * e_final
        hyps = [z3.Implies(amp_y != 0, e_final != e_init)]
        # binary modes: a term that acts non-trivially needs the right occupation before / after
        lem = ff_lemmas([lhs, amp_y])
        eng.solver.push()
        try:
            for h in hyps + lem:
                eng.solver.add(h)
            eng.oblige("solves:H_ii*V-V*H_jj=Y-on-every-occupation-state", lhs == amp_y,
                       detail="<H_ii V - V H_jj | n) = <Y | n) for the term, whenever the coupled levels differ in energy")
        finally:
            eng.solver.pop()


def unit_solve_scalar(layout, diagonal=False, timeout_ms=60000, canary=False):
    nm = f"second_quantization:solve_scalar[{'+'.join(layout)}{',diagonal' if diagonal else ''}]" + ("[canary]" if canary else "")
    r = run_unit(nm, ScalarHarness(layout, diagonal, canary), functions=[(MODULE, "solve_scalar")], timeout_ms=timeout_ms)
    r.bounded.append(f"mode layout {list(layout)} (number of modes concrete; powers, occupations, coefficient and energy functions symbolic)")
    return r


# ------------------------------------------------------------------------------------------------
class SMat(Model):
    """A sympy matrix with concrete shape; entries are opaque terms (or 0)."""

    def __init__(self, rows, cols, entry):
        self.rows, self.cols = rows, cols
        self.data = {(i, j): entry(i, j) for i in range(rows) for j in range(cols)}
        self.writes = []

    def m_getattr(self, eng, name):
        if name == "rows":
            return self.rows
        if name == "cols":
            return self.cols
        if name == "shape":
            return STup([self.rows, self.cols])
        raise Unsupported(f"Matrix.{name}")

    def _key(self, eng, key):
        k = eng.as_seq(key)
        i, j = k.items
        if not (isinstance(i, int) and isinstance(j, int)):
            raise Unsupported("symbolic matrix index")
        return (i, j)

    def m_getitem(self, eng, key):
        return self.data[self._key(eng, key)]

    def m_setitem(self, eng, key, value):
        k = self._key(eng, key)
        self.writes.append(k)
        self.data[k] = value


def unit_solve_sylvester_2nd_quant(rows, cols, same_block, zero_block=None, timeout_ms=20000):
    """solve_sylvester_2nd_quant/solve_sylvester: which scalar problem fills which entry.
    zero_block in (None, 'row', 'col'): that block of H_0 is identically zero (its list of energies is empty on entry): its energies are zeros, as many as the right-hand side
    has rows (row block) resp. COLUMNS (column block)."""
    inner = frontend.find(MODULE, "solve_sylvester_2nd_quant/solve_sylvester")

    def harness(eng):
        eng.int_is_eq = True
        nblocks = 2
        b0 = 0
        b1 = 0 if same_block else 1
        empty = {"row": b0, "col": b1}.get(zero_block)
        eigs = STup([STup([] if b == empty else [T(f"E{b}_{a}") for a in range(rows if b == b0 else cols)], None, True) for b in range(nblocks)], None, True)
        if same_block and rows != cols:
            raise Unsupported("diagonal block must be square")
        Y = SMat(rows, cols, lambda i, j: T(f"Y[{i},{j}]"))
        y_zero = eng.fresh("Y_is_zero_sentinel", "bool")
        calls = []

        def solve_scalar(e, y, hii, hjj, diagonal=False):
            calls.append((y, hii, hjj, diagonal))
            return T("solve_scalar", y, hii, hjj, T("diagonal" if diagonal else "offdiagonal"))

        class TermAdj(T):
            pass
        out = []

        def zeros(e, r, c):
            m = SMat(r, c, lambda i, j: 0)
            out.append(m)
            return m
        from pyvc.models import ZERO
        eng.globals.update({"zero": ZERO, "solve_scalar": Builtin("solve_scalar", solve_scalar),
                            "sympy": Namespace("sympy", {"zeros": Builtin("sympy.zeros", zeros), "S": Namespace("S", {"Zero": 0})})})
        env = Env(None, {"eigs": eigs})
        yarg = ZERO if eng.branch(y_zero) else Y
        try:
            res = eng.call(Closure(inner, env, "solve_sylvester"), [yarg, STup([b0, b1, SI(eng.fresh("order"))])], {})
        except PyRaise as pr:
            return eng.oblige("a-right-hand-side-of-the-blocks'-shape-is-solved-without-an-exception", z3.BoolVal(False), detail=f"raised {pr.exc.cls}{pr.exc.args}")
        if yarg is ZERO:
            return eng.oblige("zero-rhs-gives-zero", z3.BoolVal(res is ZERO and not calls))
        ok = len(out) == 1 and res is out[0] and (res.rows, res.cols) == (rows, cols)
        eng.oblige("returns-a-new-matrix-of-the-shape-of-the-rhs", z3.BoolVal(ok))
        if not ok:
            return
        if zero_block is not None:
            # the energies of the zero block are now known: zeros, one per level of that block
            want_len = rows if empty == b0 else cols
            got = eng.as_seq(eigs.items[empty]).items
            eng.oblige("zero-block:energies-are-zeros-one-per-level-of-that-block", z3.BoolVal(len(got) == want_len and all(isinstance(x, int) and x == 0 for x in got)), detail=repr(got))
            if len(got) != want_len:
                return
        for i in range(rows):
            for j in range(cols):
                v = res.data[(i, j)]
                if not same_block or i >= j:
                    want = T("solve_scalar", Y.data[(i, j)], eigs.items[b0].items[i], eigs.items[b1].items[j], T("diagonal" if (same_block and i == j) else "offdiagonal"))
                    eng.oblige(f"entry[{i},{j}]-solves-its-scalar-equation-with-the-energies-of-its-row-and-column", term_eq(eng, v, want), detail=repr(v)[:200])
                else:
                    low = T("solve_scalar", Y.data[(j, i)], eigs.items[b0].items[j], eigs.items[b1].items[i], T("offdiagonal"))
                    want = T("USub", T(".adjoint", low))
                    eng.oblige(f"entry[{i},{j}]-above-the-diagonal-of-a-diagonal-block-is-minus-adjoint-of-the-transposed-entry", term_eq(eng, v, want), detail=repr(v)[:200])
        eng.oblige("rhs-not-modified", z3.BoolVal(not Y.writes))
    return run_unit(f"second_quantization:solve_sylvester_2nd_quant/solve_sylvester[{rows}x{cols},{'diagonal block' if same_block else 'off-diagonal block'}{',zero ' + zero_block + ' block' if zero_block else ''}]", harness,
                    functions=[(MODULE, "solve_sylvester_2nd_quant/solve_sylvester")], timeout_ms=timeout_ms)


# ------------------------------------------------------------------------------------------------
def unit_filter_terms(nmodes, nconds, timeout_ms=20000):
    """NumberOrderedForm.filter_terms: an arbitrary term is kept with keep=True iff it is dropped with keep=False (the two
    filters are complementary projections), and it matches iff for some condition no component difference is known to be non-zero."""
    node = frontend.find("number_ordered_form", "NumberOrderedForm.filter_terms")

    def harness(eng):
        eng.int_is_eq = True
        p = [eng.fresh(f"p{j}") for j in range(nmodes)]
        coef = T("coeff")
        # conditions: every component is an integer or a symbolic expression; (power - ref).is_zero is three-valued
        known_nonzero = [[eng.fresh(f"diff_{c}_{j}_is_known_nonzero", "bool") for j in range(nmodes)] for c in range(nconds)]

        class Diff(Model):
            def __init__(s, c, j):
                s.c, s.j = c, j

            def m_getattr(s, e, name):
                if name == "is_zero":
                    # False exactly when sympy can prove the difference non-zero; otherwise True or None
                    if e.branch(known_nonzero[s.c][s.j]):
                        return False
                    return True if e.branch(e.fresh("is_zero_is_True", "bool")) else None
                raise Unsupported(name)

        class Ref(Model):
            def __init__(s, c, j):
                s.c, s.j = c, j

            def m_binop(s, e, op, other, reflected):
                if isinstance(op, ast.Sub) and reflected:
                    return Diff(s.c, s.j)
                return NotImplemented
        conds = STup([STup([Ref(c, j) for j in range(nmodes)]) for c in range(nconds)])
        results = {}

        class TermSeqC(Model):
            def m_comprehension(s, e, ce, g, env):
                cenv = Env(env)
                cenv.is_comprehension = True
                e.assign(g.target, STup([STup([SI(x) for x in p]), coef]), cenv)
                kept = all(e.truth(e.eval(c, cenv)) for c in g.ifs)
                return STup([e.eval(ce.elt, cenv)] if kept else [], None, True)

        class Self(Model):
            def m_getattr(s, e, name):
                if name == "args":
                    return STup([T("operators"), TermSeqC()])
                if name == "operators":
                    return T("operators")
                raise Unsupported(name)
        eng.globals.update({"Tuple": Builtin("Tuple", lambda e, *a: STup(list(a))), "bool": Builtin("bool", lambda e, x: e.truth(x)),
                            "type": Builtin("type", lambda e, x: Builtin("cls", lambda e2, ops, terms, validate=True: STup([ops, terms])))})
        match = z3.Or(*[z3.And(*[z3.Not(known_nonzero[c][j]) for j in range(nmodes)]) for c in range(nconds)])
        for keep in (True, False):
            r = eng.call(Closure(node, Env(None, {}), "filter_terms"), [Self(), conds], {"keep": keep})
            terms = eng.as_seq(eng.as_seq(r).items[1])
            results[keep] = len(terms.items)
            if terms.items:
                t = eng.as_seq(terms.items[0])
                eng.oblige("kept-term-is-unchanged", z3.And(z3.BoolVal(t.items[1] is coef), *[zi(a) == b for a, b in zip(eng.as_seq(t.items[0]).items, p)]))
        eng.oblige("keep=True-keeps-exactly-the-matching-terms", z3.BoolVal(results[True] == 1) == match)
        eng.oblige("keep=False-keeps-exactly-the-other-terms", z3.BoolVal(results[False] == 1) == z3.Not(match))
        eng.oblige("the-two-filters-are-complementary", z3.BoolVal(results[True] + results[False] == 1))
    return run_unit(f"number_ordered_form:filter_terms[{nmodes} modes,{nconds} conditions]", harness,
                    functions=[("number_ordered_form", "NumberOrderedForm.filter_terms")], timeout_ms=timeout_ms)


def unit_apply_mask(timeout_ms=20000):
    """apply_mask_to_operator: entry-wise; empty mask entry keeps nothing (keep=True) / everything (keep=False); otherwise filter_terms
    with the mask's powers after bringing value and mask to a common operator list."""
    node = frontend.find(MODULE, "apply_mask_to_operator")

    def harness(eng):
        eng.int_is_eq = True
        R, C = 2, 2
        val_zero = {(i, j): eng.fresh(f"value_{i}{j}_is_zero", "bool") for i in range(R) for j in range(C)}
        mask_zero = {(i, j): eng.fresh(f"mask_{i}{j}_is_empty", "bool") for i in range(R) for j in range(C)}
        keep = bool(eng.branch(eng.fresh("keep", "bool")))

        class Entry(T):
            def __init__(s, name, zflag):
                super().__init__(name)
                s.zflag = zflag

            def m_truth(s, e):
                return not e.branch(s.zflag)

            def m_getattr(s, e, name):
                if name == "_combine_operators":
                    return Builtin("_combine_operators", lambda e2, other: STup([T("combined-value", s, other), T("combined-mask", other, s)]))
                return super().m_getattr(e, name)
        op = SMat(R, C, lambda i, j: Entry(f"value[{i},{j}]", val_zero[(i, j)]))
        mask = SMat(R, C, lambda i, j: Entry(f"mask[{i},{j}]", mask_zero[(i, j)]))
        orig_mask = dict(mask.data)
        out = []

        def zeros(e, r, c):
            m = SMat(r, c, lambda i, j: 0)
            out.append(m)
            return m

        class CombinedValue(T):
            pass

        class NofCls(Model):
            def m_getattr(s, e, name):
                if name == "from_expr":
                    return Builtin("from_expr", lambda e2, x: x)
                raise Unsupported(name)

            def m_isinstance(s, e, c):
                return False

        def filter_terms_attr(t):
            return Builtin("filter_terms", lambda e, conds, kp: T("filter_terms", t, conds, T("keep" if kp else "drop")))
        T_getattr = T.m_getattr

        def patched(self, e, name):
            if name == "filter_terms":
                return filter_terms_attr(self)
            if name == "terms":
                return T("terms-of", self)
            return T_getattr(self, e, name)
        T.m_getattr = patched
        try:
            eng.globals.update({"sympy": Namespace("sympy", {"zeros": Builtin("zeros", zeros)}), "NumberOrderedForm": NofCls(),
                                "isinstance": Builtin("isinstance", lambda e, x, c: True), "tuple": Builtin("tuple", lambda e, x: T("tuple", x))})
            res = eng.call(Closure(node, Env(None, {}), "apply_mask_to_operator"), [op, mask, keep], {})
        finally:
            T.m_getattr = T_getattr
        ok = len(out) == 1 and res is out[0]
        eng.oblige("returns-a-new-matrix", z3.BoolVal(ok))
        if not ok:
            return
        eng.oblige("operator-not-modified", z3.BoolVal(not op.writes))
        for i in range(R):
            for j in range(C):
                v = res.data[(i, j)]
                vz, mz = val_zero[(i, j)], mask_zero[(i, j)]
                if eng.branch(vz):
                    eng.oblige(f"[{i},{j}]:zero-entry-stays-zero", z3.BoolVal(v == 0 if isinstance(v, int) else False))
                elif eng.branch(mz):
                    if keep:
                        eng.oblige(f"[{i},{j}]:empty-mask-selects-nothing", z3.BoolVal(isinstance(v, int) and v == 0))
                    else:
                        eng.oblige(f"[{i},{j}]:empty-mask-discards-nothing", z3.BoolVal(v is op.data[(i, j)]))
                else:
                    okv = isinstance(v, T) and v.head == "filter_terms" and isinstance(v.args[0], T) and v.args[0].head == "combined-value" \
                        and v.args[0].args[0] is op.data[(i, j)] and v.args[0].args[1] is orig_mask[(i, j)] and v.args[2].head == ("keep" if keep else "drop")
                    eng.oblige(f"[{i},{j}]:terms-filtered-by-the-mask-entry-of-the-same-position-with-the-requested-polarity", z3.BoolVal(okv), detail=repr(v)[:200])
                    if okv:
                        cnd = v.args[1]
                        okc = isinstance(cnd, T) and cnd.head == "tuple" and cnd.args[0].head == "terms-of" and cnd.args[0].args[0].head == "combined-mask" \
                            and cnd.args[0].args[0].args[0] is orig_mask[(i, j)]
                        eng.oblige(f"[{i},{j}]:conditions-are-the-powers-of-the-mask-on-the-common-operator-list", z3.BoolVal(okc), detail=repr(cnd)[:200])
    return run_unit("second_quantization:apply_mask_to_operator[2x2]", harness, functions=[(MODULE, "apply_mask_to_operator")], timeout_ms=timeout_ms)


# ------------------------------------------------------------------------------------------------
def unit_operator_diag_offdiag(variant, timeout_ms=20000):
    """The `diag` / `offdiag` closures that block_diagonalize hands to the algorithm for operator-valued Hamiltonians.
    variant 'dict': masks given by the user mark the terms to eliminate; variant 'list': masks derived from equal energies mark the terms to keep.
    Contract: for a block without mask diag(x) = x and offdiag(x) = zero; otherwise the two are apply_mask_to_operator of the same value with the
    same mask entry and opposite polarity (so, by the contract of filter_terms, complementary projections), diag being the kept part."""
    ordinal = {"dict": 1, "list": 2}[variant]
    d_node = frontend.find("block_diagonalization", f"block_diagonalize/diag#{ordinal}")
    o_node = frontend.find("block_diagonalization", f"block_diagonalize/offdiag#{ordinal}")

    def harness(eng):
        eng.int_is_eq = True
        from pyvc.models import ZERO
        masks = {0: T("mask[0]"), 2: T("mask[2]")}
        b = eng.fresh("block")
        eng.assume(z3.And(b >= 0, b <= 3))
        blk = next(v for v in (0, 1, 2, 3) if v == 3 or eng.branch(b == v))
        x_zero = eng.fresh("x_is_zero", "bool")
        through_series = eng.fresh("x_is_a_series", "bool")
        val = ZERO if eng.branch(x_zero) else T("value")
        calls = []

        class Series(Model):
            def m_isinstance(s, e, c):
                return c == "BlockSeries"

            def m_getitem(s, e, key):
                s.key = key
                return val
        ser = Series()
        x = ser if eng.branch(through_series) else val

        def apply_mask(e, v, m, keep=True):
            calls.append((v, m, keep))
            return T("apply_mask", v, m, T("keep" if keep else "drop"))
        name = "fully_diagonalize" if variant == "dict" else "keep"
        env = Env(None, {name: masks})
        eng.globals.update({"second_quantization": Namespace("second_quantization", {"apply_mask_to_operator": Builtin("apply_mask_to_operator", apply_mask)}),
                            "zero": ZERO, "BlockSeries": TypeObj("BlockSeries")})
        index = STup([blk, blk, SI(eng.fresh("order"))])
        kept_polarity = "drop" if variant == "dict" else "keep"      # polarity with which diag selects the kept terms
        for which, node in (("diag", d_node), ("offdiag", o_node)):
            calls.clear()
            res = eng.call(Closure(node, env, which), [x, index], {})
            if blk not in masks:
                if which == "diag":
                    eng.oblige("diag:block-without-mask-is-kept-entirely", z3.BoolVal(res is val), detail=repr(res))
                else:
                    eng.oblige("offdiag:block-without-mask-has-nothing-to-eliminate", z3.BoolVal(res is ZERO), detail=repr(res))
                eng.oblige(f"{which}:no-mask-applied-to-a-block-without-mask", z3.BoolVal(not calls))
                continue
            if val is ZERO:
                eng.oblige(f"{which}:zero-stays-zero", z3.BoolVal(res is ZERO and not calls))
                continue
            pol = kept_polarity if which == "diag" else ("keep" if kept_polarity == "drop" else "drop")
            ok = isinstance(res, T) and res.head == "apply_mask" and res.args[0] is val and res.args[1] is masks[blk] and res.args[2].head == pol
            eng.oblige(f"{which}:value-filtered-by-the-mask-of-its-own-block-with-polarity-{pol}", z3.BoolVal(ok), detail=repr(res))
            if x is ser:
                eng.oblige(f"{which}:series-read-at-the-requested-index", z3.BoolVal(ser.key is index))
    return run_unit(f"block_diagonalization:block_diagonalize/diag+offdiag[operator-valued,{variant} masks]", harness,
                    functions=[("block_diagonalization", f"block_diagonalize/diag#{ordinal}"), ("block_diagonalization", f"block_diagonalize/offdiag#{ordinal}")], timeout_ms=timeout_ms)


# ==================================================================================================
# block_diagonalize: the second-quantized entry and exit wrappers (C07, C14)
#   H_eval(*index): reads H_orig at the same index exactly once; zero stays zero; a scalar term of a scalar Hamiltonian is wrapped into a 1 x 1 matrix;
#                   every entry of the (mutable or immutable) matrix is converted with NumberOrderedForm.from_expr over the common operator list;
#                   no other value is silently turned into None.
#   postprocessing_eval(*index): reads the wrapped series at the same index; non-matrix values (sentinels) pass through; every NumberOrderedForm entry is
#                   simplified with _poly_simplify (value preserving, A-SY2), other entries are untouched; a 1 x 1 result of a scalar Hamiltonian is unwrapped.
# ==================================================================================================

def unit_h_eval(kind, scalar_input, timeout_ms=20000):
    """kind: 'zero' | 'scalar' | 'matrix' | 'immutable' | 'ndarray' | 'sparse'"""
    node = frontend.find("block_diagonalization", "block_diagonalize/H_eval")

    def harness(eng):
        from contracts.formats import T, Val
        reads = []
        OPS = T("operators")

        class Mat(T):
            def __init__(s, head, kinds):
                super().__init__(head)
                s.kinds = kinds

            def m_getattr(s, e, name):
                if name == "applyfunc":
                    def af(e2, fn):
                        x = T("entry")
                        return T("applyfunc", s, e2.call(fn, [x], {}))
                    return Builtin("applyfunc", af)
                return super().m_getattr(e, name)
        value = {"zero": ZERO, "scalar": Val("expr", ("Expr",)), "matrix": Mat("matrix", ("MatrixBase", "Matrix", "MutableDenseMatrix")),
                 "immutable": Mat("immutable_matrix", ("MatrixBase", "Expr", "ImmutableMatrix", "ImmutableDenseMatrix")),
                 "ndarray": Val("c_number_array", ("ndarray",)), "sparse": Val("c_number_sparse_array", ("sparray",))}[kind]

        class Horig(Model):
            def m_getitem(s, e, key):
                reads.append(key)
                return value

        def sym_matrix(e, rows):
            if rows is value and kind == "ndarray":
                return Mat("matrix-of-the-array", ("MatrixBase", "Matrix", "MutableDenseMatrix"))
            if kind == "sparse" and isinstance(rows, T) and rows.head == ".toarray" and rows.args[0] is value:
                return Mat("matrix-of-the-densified-array", ("MatrixBase", "Matrix", "MutableDenseMatrix"))
            r = e.as_seq(rows)
            inner = e.as_seq(r.items[0])
            if len(r.items) == 1 and len(inner.items) == 1:
                return Mat("wrapped-1x1", ("MatrixBase", "Matrix", "MutableDenseMatrix")) if inner.items[0] is value else T("?")
            raise Unsupported("sympy.Matrix of another shape")
        MatrixCls = Builtin("sympy.Matrix", sym_matrix)
        MatrixCls.name = "Matrix"
        nof_calls = []
        eng.globals.update({"zero": ZERO,
                            "sympy": Namespace("sympy", {"MatrixBase": TypeObj("MatrixBase"), "Matrix": MatrixCls, "Expr": TypeObj("Expr")}),
                            "np": Namespace("np", {"ndarray": TypeObj("ndarray")}),
                            "sparse": Namespace("sparse", {"issparse": Builtin("issparse", lambda e, x: isinstance(x, Val) and "sparray" in x.kinds)}),
                            "NumberOrderedForm": Namespace("NumberOrderedForm", {"from_expr": Builtin("from_expr", lambda e, x, ops=None: (nof_calls.append((x, ops)), T("from_expr", x, ops))[1])})})
        env = Env(None, {"H_orig": Horig(), "scalar_input": scalar_input, "operators": OPS})
        idx = STup([SI(eng.fresh("i")), SI(eng.fresh("j")), SI(eng.fresh("n"))])
        res = eng.call(Closure(node, env, "H_eval"), [], {"__star__": idx}) if False else eng.call(Closure(node, env, "H_eval"), list(idx.items), {})
        eng.oblige("reads-the-original-series-once-at-the-requested-index", z3.BoolVal(len(reads) == 1 and len(eng.as_seq(reads[0]).items) == 3 and all(a is b for a, b in zip(eng.as_seq(reads[0]).items, idx.items))),
                   detail=repr(reads)[:200])
        if kind == "zero":
            return eng.oblige("zero-stays-zero", z3.BoolVal(res is ZERO))
        eng.oblige("never-returns-None-for-a-term", z3.BoolVal(res is not None), detail="a term that is neither zero nor converted would silently become None")
        if res is None:
            return
        ok = isinstance(res, T) and res.head == "applyfunc" and isinstance(res.args[1], T) and res.args[1].head == "from_expr" and res.args[1].args[1] is OPS \
            and isinstance(res.args[1].args[0], T) and res.args[1].args[0].head == "entry"
        eng.oblige("every-entry-converted-to-number-ordered-form-over-the-common-operators", z3.BoolVal(ok), detail=repr(res)[:200])
        if ok:
            src = res.args[0]
            if kind == "scalar":
                eng.oblige("scalar-term-wrapped-into-a-1x1-matrix", z3.BoolVal(scalar_input and src.head == "wrapped-1x1"), detail=repr(src))
            elif kind in ("ndarray", "sparse"):
                eng.oblige("numeric-term-converted-to-the-sympy-matrix-of-its-entries",
                           z3.BoolVal(src.head == ("matrix-of-the-array" if kind == "ndarray" else "matrix-of-the-densified-array")), detail=repr(src))
            else:
                eng.oblige("matrix-term-converted-entry-wise-as-it-is", z3.BoolVal(src is value), detail=repr(src))
    return run_unit(f"block_diagonalization:block_diagonalize/H_eval[{kind},scalar_input={scalar_input}]", harness,
                    functions=[("block_diagonalization", "block_diagonalize/H_eval")], timeout_ms=timeout_ms)


def unit_postprocessing_eval(kind, scalar_input, timeout_ms=20000):
    """kind: 'zero' | 'one' | 'matrix1x1' | 'matrix'"""
    node = frontend.find("block_diagonalization", "block_diagonalize/create_postprocessing_eval/postprocessing_eval")

    def harness(eng):
        from contracts.formats import T
        from pyvc.models import ONE
        reads = []
        entry_is_nof = eng.fresh("entry_is_a_NumberOrderedForm", "bool")

        class Entry(T):
            def m_isinstance(s, e, c):
                if c == "NumberOrderedForm":
                    return e.branch(entry_is_nof)
                return False

            def m_getattr(s, e, name):
                if name == "_poly_simplify":
                    return Builtin("_poly_simplify", lambda e2: T("simplified", s))
                return super().m_getattr(e, name)

        class Mat(T):
            def __init__(s, head, shape):
                super().__init__(head)
                s.kinds = ("MatrixBase",)
                s.shape = STup([shape[0], shape[1]])

            def m_getattr(s, e, name):
                if name == "applyfunc":
                    def af(e2, fn):
                        x = Entry("entry")
                        m = Mat("applied", (s.shape.items[0], s.shape.items[1]))
                        m.fn_result, m.src, m.entry = e2.call(fn, [x], {}), s, x
                        return m
                    return Builtin("applyfunc", af)
                return super().m_getattr(e, name)

            def m_getitem(s, e, key):
                k = e.as_seq(key)
                if len(k.items) == 2 and all(isinstance(x, int) and x == 0 for x in k.items):
                    return T("entry00", s)
                raise Unsupported("matrix index")
        value = {"zero": ZERO, "one": ONE, "matrix1x1": Mat("result", (1, 1)), "matrix": Mat("result", (2, 3))}[kind]

        class Series(Model):
            def m_getitem(s, e, key):
                reads.append(key)
                return value
        eng.globals.update({"sympy": Namespace("sympy", {"MatrixBase": TypeObj("MatrixBase")}), "NumberOrderedForm": TypeObj("NumberOrderedForm")})
        env = Env(None, {"block_series": Series(), "scalar_input": scalar_input})
        idx = [SI(eng.fresh("i")), SI(eng.fresh("j")), SI(eng.fresh("n"))]
        res = eng.call(Closure(node, env, "postprocessing_eval"), idx, {})
        eng.oblige("reads-the-wrapped-series-once-at-the-requested-index", z3.BoolVal(len(reads) == 1 and all(a is b for a, b in zip(eng.as_seq(reads[0]).items, idx))))
        if kind in ("zero", "one"):
            return eng.oblige("sentinels-pass-through", z3.BoolVal(res is value))
        unwrap = scalar_input and kind == "matrix1x1"
        m = res.args[0] if (unwrap and isinstance(res, T) and res.head == "entry00") else res
        eng.oblige("1x1-result-of-a-scalar-Hamiltonian-is-unwrapped-and-nothing-else", z3.BoolVal((isinstance(res, T) and res.head == "entry00") == unwrap), detail=repr(res)[:200])
        ok = isinstance(m, Mat) and m.head == "applied" and m.src is value
        eng.oblige("entries-processed-entry-wise-on-the-value-read", z3.BoolVal(ok), detail=repr(m)[:200])
        if ok:
            r = m.fn_result
            simplified = isinstance(r, T) and r.head == "simplified" and r.args[0] is m.entry
            eng.oblige("number-ordered-entries-are-simplified-other-entries-untouched", z3.If(entry_is_nof, z3.BoolVal(simplified), z3.BoolVal(r is m.entry)), detail=repr(r)[:200])
    return run_unit(f"block_diagonalization:block_diagonalize/postprocessing_eval[{kind},scalar_input={scalar_input}]", harness,
                    functions=[("block_diagonalization", "block_diagonalize/create_postprocessing_eval/postprocessing_eval")], timeout_ms=timeout_ms)
