"""C10 frame condition: nothing reachable by the caller (inputs, values already returned, cached
series elements) is modified.  One obligation per store site of every function under contract
(pyvc/effects.py); a site must write to an object allocated in the same activation, to the
object's own state, or be on the reviewed list below (each with its justification)."""
from __future__ import annotations

import time

from pyvc import effects, frontend
from pyvc.core import Obligation
from pyvc.unit import UnitResult

TARGETS = {
    "series": ["BlockSeries", "cauchy_dot_product", "product_by_order"],
    "algorithm_parsing": ["series_computation", "_zero_sum", "_safe_divide"],
    "block_diagonalization": [
        "block_diagonalize", "operator_to_BlockSeries", "_preprocess_sylvester", "solve_sylvester_diagonal", "solve_sylvester_KPM",
        "_group_close_energies", "solve_sylvester_direct", "_list_to_dict", "_dict_to_BlockSeries", "_symbolic_keys_to_tuples",
        "_sympy_to_BlockSeries", "_to_scalar_BlockSeries", "_unpack_blocks", "_subspaces_from_indices",
        "_normalize_subspace_eigenvectors", "_extract_diagonal", "_convert_if_zero", "_check_biorthonormality"],
    "linalg": ["_kernel_pivot_rows", "_constrain_matrix", "direct_greens_function", "ComplementProjector", "aslinearoperator", "is_diagonal"],
    "kpm": ["greens_function", "kpm_vectors", "rescale", "jackson_kernel"],
    "second_quantization": ["solve_scalar", "solve_sylvester_2nd_quant", "apply_mask_to_operator"],
}

# function-suffix :: statement-fragment  ->  justification (reviewed by hand, see DESIGN.md C10)
REVIEWED = {
    "BlockSeries.pop::self._data.pop(item, default)": "the series' own cache; values are unaffected by deletion (cache invariant, C10/L1)",
    "BlockSeries.__getitem__::data[index] = PENDING": "the series' own cache (in-flight marker); protocol proved in the __getitem__ unit",
    "BlockSeries.__getitem__::data[index] = self.eval(*index)": "the series' own cache; protocol proved in the __getitem__ unit",
    "BlockSeries.__getitem__::data.pop(index, None)": "the series' own cache (cleanup after an exception); proved in the __getitem__ unit",
    "series_computation::series[term.name] = BlockSeries(": "adds the computed series to the dictionary that is returned; block_diagonalize passes a fresh literal {'H': H}",
    "series_computation::which[product.name] = cauchy_dot_product(": "adds product series to the two dictionaries created/returned by this call",
    "series_computation/del_#0::series[series_name].pop(index, None)": "cache deletion of a non-output, non-input, non-start element (obligations delete:* of the evaluator units)",
    "series_computation/del_#0::linear_operator_series[series_name].pop(index, None)": "as above for the linear-operator twin",
    "operator_to_BlockSeries::operator.name = name or operator.name": "renames the (possibly caller-supplied) BlockSeries; its elements and data are untouched - reported in evidence as an observation, not an element mutation",
    "solve_sylvester_diagonal/solve_sylvester#0::index_checked.add(index[:2])": "the solver's own memo of checked block pairs; executed only after the check succeeded (C11)",
    "_dict_to_BlockSeries::operator[zeroth_order] = sparse.csr_array(": "`operator` was rebound to copy(operator) at the top of the function: the caller's dictionary is not written",
    "direct_greens_function::ctx.set_matrix(": "MUMPS context created in this call; the matrix passed is a fresh coo copy (MUMPS path not installed here)",
    "direct_greens_function/solve#0::ctx.solve(v, overwrite_b=True)": "v is the projected copy made in greens_function (MUMPS path not installed here)",
    "ComplementProjector._transpose::self._transpose_operator": "memoised partner operator of the projector itself",
    "ComplementProjector.conjugate::self._conjugate_operator": "memoised partner operator of the projector itself",
    "ComplementProjector.conjugate::self._transpose_operator = self._conjugate_operator": "memoised partner operator of the projector itself",
    "ComplementProjector._adjoint::self._adjoint_operator": "memoised partner operator of the projector itself",
    "solve_scalar::result -= result.adjoint()": "NumberOrderedForm is an immutable sympy object: `-=` rebinds the local name (no __isub__)",
    "solve_sylvester_2nd_quant/solve_sylvester#0::eigs[index[": "the solver's own tuple of eigenvalue lists built in solve_sylvester_2nd_quant",
    "apply_mask_to_operator::value, mask[i, j] = value._combine_operators(mask[i, j])": "mask is the private numpy copy made by block_diagonalize; the entry is replaced by the same operator with an extended operator list (denotation unchanged)",
}

MODULE_NAMES = {"np", "sparse", "sympy", "ma", "warnings", "scipy"}


def unit_frame():
    res = UnitResult("frame:store-sites-of-functions-under-contract")
    t0 = time.time()
    try:
        used = set()
        for module, qps in TARGETS.items():
            for qp in qps:
                res.functions.append(frontend.describe(module, qp))
            for site, cls, why in effects.analyse(module, qps, REVIEWED):
                if site.base in MODULE_NAMES:
                    continue  # np.sort(...), np.resize(...) are functions returning new arrays
                ok = cls in ("fresh-local", "own", "reviewed")
                name = f"frame/{site.func}/L{getattr(site.node, 'lineno', 0)}:{site.kind}"
                res.obligations.append(Obligation(name, "frame", "proved" if ok else "refuted",
                                                  f"{site.text} -- {cls}: {why}", None, 0.0, "effects", None))
        res.paths = 1
    except Exception as e:
        res.engine_error = f"{type(e).__name__}: {e}"
    res.wall = time.time() - t0
    res.used_models.add("frame analysis is syntactic: allocation = literal / comprehension / arithmetic result / constructor or copy call (pyvc/effects.py ALLOC_CALLS)")
    if not res.obligations and not res.engine_error:
        res.engine_error = "vacuity guard: no store sites found"
    return res
