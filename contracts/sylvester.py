"""Contract of block_diagonalization.solve_sylvester_diagonal(...).solve_sylvester (C16, C20; solver
fields of the Lean setting used by C01-C05).

Pointwise specification (DESIGN.md Appendix B), with E = eigs[index[0]], F = eigs[index[1]], d_ab = E_a - F_b:
  Y is zero                          -> zero
  first use of an off-diagonal pair  -> ValueError iff some pair (a,b) has isclose(E_a,F_b) or |d_ab| <= atol
                                        (np.equal for symbolic input); the pair is recorded only on success
  dense / sparse (stored entries)    -> V_ab = Y_ab / d_ab if |d_ab| > atol else 0
  sympy                              -> V_ab = Y_ab / d_ab if d_ab != 0 else 0
Consequences proved from the formula: E_a V_ab - V_ab F_b = Y_ab wherever the solver divides; an accepted
off-diagonal pair divides everywhere (no silent zero, all values finite); adjoint compatibility on a
diagonal block with real energies.
"""
from __future__ import annotations

import ast

import z3

from pyvc import frontend, pw
from pyvc.core import Closure, Env, STup, SI, SB, SExc, Model, Builtin, Namespace, TypeObj, PyRaise, Unsupported, wrap_bool, zi
from pyvc.models import ZERO, SObj
from pyvc.pw import Cx, PArr, PSparse, PSym, SymVal, cx_if, R0
from pyvc.unit import run_unit

MODULE = "block_diagonalization"

_dim = z3.Function("block_dim", z3.IntSort(), z3.IntSort())
_Er = z3.Function("E_re", z3.IntSort(), z3.IntSort(), z3.RealSort())
_Ei = z3.Function("E_im", z3.IntSort(), z3.IntSort(), z3.RealSort())
_Yr = z3.Function("Y_re", z3.IntSort(), z3.IntSort(), z3.RealSort())
_Yi = z3.Function("Y_im", z3.IntSort(), z3.IntSort(), z3.RealSort())
_stored = z3.Function("Y_stored", z3.IntSort(), z3.IntSort(), z3.BoolSort())


class SEigs(Model):
    """`eigs`: one entry per block.  An identically zero H_0 block is represented by the 0-d array np.array(0)
    (postcondition of _extract_diagonal); `zero_block` is the (symbolic) index of such a block, if any."""

    def __init__(self, nblocks, sym=False, real=False, zero_block=None):
        self.nblocks, self.sym, self.real, self.zero_block = nblocks, sym, real, zero_block

    def energy(self, b, a):
        e = Cx(_Er(b, a), R0 if self.real else _Ei(b, a))
        if self.zero_block is not None:
            return cx_if(b == self.zero_block, Cx(R0), e)
        return e

    def m_getitem(self, eng, key):
        b = zi(key)
        eng.oblige(f"eigs-index-in-range@{eng.site()}", z3.And(b >= 0, b < self.nblocks))
        if self.zero_block is not None and eng.branch(b == self.zero_block):
            if self.sym:
                return PSym([], lambda i: SymVal(Cx(R0)), f"eigs[{b}]=0", is_matrix=False)
            return PArr([], lambda i: Cx(R0), "num", False, f"eigs[{b}]=0")
        if self.sym:
            return PSym([_dim(b)], lambda i: SymVal(self.energy(b, i[0])), f"eigs[{b}]", is_matrix=False)
        return PArr([_dim(b)], lambda i: self.energy(b, i[0]), "num", False, f"eigs[{b}]")

    def m_len(self, eng):
        return SI(self.nblocks)


class SCheckedSet(Model):
    def __init__(self, eng):
        self.was_checked = eng.fresh("pair_already_checked", "bool")
        self.adds = []
        self.queried = []

    def m_contains(self, eng, item):
        self.queried.append(item)
        return SB(self.was_checked)

    def m_getattr(self, eng, name):
        if name == "add":
            return Builtin("set.add", lambda e, x: self.adds.append(x))
        raise Unsupported(f"set.{name}")


def make_harness(kind, atol_none=False, canary=False, real_energies=False, zero_block=None):
    """kind in {'zero','dense','sparse','sympy'}"""
    outer = frontend.find(MODULE, "solve_sylvester_diagonal")
    inner = frontend.find(MODULE, "solve_sylvester_diagonal/solve_sylvester")

    def harness(eng):
        B = z3.Int("n_blocks")
        i, j = z3.Ints("i j")
        eng.assume(z3.And(B >= 1, i >= 0, i < B, j >= 0, j < B))
        eng.assume(_dim(i) >= 0)
        eng.assume(_dim(j) >= 0)
        atol = z3.Real("atol")
        eng.assume(atol >= 0)
        zb_ = None
        if zero_block == "row":
            zb_ = i
        elif zero_block == "col":
            zb_ = j
        eigs = SEigs(B, sym=(kind == "sympy"), real=real_energies, zero_block=zb_)
        if zero_block is not None:
            eng.assume(i != j)
        checked = SCheckedSet(eng)
        eng.isclose_fn = z3.Function("isclose", z3.RealSort(), z3.RealSort(), z3.RealSort(), z3.RealSort(), z3.BoolSort())
        sparse_ns = Namespace("sparse", {
            "issparse": Builtin("issparse", lambda e, x: isinstance(x, PSparse)),
            "csr_array": Builtin("csr_array", lambda e, a, shape=None: pw.csr_from_coo(e, a, shape)),
        })
        sympy_ns = Namespace("sympy", {
            "MatrixBase": TypeObj("MatrixBase"), "zoo": pw.ZOO, "S": Namespace("S", {"Zero": 0, "One": 1}),
            "Matrix": Builtin("sympy.Matrix", lambda e, x: PSym(x.shape, x.elem, "Matrix", True)),
        })
        def convert_if_zero(e, value, atol=None):
            """callee contract of _convert_if_zero (its own unit: contracts/bd_guards): the sentinel iff every entry of a dense value is within atol
            (default 1e-12) / a sparse value stores no non-zero / a symbolic value is identically zero; the value itself otherwise"""
            if value is ZERO:
                return ZERO
            e.used_models.add("callee contract _convert_if_zero: sentinel iff all entries within atol (dense) / none stored (sparse) / identically zero (symbolic)")
            allz = e.fresh("convert_if_zero_all_small", "bool")
            if isinstance(value, PArr):
                t = atol.e if isinstance(atol, SReal) else (z3.RealVal("1e-12") if atol is None else z3.RealVal(atol))
                va = Cx.of(value.elem([a_w, b_w]))
                e.assume(z3.Implies(allz, pw.AbsVal(va).cmp(ast.LtE(), t)))
            else:
                va = value.elem([a_w, b_w])
                va = va.val if isinstance(va, SymVal) else Cx.of(va)
                e.assume(z3.Implies(allz, va.is_zero()))
            return ZERO if e.branch(allz) else value
        a_w, b_w = z3.Ints("a b")
        eng.globals.update({"np": pw.make_np(), "sparse": sparse_ns, "sympy": sympy_ns,
                            "Dagger": Builtin("Dagger", pw.dagger), "_convert_if_zero": Builtin("_convert_if_zero", convert_if_zero)})
        env = Env(None, {"eigs": eigs, "vecs_implicit": None, "atol": (None if atol_none else SReal(atol)), "index_checked": checked})
        clo = Closure(inner, env, "solve_sylvester")
        env.set("solve_sylvester", clo)   # the nested function can see its own name
        da, db = _dim(i), _dim(j)
        if kind == "zero":
            Y = ZERO
        elif kind == "dense":
            Y = PArr([da, db], lambda ix: Cx(_Yr(ix[0], ix[1]), _Yi(ix[0], ix[1])), "num", False, "Y")
        elif kind == "sparse":
            Y = PSparse([da, db], lambda ix: _stored(ix[0], ix[1]), lambda ix: Cx(_Yr(ix[0], ix[1]), _Yi(ix[0], ix[1])), "Y")
        else:
            Y = PSym([da, db], lambda ix: SymVal(Cx(_Yr(ix[0], ix[1]), _Yi(ix[0], ix[1]))), "Y", True)
        index = STup([SI(i), SI(j), SI(z3.Int("order"))])
        a, b = z3.Ints("a b")
        eng.assume(z3.And(a >= 0, a < da, b >= 0, b < db))
        Ea, Fb = eigs.energy(i, a), eigs.energy(j, b)
        d = Ea - Fb
        absd = pw.AbsVal(d)
        isclose_ab = eng.isclose_fn(Ea.re, Ea.im, Fb.re, Fb.im)
        # facts about np.isclose used by the proofs (default tolerances): equal values are close
        eng.assume(z3.Implies(Ea.eq(Fb), isclose_ab))
        offdiag_first_use = z3.And(i != j, z3.Not(checked.was_checked))
        try:
            res = eng.call(clo, [Y, index], {})
        except PyRaise as pr:
            exc = pr.exc
            eng.oblige("raises-only-ValueError", z3.BoolVal(exc.cls == "ValueError"), detail=f"{exc.cls} {exc.args}")
            eng.oblige("raises-only-on-first-use-of-offdiagonal-pair", z3.And(offdiag_first_use, z3.BoolVal(kind != "zero")),
                       detail="the shared-eigenvalue error is raised only when an off-diagonal block pair is used for the first time")
            eng.oblige("raise-leaves-pair-unrecorded", z3.BoolVal(not checked.adds), detail="the pair is recorded as checked only after a successful check (C11)")
            return
        if kind == "zero":
            eng.oblige("zero-rhs-gives-zero", z3.BoolVal(res is ZERO))
            eng.oblige("zero-rhs-no-check", z3.BoolVal(not checked.adds))
            return
        # accepted: instantiate the np.any facts at (a, b)
        z0 = z3.IntVal(0)
        # (broadcast shapes when a block's energies are a 0-d array: the witness index lives on the broadcast shape)
        pw.instantiate_any(eng, [[a, b], [a, z0], [z0, b], [z0, z0]] if zero_block is not None else [[a, b]])
        if kind == "sympy":
            shared_ab = Ea.eq(Fb)
        elif atol_none:
            shared_ab = isclose_ab
        else:
            shared_ab = z3.Or(isclose_ab, absd.cmp(ast.LtE(), atol))
        if eng.branch(offdiag_first_use):
            eng.oblige("accepted-pair-has-no-shared-eigenvalue", z3.Not(shared_ab),
                       detail="if no error is raised on first use, no pair of energies of the two blocks is close / within atol")
            ok = len(checked.adds) == 1
            eng.oblige("accepted-pair-recorded", z3.BoolVal(ok))
            if ok:
                k = eng.as_seq(checked.adds[0])
                eng.oblige("recorded-key-is-the-block-pair", z3.And(zi(k.items[0]) == i, zi(k.items[1]) == j, z3.BoolVal(len(k.items) == 2)))
            if not atol_none and kind != "sympy":
                eng.oblige("accepted-pair-implies-nonzero-denominator", absd.cmp(ast.Gt(), atol),
                           detail="an accepted off-diagonal pair is divided everywhere: no element is silently left uneliminated (C20)")
        else:
            eng.oblige("no-recheck", z3.BoolVal(not checked.adds))
        # value
        Yab = Cx(_Yr(a, b), _Yi(a, b))
        if kind == "dense":
            want = cx_if(absd.cmp(ast.Gt(), atol), Yab / d, Cx(R0))
            if canary:
                want = cx_if(absd.cmp(ast.GtE(), atol), Yab / d, Cx(R0))
            got = Cx.of(res.elem([a, b])) if isinstance(res, PArr) else None
            eng.oblige("dense:returns-array-of-rhs-shape", z3.BoolVal(isinstance(res, PArr) and len(res.shape) == 2))
            if got is not None:
                eng.oblige("dense:element-is-rhs-over-energy-difference-or-zero", got.eq(want),
                           detail="V_ab = Y_ab/(E_a-F_b) if |E_a-F_b| > atol else 0")
        elif kind == "sparse":
            okres = isinstance(res, pw.PSparseFromCoo) and res.coo.sp is Y
            eng.oblige("sparse:result-has-the-stored-pattern-of-rhs", z3.BoolVal(okres))
            if okres:
                kk = eng.fresh("entry")
                eng.assume(z3.And(kk >= 0, kk < res.coo.nnz))
                ra, cb = res.coo.rowf(kk), res.coo.colf(kk)
                eng.assume(z3.And(ra >= 0, ra < da, cb >= 0, cb < db))
                E2, F2 = eigs.energy(i, ra), eigs.energy(j, cb)
                d2 = E2 - F2
                want = cx_if(pw.AbsVal(d2).cmp(ast.Gt(), atol), Cx(_Yr(ra, cb), _Yi(ra, cb)) / d2, Cx(R0))
                got = Cx.of(res.data.elem([kk]))
                eng.oblige("sparse:entry-is-rhs-over-energy-difference-or-zero", got.eq(want),
                           detail="stored entry k at (row,col): Y/(E_row-F_col) if |E_row-F_col| > atol else 0; no division by zero is used")
        else:
            okres = isinstance(res, PSym)
            eng.oblige("sympy:returns-matrix", z3.BoolVal(okres))
            if okres:
                v = res.elem([a, b])
                want = cx_if(d.is_zero(), Cx(R0), Yab / d)
                eng.oblige("sympy:element-is-rhs-over-energy-difference-or-zero", z3.And(v.val.eq(want), z3.Not(v.zoo)),
                           detail="V_ab = Y_ab/(E_a-F_b), complex infinity replaced by 0 where E_a = F_b")
    return harness


SReal = pw.SReal


def unit_sylvester_diagonal(kind, timeout_ms=20000, canary=False, atol_none=False, zero_block=None):
    """zero_block in {None, 'row', 'col'}: the row / column block of the pair is an identically zero H_0 block (0-d energies)"""
    nm = f"block_diagonalization:solve_sylvester_diagonal/solve_sylvester[{kind}{',atol=None' if atol_none else ''}{',zero ' + zero_block + ' block' if zero_block else ''}]" + ("[canary]" if canary else "")
    return run_unit(nm, make_harness(kind, atol_none=atol_none, canary=canary, zero_block=zero_block),
                    functions=[(MODULE, "solve_sylvester_diagonal/solve_sylvester")], timeout_ms=timeout_ms)


def unit_sylvester_formula(timeout_ms=20000):
    """Consequences of the pointwise formula V_ab = Y_ab / (E_a - F_b) (pure arithmetic lemmas, nlsat)."""
    def harness(eng):
        dr, di, yr, yi, er, ei, fr, fi = z3.Reals("dr di yr yi er ei fr fi")
        d, y = Cx(dr, di), Cx(yr, yi)
        E, F = Cx(er, ei), Cx(fr, fi)
        eng.assume(z3.And(dr == er - fr, di == ei - fi, dr * dr + di * di > 0))
        V = y / d
        eng.oblige_nra("solves-sylvester:E_a*V_ab-V_ab*F_b=Y_ab", (E * V - V * F).eq(y),
                       detail="with V_ab = Y_ab/(E_a-F_b) and E_a != F_b (complex energies allowed)")
        # adjoint compatibility on a diagonal block with real energies: V(Y^dagger)_ab = -conj(V(Y)_ba)
        eng.assume(z3.And(ei == 0, fi == 0))
        lhs = y.conj() / Cx(dr)            # (Y^dagger)_ab = conj(Y_ba) =: conj(y), divided by E_a - E_b
        rhs = -((y / Cx(-dr)).conj())      # -conj( Y_ba / (E_b - E_a) )
        eng.oblige_nra("adjoint-compatible-for-real-energies", lhs.eq(rhs),
                       detail="Sy(Y^dagger) = -Sy(Y)^dagger element-wise on a diagonal block when the energies are real (Hermitian mode)")
    return run_unit("block_diagonalization:solve_sylvester_diagonal/formula-lemmas", harness, timeout_ms=timeout_ms)
