"""Contracts of the input-format normalisation in block_diagonalization.py (C13, C14).

  _list_to_dict            [h_0, h_1, ..., h_n] -> {0: h_0, e_k: h_k}
  _symbolic_keys_to_tuples monomial keys -> exponent vectors in name-sorted symbol order; prefactors rejected
  _dict_to_BlockSeries     keys and values kept (zeroth order only re-wrapped value-preservingly); input dict not mutated
  _sympy_to_BlockSeries    derivative_eval(n) = d/ds_k (derivative[n - e_k]) / n_k  with k the first non-zero axis
                           (so derivative[n] = prod_k (1/n_k!) d^{n_k}/ds_k^{n_k} H by induction, A-MATH: partial derivatives commute);
                           op_eval(n) = convert_if_zero(derivative[n]|_{s=0} * prod_k s_k^{n_k})
  _unpack_blocks.op_eval   element [i][j] of the nested list at that order; zero if the order is zero
  _subspaces_from_indices  block b = identity columns of the states labelled b, in order of appearance
  operator_to_BlockSeries.op_eval   = convert_if_zero(L_i^dagger A R_j) (also through the Hermitian shortcut for i > j)
Library calls are modelled as uninterpreted term constructors (sympy diff / subs / expand, scipy csr_array, copy):
the contracts pin down how the code combines them, not what they compute (A-SY3, A-SC).
"""
from __future__ import annotations

import ast

import z3

from pyvc import frontend
from pyvc.core import Closure, Env, STup, SI, SB, SExc, Model, Builtin, Namespace, TypeObj, PyRaise, Unsupported, SymKey, zi
from pyvc.models import ZERO, ONE
from pyvc.unit import run_unit

MODULE = "block_diagonalization"


class T(Model):
    """Opaque library value as a first-order term.  Structural equality; integer arguments may be symbolic."""

    def __init__(self, head, *args, kind=None):
        self.head, self.args, self.kind = head, args, kind

    def __repr__(self):
        return f"{self.head}({', '.join(map(repr, self.args))})" if self.args else self.head

    METHODS = {"diff", "subs", "expand", "copy", "toarray", "conj", "adjoint", "diagonal"}

    def m_getattr(self, eng, name):
        if name in self.METHODS:
            return Builtin(f"{self.head}.{name}", lambda e, *a, **kw: T("." + name, self, *a))
        if name == "free_symbols" and self.kind == "sympy":
            return self.free
        if name == "is_hermitian":
            # sympy three-valued logic: False / True / None, chosen by the environment
            if not hasattr(self, "_herm"):
                if eng.branch(eng.fresh("is_hermitian_is_False", "bool")):
                    self._herm = False
                elif eng.branch(eng.fresh("is_hermitian_is_True", "bool")):
                    self._herm = True
                else:
                    self._herm = None
                eng.herm_seen = self._herm
            return self._herm
        if name == "atoms":
            return Builtin("atoms", lambda e, *a: STup([], None, True))
        if name == "shape" and hasattr(self, "shape"):
            return self.shape
        if name == "T":
            return T("attr:T", self)
        raise Unsupported(f"term.{name}")

    def m_binop(self, eng, op, other, reflected):
        l, r = (other, self) if reflected else (self, other)
        return T(type(op).__name__, l, r)

    def m_isinstance(self, eng, clsname):
        return clsname in (self.kinds if hasattr(self, "kinds") else ())

    def m_truth(self, eng):
        return True

    def m_unop(self, eng, op):
        return T(type(op).__name__, self)


def term_eq(eng, a, b):
    """z3 condition for structural equality of two terms (None if the shapes differ)."""
    if isinstance(a, T) and isinstance(b, T):
        if a.head != b.head or len(a.args) != len(b.args):
            return z3.BoolVal(False)
        cs = [term_eq(eng, x, y) for x, y in zip(a.args, b.args)]
        return z3.And(*cs) if cs else z3.BoolVal(True)
    if isinstance(a, (int, SI)) and isinstance(b, (int, SI)) and not isinstance(a, bool) and not isinstance(b, bool):
        return zi(a) == zi(b)
    if isinstance(a, dict) and isinstance(b, dict):
        if set(a) != set(b):
            return z3.BoolVal(False)
        cs = [term_eq(eng, a[k], b[k]) for k in a]
        return z3.And(*cs) if cs else z3.BoolVal(True)
    if isinstance(a, STup) and isinstance(b, STup) and a.tail is None and b.tail is None:
        if len(a.items) != len(b.items):
            return z3.BoolVal(False)
        cs = [term_eq(eng, x, y) for x, y in zip(a.items, b.items)]
        return z3.And(*cs) if cs else z3.BoolVal(True)
    return z3.BoolVal(a is b or (type(a) is type(b) and not isinstance(a, Model) and a == b))


# ------------------------------------------------------------------------------------------------
def unit_list_to_dict(nparam, timeout_ms=10000):
    fn = frontend.find(MODULE, "_list_to_dict")

    def harness(eng):
        ops = [T(f"h_{k}") for k in range(nparam + 1)]

        def eye(e, n, dtype=None):
            if not isinstance(n, int):
                raise Unsupported("np.eye of a symbolic size")
            return STup([STup([1 if i == j else 0 for j in range(n)]) for i in range(n)], None, True)
        eng.globals["np"] = Namespace("np", {"eye": Builtin("np.eye", eye)})
        clo = Closure(fn, Env(None, {}), "_list_to_dict")
        arg = STup(list(ops), None, True)
        res = eng.call(clo, [arg], {})
        want = {tuple([0] * nparam): ops[0]}
        for k in range(nparam):
            want[tuple(1 if q == k else 0 for q in range(nparam))] = ops[k + 1]
        ok = isinstance(res, dict) and set(res) == set(want)
        eng.oblige("keys-are-zero-vector-and-unit-vectors", z3.BoolVal(ok), detail=f"got keys {sorted(res) if isinstance(res, dict) else res!r}")
        if ok:
            eng.oblige("perturbation-k-is-stored-under-unit-vector-e_k", z3.BoolVal(all(res[k] is want[k] for k in want)),
                       detail="value under (0,..,0) is h_0 and under e_k is h_k (same objects, no transformation)")
        eng.oblige("input-list-not-mutated", z3.BoolVal(arg.items == ops))
    return run_unit(f"block_diagonalization:_list_to_dict[{nparam} perturbations]", harness, functions=[(MODULE, "_list_to_dict")], timeout_ms=timeout_ms)


# ------------------------------------------------------------------------------------------------
class SDerivSeries(Model):
    """operator_derivatives: callers' view of a BlockSeries whose elements are terms D[n]."""

    def __init__(self):
        self.reads = []

    def m_getitem(self, eng, key):
        key = eng.as_seq(key)
        self.reads.append(key)
        return T("D", *key.items)

    def m_setattr(self, eng, name, value):
        if name == "eval":
            self.eval = value
            return
        raise Unsupported(f"operator_derivatives.{name} = ...")


def unit_taylor(ninf, timeout_ms=10000, canary=False, check_hermitian=False):
    """derivative_eval and op_eval of _sympy_to_BlockSeries for `ninf` symbols and a symbolic multi-order."""
    outer = frontend.find(MODULE, "_sympy_to_BlockSeries")
    d_eval = frontend.find(MODULE, "_sympy_to_BlockSeries/derivative_eval")
    o_eval = frontend.find(MODULE, "_sympy_to_BlockSeries/op_eval")

    def harness(eng):
        syms = [T(f"s_{k}") for k in range(ninf)]
        series = SDerivSeries()
        idx = [z3.Int(f"n_{k}") for k in range(ninf)]
        for n in idx:
            eng.assume(n >= 0)
        index = [SI(n) for n in idx]
        which = eng.fresh("which_closure", "bool")
        conv = Builtin("_convert_if_zero", lambda e, v, atol=None: T("convert_if_zero", v))
        env = Env(None, {"operator_derivatives": series, "symbols": STup(list(syms)), "check_hermitian": check_hermitian, "n_infinite": ninf})
        eng.globals.update({"_convert_if_zero": conv, "Operator": TypeObj("Operator")})
        if eng.branch(which):
            # derivative_eval is only called by BlockSeries.__getitem__ for indices that are not in the initial data: not all zero
            eng.assume(z3.Or(*[n > 0 for n in idx]) if idx else z3.BoolVal(False))
            res = eng.call(Closure(d_eval, env, "derivative_eval"), index, {})
            # expected: first non-zero axis k
            for k in range(ninf):
                first = z3.And(*[idx[q] == 0 for q in range(k)], idx[k] > 0)
                if eng.branch(first):
                    prev = [idx[q] - (1 if q == k else 0) for q in range(ninf)]
                    divisor = idx[k] if not canary else sum(idx)
                    want = T("Div", T(".diff", T("D", *[SI(p) for p in prev]), syms[k]), SI(divisor))
                    eng.oblige("derivative-step:diff-along-first-nonzero-axis-divided-by-that-axis-order", term_eq(eng, res, want),
                               detail=f"derivative[n] = d/ds_k derivative[n - e_k] / n_k with k = first non-zero axis; got {res!r}")
                    eng.oblige("derivative-step:reads-only-the-predecessor", z3.BoolVal(len(series.reads) == 1))
                    return
            eng.oblige("derivative-step:some-axis-is-first", z3.BoolVal(False))
        else:
            eng.herm_seen = "unread"
            try:
                res = eng.call(Closure(o_eval, env, "op_eval"), index, {})
            except PyRaise as pr:
                eng.oblige("op_eval:raises-only-ValueError-for-a-term-known-not-to-be-Hermitian",
                           z3.BoolVal(pr.exc.cls == "ValueError" and check_hermitian and eng.herm_seen is False), detail=f"{pr.exc.cls}")
                return
            if check_hermitian:
                eng.oblige("op_eval:non-Hermitian-term-rejected", z3.BoolVal(eng.herm_seen is not False),
                           detail="with check_hermitian a Taylor coefficient whose is_hermitian is False must raise")
            sub0 = {s: 0 for s in syms}
            expr = T(".subs", T("D", *index), sub0)
            mono = 1
            for s, n in zip(syms, index):
                p = T("Pow", s, n)
                mono = p if mono == 1 and False else T("Mult", mono, p) if not isinstance(mono, int) else (T("Mult", 1, p))
            want = T("convert_if_zero", T("Mult", expr, mono))
            eng.oblige("op_eval:taylor-coefficient-at-zero-times-monomial", term_eq(eng, res, want),
                       detail=f"H_n = convert_if_zero(derivative[n](s=0) * prod s_k^n_k); got {res!r} want {want!r}")
    return run_unit(f"block_diagonalization:_sympy_to_BlockSeries/derivative_eval+op_eval[{ninf} symbols{',check_hermitian' if check_hermitian else ''}]" + ("[canary]" if canary else ""), harness,
                    functions=[(MODULE, "_sympy_to_BlockSeries/derivative_eval"), (MODULE, "_sympy_to_BlockSeries/op_eval")], timeout_ms=timeout_ms)


# ------------------------------------------------------------------------------------------------
class Sym(Model):
    def __init__(self, name, commutative=True):
        self.name, self.commutative = name, commutative

    def __repr__(self):
        return f"Symbol({self.name})"

    def m_getattr(self, eng, name):
        if name == "name":
            return self.name
        if name == "is_commutative":
            return self.commutative
        raise Unsupported(f"Symbol.{name}")

    def m_isinstance(self, eng, clsname):
        return clsname in ("Basic", "Symbol", "Expr")

    def m_binop(self, eng, op, other, reflected):
        if isinstance(op, ast.Eq):
            return other is self          # structural equality of sympy: a symbol equals only itself (never a number)
        l, r = (other, self) if reflected else (self, other)
        return T(type(op).__name__, l, r)


PREFACTOR = T("numeric-prefactor")


class PSet(Model):
    """A Python set of hashable model objects.  Iteration order is chosen by the environment (every permutation is explored)."""

    def __init__(self, elems):
        out = []
        for x in elems:
            if not any(x is y or (isinstance(x, int) and isinstance(y, int) and x == y) for y in out):
                out.append(x)
        self.elems = out

    def __repr__(self):
        return "{" + ", ".join(map(repr, self.elems)) + "}"

    def m_iter(self, eng):
        rest = list(self.elems)
        order = []
        while len(rest) > 1:
            for c in list(rest[:-1]):
                if eng.branch(eng.fresh("set_iteration_picks", "bool")):
                    order.append(c)
                    rest.remove(c)
                    break
            else:
                order.append(rest.pop())
        order += rest
        return STup(order, None, True)

    def m_len(self, eng):
        return len(self.elems)

    def m_truth(self, eng):
        return bool(self.elems)

    def m_binop(self, eng, op, other, reflected):
        if reflected:
            return NotImplemented
        if isinstance(other, PSet):
            oe = other.elems
        elif isinstance(other, STup) and other.tail is None:
            oe = other.items
        else:
            return NotImplemented
        has = lambda x, coll: any(x is y or (isinstance(x, int) and isinstance(y, int) and not isinstance(x, bool) and x == y) for y in coll)  # noqa: E731
        if isinstance(op, ast.Sub):
            return PSet([x for x in self.elems if not has(x, oe)])
        if isinstance(op, ast.BitOr):
            return PSet(self.elems + list(oe))
        return NotImplemented

    def m_contains(self, eng, item):
        return any(item is y for y in self.elems)


class SetType(Model):
    def m_call(self, eng, args, kwargs):
        if not args:
            return PSet([])
        a = args[0]
        if isinstance(a, PSet):
            return PSet(a.elems)
        s = eng.as_seq(a)
        if s.tail is not None:
            raise Unsupported("set of symbolic-length sequence")
        return PSet(s.items)

    def m_getattr(self, eng, name):
        if name == "union":
            def union(e, *sets):
                if not sets:
                    raise PyRaise(SExc("TypeError", ("unbound method set.union() needs an argument",)))
                out = []
                for s in sets:
                    out += s.elems if isinstance(s, PSet) else e.as_seq(s).items
                return PSet(out)
            return Builtin("set.union", union)
        raise Unsupported(f"set.{name}")

    def m_isinstance(self, eng, clsname):
        return False


class Power(Model):
    """The exponent of a symbol in a key: an integer e (any sign), or - when `frac` holds - a non-integer number (sqrt(x), x**(3/2))."""

    def __init__(self, e, frac):
        self.e, self.frac = e, frac

    def m_getattr(self, eng, name):
        if name == "is_Integer":
            return SB(z3.Not(self.frac))
        raise Unsupported(f"power.{name}")

    def m_binop(self, eng, op, other, reflected):
        if isinstance(op, ast.GtE) and not reflected and isinstance(other, int) and other == 0:
            # only ever asked after is_Integer (short-circuit `and`): the sign of the integer exponent
            return SB(self.e >= 0)
        return NotImplemented


class PowersDict(Model):
    def __init__(self, mono):
        self.mono = mono

    def m_getattr(self, eng, name):
        if name == "keys":
            return Builtin("powers.keys", lambda e: self.mono.key_set(e))
        if name == "items":
            def items(e):
                out = [STup([s, Power(self.mono.exps[s], self.mono.frac[s])]) for s in self.mono.present(e)]
                if e.branch(self.mono.pref):
                    out.append(STup([PREFACTOR, 1]))
                elif not out:
                    out.append(STup([1, 1]))
                return STup(out, None, True)
            return Builtin("powers.items", items)
        raise Unsupported(f"as_powers_dict().{name}")

    def m_getitem(self, eng, key):
        if isinstance(key, Sym):
            return SI(self.mono.exps[key]) if key in self.mono.exps else 0   # defaultdict(int)
        raise Unsupported(f"as_powers_dict()[{key!r}]")


class Mono(Model):
    """A sympy power-product key: prod_s s^e_s with e_s an integer of either sign or (flag frac_s) a non-integer, possibly with a numeric prefactor != 1.
    It is a MONOMIAL iff every e_s is a non-negative integer and there is no prefactor."""

    def __init__(self, eng, label, syms, can_have_prefactor=True):
        self.label = label
        self.exps = {s: eng.fresh(f"exp_{label}_{s.name}") for s in syms}
        self.frac = {s: eng.fresh(f"noninteger_power_{label}_{s.name}", "bool") for s in syms}
        self.pref = eng.fresh(f"has_prefactor_{label}", "bool") if can_have_prefactor else z3.BoolVal(False)

    def __repr__(self):
        return f"Mono({self.label})"

    def occurs(self, s):
        return z3.Or(self.exps[s] != 0, self.frac[s])

    def bad_power(self):
        return z3.Or(*[z3.And(self.occurs(s), z3.Or(self.frac[s], self.exps[s] < 0)) for s in self.exps])

    def present(self, eng):
        return [s for s in self.exps if eng.branch(self.occurs(s))]

    def key_set(self, eng):
        els = list(self.present(eng))
        if eng.branch(self.pref):
            els.append(PREFACTOR)
        elif not els:
            els.append(1)           # Integer(1).as_powers_dict() == {1: 1}
        return PSet(els)

    def m_getattr(self, eng, name):
        if name == "free_symbols":
            return PSet(self.present(eng))
        if name == "as_powers_dict":
            return Builtin("as_powers_dict", lambda e: PowersDict(self))
        raise Unsupported(f"monomial.{name}")

    def m_isinstance(self, eng, clsname):
        return clsname in ("Basic", "Expr")


def _sorted(eng, it, key=None, reverse=False):
    s = eng.as_seq(it)
    if s.tail is not None:
        raise Unsupported("sorted of symbolic-length sequence")
    ks = [eng.call(key, [x], {}) if key is not None else x for x in s.items]
    if not all(isinstance(k, (str, int)) for k in ks):
        raise Unsupported("sorted with symbolic keys")
    order = sorted(range(len(ks)), key=lambda i: ks[i], reverse=bool(reverse))
    return STup([s.items[i] for i in order], None, True)


def unit_symbolic_keys(nsym, nkeys, timeout_ms=20000, noncommutative=False, given=False):
    """given=True: the caller supplies `symbols` (all of them, in an order that is NOT the alphabetical one): index k of the result counts powers of the k-th SUPPLIED symbol
    (documented meaning of `symbols`); given=False: the symbols occurring in the keys, sorted by name."""
    fn = frontend.find(MODULE, "_symbolic_keys_to_tuples")
    names = ["k_y", "alpha", "k_x", "beta"][:nsym]          # deliberately not in alphabetical order

    def harness(eng):
        eng.allow_symbolic_keys = True
        syms = [Sym(nm, commutative=not (noncommutative and i == 0)) for i, nm in enumerate(names)]
        keys = [Mono(eng, f"key{q}", syms) for q in range(nkeys)]
        vals = [T(f"value_{q}") for q in range(nkeys)]
        ham = {k: v for k, v in zip(keys, vals)}
        # precondition: the keys of a dict are distinct expressions (distinct monomials unless a prefactor distinguishes them)
        for qa in range(nkeys):
            for qb in range(qa):
                eng.assume(z3.Or(keys[qa].pref, keys[qb].pref, *[z3.Or(keys[qa].exps[s] != keys[qb].exps[s], keys[qa].frac[s], keys[qb].frac[s]) for s in syms]))
        eng.globals.update({"set": SetType(), "sorted": Builtin("sorted", _sorted),
                            "sympy": Namespace("sympy", {"sympify": Builtin("sympify", lambda e, x: x)})})
        supplied = STup(list(syms), None, True) if given else None
        clo = Closure(fn, Env(None, {}), "_symbolic_keys_to_tuples")
        any_pref = z3.Or(*[k.pref for k in keys])
        used = {s: z3.Or(*[k.occurs(s) for k in keys]) for s in syms}
        nc_used = z3.Or(*[used[s] for s in syms if not s.commutative]) if noncommutative else z3.BoolVal(False)
        any_bad_power = z3.Or(*[k.bad_power() for k in keys])
        try:
            res = eng.call(clo, [ham] + ([supplied] if given else []), {})
        except PyRaise as pr:
            eng.oblige("raises-only-ValueError", z3.BoolVal(pr.exc.cls == "ValueError"), detail=pr.exc.cls)
            eng.oblige("raises-only-for-a-prefactor-a-noncommutative-symbol-or-a-power-that-is-no-natural-number", z3.Or(any_pref, nc_used, any_bad_power),
                       detail="ValueError only if some key carries a numerical prefactor, a non-commutative symbol occurs, or a symbol has a negative / non-integer power")
            return
        eng.oblige("prefactor-rejected", z3.Not(any_pref), detail="a key with a numerical prefactor other than 1 must be rejected")
        eng.oblige("negative-or-fractional-power-rejected", z3.Not(any_bad_power), detail="1/x, sqrt(x), x**(3/2) are not monomials: accepting them would create an order index that is never requested")
        eng.oblige("noncommutative-symbol-rejected", z3.Not(nc_used))
        r = eng.as_seq(res)
        new, symbols = r.items[0], eng.as_seq(r.items[1])
        if given:
            want_syms = list(syms)
            ok = len(symbols.items) == len(want_syms) and all(a is b for a, b in zip(symbols.items, want_syms))
            eng.oblige("symbols-are-the-supplied-symbols-in-the-supplied-order", z3.BoolVal(ok), detail=f"got {symbols.items!r}, want {want_syms!r}")
        else:
            want_syms = sorted([s for s in syms if eng.branch(used[s])], key=lambda s: s.name)
            ok = len(symbols.items) == len(want_syms) and all(a is b for a, b in zip(symbols.items, want_syms))
            eng.oblige("symbols-are-the-occurring-symbols-sorted-by-name", z3.BoolVal(ok), detail=f"got {symbols.items!r}, want {want_syms!r}")
        okd = isinstance(new, dict) and len(new) == nkeys and all(isinstance(k, (SymKey, tuple)) for k in new)
        eng.oblige("one-entry-per-input-key", z3.BoolVal(okd), detail=repr(new)[:300])
        if ok and okd:
            for (nk, nv), k, v in zip(new.items(), keys, vals):
                tup = nk.tup.items if isinstance(nk, SymKey) else list(nk)
                cond = z3.And(z3.BoolVal(len(tup) == len(want_syms)), *[zi(t) == k.exps[s] for t, s in zip(tup, want_syms)]) if len(tup) == len(want_syms) else z3.BoolVal(False)
                eng.oblige("key-is-the-exponent-vector-in-symbol-order", cond, detail=f"{k!r} -> {tup!r}")
                eng.oblige("value-unchanged", z3.BoolVal(nv is v))
        eng.oblige("input-dict-not-mutated", z3.BoolVal(list(ham.items()) == list(zip(keys, vals))))
    return run_unit(f"block_diagonalization:_symbolic_keys_to_tuples[{nsym} symbols,{nkeys} keys{',noncommutative' if noncommutative else ''}{',symbols supplied' if given else ''}]", harness,
                    functions=[(MODULE, "_symbolic_keys_to_tuples")], timeout_ms=timeout_ms, max_paths=20000)


# ------------------------------------------------------------------------------------------------
from contracts.linalg_projector import MArr  # noqa: E402
from pyvc.matnf import MNF, MAtom  # noqa: E402


def _herm_canon(nf, herm_atoms):
    """Canonical form under A^H = A for the named atoms: conj(A) = A^T."""
    out = MNF()
    for w, c in nf.t.items():
        w2 = tuple(MAtom(a.name, False, a.t != a.c) if a.name in herm_atoms else a for a in w)
        out = out + MNF({w2: c})
    return out


class SOperatorSeries(Model):
    """The scalar-shaped input series: operator[order] is zero or the matrix A (of that order)."""

    def __init__(self, eng, n):
        self.is_zero = eng.fresh("term_is_zero", "bool")
        self.n = n
        self.reads = []

    def m_getitem(self, eng, key):
        self.reads.append(key)
        if eng.branch(self.is_zero):
            return ZERO
        return MArr(MNF.atom("A"), self.n, self.n, "A")


def unit_operator_op_eval(nblocks, hermitian, implicit, timeout_ms=20000, canary=False):
    """operator_to_BlockSeries/op_eval: block (i, j) of the result is convert_if_zero(L_i^dagger A R_j)."""
    inner = frontend.find(MODULE, "operator_to_BlockSeries/op_eval")

    def harness(eng):
        eng.real_atoms = set()
        n = z3.Int("n")
        eng.assume(n >= 1)
        dims = [eng.fresh(f"dim_{b}") for b in range(nblocks)]
        for dd in dims:
            eng.assume(dd >= 0)
        nexp = nblocks - 1 if implicit else nblocks
        Rs = [MArr(MNF.atom(f"R{b}"), n, dims[b], f"R{b}") for b in range(nexp)]
        # Hermitian mode accepts one basis per subspace: L_b is R_b; otherwise independent left vectors
        Ls = Rs if hermitian else [MArr(MNF.atom(f"L{b}"), n, dims[b], f"L{b}") for b in range(nexp)]
        Q = MArr(MNF.atom("Q"), n, n, "Q")            # ComplementProjector (contract C17: denotes 1 - R L^dagger)
        right = list(Rs) + ([Q] if implicit else [])
        left = [MArr(L.nf.H(), L.cols, L.rows) for L in Ls] + ([Q] if implicit else [])
        series = SOperatorSeries(eng, n)
        converted = []

        zero_events = []

        def convert_if_zero(e, v, atol=None):
            converted.append(v)
            if eng.branch(eng.fresh("block_is_numerically_zero", "bool")):
                zero_events.append(("converted", v))
                return ZERO
            return v

        def dagger(e, x):
            if x is ZERO:
                return ZERO
            return MArr(x.nf.H(), x.cols, x.rows)
        wrapped = []

        def aslinop(e, x):
            wrapped.append(x)
            return x
        i, j = z3.Ints("left right")
        eng.assume(z3.And(i >= 0, i < nblocks, j >= 0, j < nblocks))
        li = next(b for b in range(nblocks) if b == nblocks - 1 or eng.branch(i == b))
        rj = next(b for b in range(nblocks) if b == nblocks - 1 or eng.branch(j == b))
        # Hermitian mode: A^dagger = A (precondition of `hermitian=True`) and Q = 1 - R R^dagger is self-adjoint (C17)
        herm_atoms = {"A", "Q"} if hermitian else set()

        def expected(a, b):
            return _herm_canon(left[a].nf * MNF.atom("A") * right[b].nf, herm_atoms)

        class SOp(Model):
            """the result series itself (recursive use through the Hermitian shortcut): induction hypothesis = this contract"""
            def m_getitem(s, e, key):
                k = e.as_seq(key)
                a, b = k.items[0], k.items[1]
                e.oblige("hermitian-shortcut:recursion-only-to-the-transposed-upper-block", z3.And(zi(a) == rj, zi(b) == li, z3.BoolVal(rj < li)))
                if e.branch(series.is_zero) or e.branch(e.fresh("transposed_block_is_zero", "bool")):
                    zero_events.append(("transposed-block-is-zero", None))
                    return ZERO
                return MArr(left[rj].nf * MNF.atom("A") * right[li].nf, left[rj].rows, right[li].cols)
        env = Env(None, {"hermitian": hermitian, "op": SOp(), "operator": series, "zero": ZERO, "implicit": implicit, "n_blocks": nblocks,
                         "aslinearoperator": Builtin("aslinearoperator", aslinop), "right_projectors": STup(right), "left_projectors": STup(left),
                         "_convert_if_zero": Builtin("_convert_if_zero", convert_if_zero), "atol": T("atol"), "Dagger": Builtin("Dagger", dagger)})
        # inspections of the UNPROJECTED term (its type, whether it is diagonal / sparse) are arbitrary answers: they do not determine its blocks
        eng.globals.setdefault("np", Namespace("np", {"ndarray": TypeObj("ndarray")}))
        eng.globals.setdefault("sparse", Namespace("sparse", {"issparse": Builtin("issparse", lambda e, x: e.branch(e.fresh("term_is_sparse", "bool")))}))
        eng.globals.setdefault("is_diagonal", Builtin("is_diagonal", lambda e, x, atol=None: e.branch(e.fresh("term_is_diagonal", "bool"))))
        order = eng.fresh("order")
        eng.assume(order >= 0)
        res = eng.call(Closure(inner, env, "op_eval"), [SI(i), SI(j), SI(order)], {})
        if res is ZERO:
            # the sentinel is justified only by: the term itself is zero; the PROJECTED block L_i^dagger A R_j was found numerically zero; the transposed block (Hermitian shortcut) is zero.
            # Properties of the unprojected term (diagonal, sparse pattern, ...) say nothing about its blocks in a rotated basis.
            just = z3.BoolVal(False)
            for kind_, v_ in zero_events:
                if kind_ == "transposed-block-is-zero":
                    just = z3.BoolVal(True)
                elif isinstance(v_, MArr) and _herm_canon(v_.nf, herm_atoms) == expected(li, rj):
                    just = z3.BoolVal(True)
            return eng.oblige("zero-only-for-a-zero-term-or-a-numerically-zero-projected-block", z3.Or(just, series.is_zero),
                              detail=f"block ({li},{rj}): zero returned after {[k for k, _ in zero_events]}")
        ok = isinstance(res, MArr)
        eng.oblige("returns-a-matrix-or-zero", z3.BoolVal(ok), detail=repr(res))
        if ok:
            want = expected(li, rj) if not canary else expected(rj, li)
            got = _herm_canon(res.nf, herm_atoms)
            eng.oblige("block-is-L_i^dagger-A-R_j", z3.BoolVal(got == want), detail=f"block ({li},{rj}): got {got!r}, want {want!r}")
            if implicit:
                eng.oblige("implicit:only-the-last-diagonal-block-is-wrapped-as-linear-operator", z3.BoolVal((len(wrapped) == 1) == (li == rj == nblocks - 1)))
    nm = f"block_diagonalization:operator_to_BlockSeries/op_eval[{nblocks} blocks,{'hermitian' if hermitian else 'general'}{',implicit' if implicit else ''}]"
    return run_unit(nm + ("[canary]" if canary else ""), harness, functions=[(MODULE, "operator_to_BlockSeries/op_eval")], timeout_ms=timeout_ms)


# ------------------------------------------------------------------------------------------------
class Rec(Model):
    """Record of a constructor call (BlockSeries(...))."""

    def __init__(self, name, args, kwargs):
        self.name, self.args, self.kwargs = name, args, kwargs
        self.attrs = {}

    def m_setattr(self, eng, name, value):
        self.attrs[name] = value

    def m_getattr(self, eng, name):
        if name in self.attrs:
            return self.attrs[name]
        if name in self.kwargs:
            return self.kwargs[name]
        raise Unsupported(f"{self.name}.{name}")


class Val(T):
    """A Hamiltonian term value with a library type (ndarray / sparse / sympy / nested list)."""

    def __init__(self, name, kinds):
        super().__init__(name)
        self.kinds = kinds


def unit_dict_keys_validated(bad, timeout_ms=10000):
    """_dict_to_BlockSeries rejects malformed keys with ValueError instead of silently ignoring the term they label.
    bad: ragged (keys of different length) | negative (a negative order) | non-tuple (bare integers as keys); fractional orders are left to the battery (illposed)."""
    fn = frontend.find(MODULE, "_dict_to_BlockSeries")

    def harness(eng):
        h0, h1, h2 = Val("h_0", ("sympy",)), Val("h_1", ("sympy",)), Val("h_2", ("sympy",))
        inp = {"ragged": {(0, 0): h0, (1, 0): h1, (1,): h2}, "negative": {(0,): h0, (1,): h1, (-1,): h2}, "non-tuple": {0: h0, 1: h1}}[bad]
        eng.globals.update({"copy": Builtin("copy", lambda e, x: dict(x)), "BlockSeries": Builtin("BlockSeries", lambda e, **kw: T("BlockSeries")),
                            "sympy": Namespace("sympy", {"Basic": TypeObj("Basic")}), "np": Namespace("np", {"ndarray": TypeObj("ndarray")}),
                            "is_diagonal": Builtin("is_diagonal", lambda e, h, atol=None: False),
                            "sparse": Namespace("sparse", {"issparse": Builtin("issparse", lambda e, x: False)})})
        try:
            eng.call(Closure(fn, Env(None, {}), "_dict_to_BlockSeries"), [inp, None, T("atol")], {})
            raised = None
        except PyRaise as pr:
            raised = pr.exc.cls
        eng.oblige("malformed-keys-rejected-with-ValueError", z3.BoolVal(raised == "ValueError"), detail=f"{bad}: raised {raised}")
    return run_unit(f"block_diagonalization:_dict_to_BlockSeries[keys:{bad}]", harness, functions=[(MODULE, "_dict_to_BlockSeries")], timeout_ms=timeout_ms)


def unit_dict_to_blockseries(h0_kind, symbolic_keys=False, timeout_ms=10000):
    """h0_kind in {'ndarray', 'sparse', 'sympy'}"""
    fn = frontend.find(MODULE, "_dict_to_BlockSeries")

    def harness(eng):
        kinds = {"ndarray": ("ndarray",), "sparse": ("sparse",), "sympy": ("MatrixBase",)}[h0_kind]
        h0, h1, h2 = Val("h_0", kinds), Val("h_1", kinds), Val("h_2", kinds)
        diag = eng.fresh("h0_is_diagonal", "bool")
        made = []
        callee = []
        syms_in = T("symbols-argument")
        syms_out = T("symbols-from-keys")
        if symbolic_keys:
            s1, s2 = Sym("x"), Sym("y")
            k0, k1, k2 = Mono(eng, "one", []), Mono(eng, "x", [s1]), Mono(eng, "y", [s2])
            inp = {k0: h0, k1: h1, k2: h2}
            converted = {(0, 0): h0, (1, 0): h1, (0, 1): h2}

            def sk2t(e, d, symbols=None):
                callee.append(d)
                e.oblige("supplied-symbols-forwarded-to-the-key-conversion", z3.BoolVal(symbols is syms_in),
                         detail="the order of the supplied symbols is the order of the indices (documented meaning of `symbols`)")
                return STup([dict(converted), syms_out])
        else:
            inp = {(0, 0): h0, (2, 1): h2, (1, 0): h1}
            converted = dict(inp)
            sk2t = None
        before = list(inp.items())
        eng.globals.update({
            "copy": Builtin("copy", lambda e, d: dict(d)),
            "sympy": Namespace("sympy", {"Basic": TypeObj("Basic")}),
            "np": Namespace("np", {"ndarray": TypeObj("ndarray"), "diag": Builtin("np.diag", lambda e, x: T("np.diag", x))}),
            "is_diagonal": Builtin("is_diagonal", lambda e, h, atol=None: SB(diag)),
            "sparse": Namespace("sparse", {"issparse": Builtin("issparse", lambda e, x: isinstance(x, Val) and "sparse" in x.kinds),
                                             "csr_array": Builtin("csr_array", lambda e, x: T("csr_array", x))}),
            "BlockSeries": Builtin("BlockSeries", lambda e, *a, **kw: made.append(Rec("BlockSeries", a, kw)) or made[-1]),
            "_symbolic_keys_to_tuples": Builtin("_symbolic_keys_to_tuples", sk2t) if sk2t else None,
        })
        res = eng.call(Closure(fn, Env(None, {}), "_dict_to_BlockSeries"), [inp, syms_in, T("atol")], {})
        ok = len(made) == 1 and res is made[0] and not res.args
        eng.oblige("returns-one-BlockSeries", z3.BoolVal(ok))
        if not ok:
            return
        kw = res.kwargs
        data = kw.get("data")
        eng.oblige("input-dict-not-mutated", z3.BoolVal(list(inp.items()) == before), detail="the caller's dictionary keeps its zeroth-order value")
        eng.oblige("data-is-not-the-callers-dict", z3.BoolVal(data is not inp))
        okd = isinstance(data, dict) and set(data) == set(converted)
        eng.oblige("keys-kept", z3.BoolVal(okd), detail=repr(data)[:200])
        if okd:
            z = (0, 0)
            eng.oblige("perturbation-values-kept", z3.BoolVal(all(data[k] is converted[k] for k in converted if k != z)))
            v = data[z]
            same = v is h0
            rew = isinstance(v, T) and v.head == "csr_array" and len(v.args) == 1 and v.args[0] is h0
            if h0_kind == "ndarray":
                # a dense H_0 that is diagonal within atol is replaced by the sparse matrix OF ITS DIAGONAL (entries within atol are zeros; sparse blocks are compared with zero exactly)
                a = v.args[0] if isinstance(v, T) and v.head == "csr_array" and len(v.args) == 1 else None
                rew = isinstance(a, T) and a.head == "np.diag" and isinstance(a.args[0], T) and a.args[0].head == ".diagonal" and a.args[0].args[0] is h0
            eng.oblige("zeroth-order-kept-or-rewrapped-as-csr", z3.BoolVal(same or rew), detail=repr(v))
            if h0_kind == "ndarray":
                eng.oblige("dense-zeroth-order-converted-iff-diagonal", z3.BoolVal(rew) == diag)
            elif h0_kind == "sparse":
                eng.oblige("sparse-zeroth-order-normalised-to-csr", z3.BoolVal(rew))
            else:
                eng.oblige("symbolic-zeroth-order-untouched", z3.BoolVal(same))
        eng.oblige("scalar-shape", z3.BoolVal(isinstance(kw.get("shape"), STup) and not kw["shape"].items))
        eng.oblige("n_infinite-is-key-length", z3.BoolVal(kw.get("n_infinite") == 2))
        if symbolic_keys:
            eng.oblige("symbolic-keys-converted-by-_symbolic_keys_to_tuples-on-a-copy", z3.BoolVal(len(callee) == 1 and callee[0] is not inp and list(callee[0].items()) == before))
            eng.oblige("dimension-names-are-the-symbols-of-the-keys", z3.BoolVal(kw.get("dimension_names") is syms_out))
        else:
            eng.oblige("dimension-names-are-the-given-symbols", z3.BoolVal(kw.get("dimension_names") is syms_in))
    return run_unit(f"block_diagonalization:_dict_to_BlockSeries[h0 {h0_kind}{',monomial keys' if symbolic_keys else ''}]", harness,
                    functions=[(MODULE, "_dict_to_BlockSeries")], timeout_ms=timeout_ms)


def unit_to_scalar_dispatch(timeout_ms=10000):
    """_to_scalar_BlockSeries: which converter handles which input type; arguments forwarded unchanged; in Hermitian mode (check_hermitian) a symbolic term that sympy knows to be
    non-Hermitian and that contains no operators is rejected with ValueError in EVERY container format (single matrix: inside the Taylor expansion, its own unit; list and dictionary: here)."""
    fn = frontend.find(MODULE, "_to_scalar_BlockSeries")

    def harness(eng):
        calls = []

        def mk(name):
            def f(e, *a, **kw):
                calls.append((name, a, kw))
                return T("result-of-" + name, *[x for x in a if isinstance(x, T)])
            return Builtin(name, f)
        nonherm = eng.fresh("h1_is_known_to_be_non_hermitian", "bool")
        has_ops = eng.fresh("h1_contains_operators", "bool")

        class SymTerm(Val):
            def __init__(s, name, tri):
                super().__init__(name, ("MatrixBase",))
                s.tri = tri

            def m_getattr(s, e, name):
                if name == "is_hermitian":
                    if s.tri is None:
                        return True
                    return False if e.branch(s.tri) else None
                if name == "atoms":
                    return Builtin("atoms", lambda e2, *a: (STup([T("op")], None, True) if (s.tri is not None and e2.branch(has_ops)) else STup([], None, True)))
                return super().m_getattr(e, name)
        h0, h1 = SymTerm("h0", None), SymTerm("h1", nonherm)
        eng.globals.update({"_sympy_to_BlockSeries": mk("_sympy_to_BlockSeries"), "_list_to_dict": Builtin("_list_to_dict", lambda e, l: (calls.append(("_list_to_dict", (l,), {})), {(0,): h0, (1,): h1})[1]),
                            "_dict_to_BlockSeries": mk("_dict_to_BlockSeries"), "type": Builtin("type", lambda e, x: T("type-of", x) if isinstance(x, Model) else T("type")),
                            "sympy": Namespace("sympy", {"Expr": TypeObj("Expr"), "MatrixBase": TypeObj("MatrixBase")}), "Operator": TypeObj("Operator"),
                            "any": Builtin("any", lambda e, it: any(e.truth(v) for v in e.as_seq(it).items))})
        symbols, atol = T("symbols"), T("atol")
        chk = eng.fresh("check_hermitian", "bool")
        which = next(k for k in ("series", "sympy", "list", "dict", "nested", "other") if k == "other" or eng.branch(eng.fresh("input_is_" + k, "bool")))
        if which == "series":
            x = Val("series", ("BlockSeries",))
        elif which == "sympy":
            x = Val("matrix", ("MatrixBase",))
        elif which == "list":
            x = STup([h0, h1], None, True)
        elif which == "dict":
            x = {(0,): h0, (1,): h1}
        elif which == "nested":
            x = {(0,): STup([STup([h0])], None, True), (1,): STup([STup([h1])], None, True)}      # nested block lists: values are lists, not matrices
        else:
            x = Val("array", ("ndarray",))
        must_reject = z3.And(chk, nonherm, z3.Not(has_ops)) if which in ("list", "dict") else z3.BoolVal(False)
        try:
            res = eng.call(Closure(fn, Env(None, {}), "_to_scalar_BlockSeries"), [x, symbols, atol], {"check_hermitian": SB(chk)})
        except PyRaise as pr:
            if which == "other":
                eng.oblige("unsupported-type-raises-TypeError", z3.BoolVal(pr.exc.cls == "TypeError"), detail=f"{which}: {pr.exc.cls}")
            else:
                eng.oblige("raises-only-ValueError-for-a-term-known-to-be-non-Hermitian-in-Hermitian-mode", z3.And(z3.BoolVal(pr.exc.cls == "ValueError"), must_reject), detail=f"{which}: {pr.exc.cls}")
            return
        eng.oblige("unsupported-type-rejected", z3.BoolVal(which != "other"))
        eng.oblige("non-Hermitian-symbolic-term-in-a-list-or-dictionary-is-rejected-in-Hermitian-mode", z3.Not(must_reject),
                   detail="sympy's three-valued is_hermitian is False, no operators in the term, check_hermitian set")
        if which == "series":
            eng.oblige("BlockSeries-used-directly", z3.BoolVal(res is x and not calls))
        elif which == "sympy":
            ok = len(calls) == 1 and calls[0][0] == "_sympy_to_BlockSeries" and calls[0][1][0] is x and calls[0][1][1] is symbols
            eng.oblige("sympy-input-goes-to-taylor-expansion-with-the-given-symbols", z3.BoolVal(ok))
            if ok:
                ch = calls[0][2].get("check_hermitian")
                eng.oblige("check_hermitian-forwarded", z3.BoolVal(isinstance(ch, SB) and ch.e is chk or ch is chk))
        elif which == "list":
            ok = [c[0] for c in calls] == ["_list_to_dict", "_dict_to_BlockSeries"] and calls[0][1][0] is x and isinstance(calls[1][1][0], dict) and list(calls[1][1][0].values()) == [h0, h1]
            eng.oblige("list-goes-through-_list_to_dict-then-_dict_to_BlockSeries", z3.BoolVal(ok))
        elif which in ("dict", "nested"):
            ok = [c[0] for c in calls] == ["_dict_to_BlockSeries"] and calls[0][1][0] is x and calls[0][1][1] is symbols and calls[0][1][2] is atol
            eng.oblige("dict-goes-to-_dict_to_BlockSeries-with-symbols-and-atol", z3.BoolVal(ok))
    return run_unit("block_diagonalization:_to_scalar_BlockSeries[dispatch]", harness, functions=[(MODULE, "_to_scalar_BlockSeries")], timeout_ms=timeout_ms)


# ------------------------------------------------------------------------------------------------
def unit_unpack_blocks(nb, timeout_ms=10000):
    """_unpack_blocks and its op_eval: element [i][j] of the nested list at that order; zero if the whole order is zero."""
    fn = frontend.find(MODULE, "_unpack_blocks")

    def harness(eng):
        ninf = eng.fresh("n_infinite")
        eng.assume(ninf >= 1)
        made = []
        conv_calls = []

        def grid(tag):
            return STup([STup([T(f"{tag}[{a}][{b}]") for b in range(nb)], None, True) for a in range(nb)], None, True)
        zeroth = grid("h0")
        other = grid("h")
        nested = eng.fresh("values_are_nested_lists", "bool")
        has_shape = eng.fresh("already_has_block_shape", "bool")
        order_zero = eng.fresh("order_term_is_zero", "bool")
        elem_zero = eng.fresh("element_is_zero", "bool")

        class SIn(Model):
            def m_getattr(s, e, name):
                if name == "shape":
                    return STup([2, 2]) if e.branch(has_shape) else STup([])
                if name == "n_infinite":
                    return SI(ninf)
                if name == "dimension_names":
                    return dimn
                raise Unsupported(name)

            def m_getitem(s, e, key):
                k = e.as_seq(key)
                s.last = k
                if getattr(s, "in_eval", False):
                    return other
                return zeroth if e.branch(nested) else Val("matrix", ("ndarray",))
        dimn = T("dimension_names")
        src = SIn()

        def convert_if_zero(e, v, atol=None):
            conv_calls.append(v)
            if isinstance(v, STup):
                return ZERO if e.branch(order_zero) else v
            return ZERO if e.branch(elem_zero) else T("convert_if_zero", v)
        eng.globals.update({"_convert_if_zero": Builtin("_convert_if_zero", convert_if_zero), "Exception": eng.globals.get("Exception", TypeObj("Exception")),
                            "BlockSeries": Builtin("BlockSeries", lambda e, *a, **kw: made.append(Rec("BlockSeries", a, kw)) or made[-1])})
        res = eng.call(Closure(fn, Env(None, {}), "_unpack_blocks"), [src, T("atol")], {})
        if res is src:
            return eng.oblige("returned-unchanged-only-if-already-blocks-or-not-nested", z3.Or(has_shape, z3.Not(nested)))
        ok = len(made) == 1 and res is made[0]
        eng.oblige("nested-lists-are-unpacked-into-a-new-series", z3.BoolVal(ok))
        if not ok:
            return
        kw = res.kwargs
        shp = kw.get("shape")
        eng.oblige("shape-is-(N,N)-from-the-zeroth-order-list", z3.BoolVal(isinstance(shp, STup) and shp.items == [nb, nb]), detail=repr(shp))
        eng.oblige("n_infinite-and-names-kept", z3.And(zi(kw.get("n_infinite")) == ninf, z3.BoolVal(kw.get("dimension_names") is dimn)))
        ev = kw.get("eval")
        i, j = z3.Ints("i j")
        order = eng.fresh("order")
        eng.assume(z3.And(order >= 0, i >= 0, j >= 0))
        src.in_eval = True
        conv_calls.clear()
        try:
            out = eng.call(ev, [SI(i), SI(j), SI(order)], {})
        except PyRaise as pr:
            eng.oblige("block-index-out-of-range-raises-ValueError", z3.And(z3.BoolVal(pr.exc.cls == "ValueError"), z3.Or(i >= nb, j >= nb)), detail=pr.exc.cls)
            return
        eng.oblige("reads-the-order-without-the-block-indices", z3.And(z3.BoolVal(len(src.last.items) == 1), zi(src.last.items[0]) == order) if src.last.tail is None else z3.BoolVal(False))
        if out is ZERO:
            return eng.oblige("zero-only-if-order-or-element-is-zero", z3.Or(order_zero, elem_zero))
        eng.oblige("in-range", z3.And(i < nb, j < nb))
        for a in range(nb):
            for b in range(nb):
                if eng.branch(z3.And(i == a, j == b)):
                    want = T("convert_if_zero", other.items[a].items[b])
                    return eng.oblige("element-is-block-[i][j]-of-the-nested-list", term_eq(eng, out, want), detail=f"got {out!r}")
    return run_unit(f"block_diagonalization:_unpack_blocks[{nb}x{nb}]", harness, functions=[(MODULE, "_unpack_blocks"), (MODULE, "_unpack_blocks/op_eval")], timeout_ms=timeout_ms)


# ------------------------------------------------------------------------------------------------
def unit_subspaces_from_indices(nb, symbolic, timeout_ms=10000):
    """_subspaces_from_indices: block b = columns of the identity selected by np.compress(labels == b, arange(dim)),
    i.e. (contract of np.compress, A-NP) the states labelled b in increasing order / order of appearance."""
    fn = frontend.find(MODULE, "_subspaces_from_indices")

    def harness(eng):
        dim = eng.fresh("dim")
        eng.assume(dim >= 1)
        raw = T("subspace_indices")

        class Labels(T):
            def m_len(s, e):
                return SI(dim)

        labels = Labels("labels")

        class Matrix(T):
            def m_getitem(s, e, key):
                k = e.as_seq(key)
                if len(k.items) == 2 and isinstance(k.items[0], type(None).__class__) is False:
                    pass
                return T("getitem", s, *k.items)
        ident = Matrix("csr_array", T("identity", SI(dim)))

        def np_array(e, x):
            return labels if x is raw else T("np.array", x)

        def identity(e, n, dtype=None, format=None):
            return T("identity", n)

        def csr_array(e, x):
            return Matrix("csr_array", x)
        some_negative = eng.fresh("some_label_is_negative", "bool")

        def np_any(e, x):
            if isinstance(x, T) and x.head == "Lt" and x.args[0] is labels and x.args[1] == 0:
                return SB(some_negative)
            raise Unsupported("np.any of something else")
        eng.globals.update({
            "np": Namespace("np", {"array": Builtin("np.array", np_array), "max": Builtin("np.max", lambda e, x: nb - 1 if x is labels else T("max", x)),
                                   "any": Builtin("np.any", np_any),
                                   "arange": Builtin("np.arange", lambda e, n: T("arange", n)),
                                   "compress": Builtin("np.compress", lambda e, c, a: T("compress", c, a))}),
            "sparse": Namespace("sparse", {"identity": Builtin("sparse.identity", identity), "csr_array": Builtin("sparse.csr_array", csr_array)}),
        })
        try:
            res = eng.call(Closure(fn, Env(None, {}), "_subspaces_from_indices"), [raw], {"symbolic": symbolic})
        except PyRaise as pr:
            eng.oblige("raises-only-ValueError-for-a-negative-label", z3.And(z3.BoolVal(pr.exc.cls == "ValueError"), some_negative), detail=pr.exc.cls)
            return
        eng.oblige("negative-label-rejected", z3.Not(some_negative), detail="a state with a negative label belongs to no block: accepting it would silently drop the state")
        r = eng.as_seq(res)
        ok = r.tail is None and len(r.items) == nb
        eng.oblige("one-subspace-per-label-0..max", z3.BoolVal(ok), detail=repr(res)[:200])
        if ok:
            for b in range(nb):
                from pyvc.core import SSlice
                got = r.items[b]
                if symbolic:
                    okd = isinstance(got, T) and got.head == ".toarray" and len(got.args) == 1
                    eng.oblige("symbolic:subspaces-are-dense-arrays", z3.BoolVal(okd))
                    got = got.args[0] if okd else got
                else:
                    eng.oblige("numeric:subspaces-stay-sparse", z3.BoolVal(isinstance(got, T) and got.head == "getitem"))
                okg = isinstance(got, T) and got.head == "getitem" and len(got.args) == 3 and isinstance(got.args[1], SSlice) \
                    and got.args[1].lo is None and got.args[1].hi is None and got.args[1].step is None
                eng.oblige("all-rows-selected-columns", z3.BoolVal(okg), detail=repr(got)[:200])
                if okg:
                    base, _, cols = got.args
                    eng.oblige("columns-are-taken-from-the-identity-of-size-dim", term_eq(eng, base, T("csr_array", T("identity", SI(dim)))))
                    want = T("compress", T("Eq", labels, b), T("arange", SI(dim)))
                    eng.oblige("columns-are-the-states-with-this-label-in-increasing-order", term_eq(eng, cols, want),
                               detail=f"block {b}: column selector {cols!r}; want np.compress(labels == {b}, np.arange(dim))")
    return run_unit(f"block_diagonalization:_subspaces_from_indices[{nb} blocks{',symbolic' if symbolic else ''}]", harness,
                    functions=[(MODULE, "_subspaces_from_indices")], timeout_ms=timeout_ms)


# ------------------------------------------------------------------------------------------------
def unit_extract_diagonal(nb, implicit, timeout_ms=10000):
    """_extract_diagonal: entry b of the result is the diagonal of the zeroth-order diagonal block (b, b), for every explicit block
    (the implicit last block is skipped); a zero block gives the scalar array 0; a non-diagonal block only triggers a warning."""
    fn = frontend.find(MODULE, "_extract_diagonal")

    def harness(eng):
        ninf = eng.fresh("n_infinite")
        eng.assume(ninf >= 1)
        nexp = nb - (1 if implicit else 0)
        zflags = [eng.fresh(f"block_{b}_is_zero", "bool") for b in range(nexp)]
        blocks = [ZERO if eng.branch(zflags[b]) else Val(f"H0[{b},{b}]", ("ndarray",)) for b in range(nexp)]
        diag_ok = eng.fresh("all_blocks_diagonal", "bool")
        warned = []
        reads = []

        class Op(Model):
            def m_getattr(s, e, name):
                if name == "shape":
                    return STup([nb, nb])
                if name == "n_infinite":
                    return SI(ninf)
                raise Unsupported(name)

            def m_getitem(s, e, key):
                reads.append(e.as_seq(key))
                return STup(list(blocks), None, True)

        def arange(e, n):
            if not isinstance(n, int):
                raise Unsupported("arange of symbolic size")
            return T("arange", n)
        masked = T("np.ma.masked")
        eng.globals.update({
            "np": Namespace("np", {"arange": Builtin("arange", arange), "array": Builtin("array", lambda e, x, dtype=None: T("np.array", x) if not isinstance(x, int) else T("np.array", x)),
                                   "ma": Namespace("ma", {"masked": masked})}),
            "sympy": Namespace("sympy", {"MatrixBase": TypeObj("MatrixBase")}), "zero": ZERO,
            "is_diagonal": Builtin("is_diagonal", lambda e, h, atol=None: SB(diag_ok)),
            "warn": Builtin("warn", lambda e, *a, **k: warned.append(a)), "UserWarning": TypeObj("UserWarning"),
        })
        T_getattr = T.m_getattr

        def patched(self, e, name):
            if name == "diagonal":
                return Builtin("diagonal", lambda e2: T("diagonal-of", self))
            return T_getattr(self, e, name)
        T.m_getattr = patched
        try:
            res = eng.call(Closure(fn, Env(None, {}), "_extract_diagonal"), [Op(), T("atol"), implicit, STup([])], {})
        finally:
            T.m_getattr = T_getattr
        r = eng.as_seq(res)
        ok = r.tail is None and len(r.items) == nexp
        eng.oblige("one-entry-per-explicit-block", z3.BoolVal(ok), detail=repr(res)[:200])
        okr = len(reads) == 1 and len(reads[0].items) == 2 and reads[0].tail is not None and all(isinstance(x, T) and x.head == "arange" and x.args[0] == nexp for x in reads[0].items)
        eng.oblige("reads-the-zeroth-order-diagonal-blocks-of-the-explicit-subspaces", z3.BoolVal(okr), detail=repr(reads)[:200])
        if ok:
            for b in range(nexp):
                v = r.items[b]
                if blocks[b] is ZERO:
                    eng.oblige(f"block{b}:zero-block-gives-scalar-zero", z3.BoolVal(isinstance(v, T) and v.head == "np.array" and v.args[0] == 0))
                else:
                    eng.oblige(f"block{b}:energies-are-the-diagonal-of-the-block", z3.BoolVal(isinstance(v, T) and v.head == "diagonal-of" and v.args[0] is blocks[b]), detail=repr(v))
        eng.oblige("non-diagonal-block-only-warns", z3.BoolVal(len(warned) == 1) == z3.Not(diag_ok) if nexp else z3.BoolVal(not warned))
    return run_unit(f"block_diagonalization:_extract_diagonal[{nb} blocks{',implicit' if implicit else ''}]", harness, functions=[(MODULE, "_extract_diagonal")], timeout_ms=timeout_ms)


# ------------------------------------------------------------------------------------------------
def unit_sympy_prologue(given, timeout_ms=20000):
    """_sympy_to_BlockSeries as a whole (given in {'user-order', 'none', 'foreign'}): the perturbative symbols are the ones the caller
    supplied, IN THE ORDER SUPPLIED (the k-th order index counts powers of the k-th symbol; no re-sorting), or all free symbols if none were
    supplied; a supplied symbol that does not occur raises ValueError; both series created carry these symbols as dimension names."""
    fn = frontend.find(MODULE, "_sympy_to_BlockSeries")

    def harness(eng):
        sy = [Sym("k_y"), Sym("alpha"), Sym("k_x")]           # deliberately not alphabetical
        free = PSet(list(sy))

        class Op(T):
            def m_getattr(s, e, name):
                if name == "free_symbols":
                    return free
                if name == "expand":
                    return Builtin("expand", lambda e2: expanded)
                return T.m_getattr(s, e, name)
        operator = Op("H(symbols)")
        expanded = Op("H.expand()")
        made = []
        eng.globals.update({"BlockSeries": Builtin("BlockSeries", lambda e, *a, **kw: made.append(Rec("BlockSeries", a, kw)) or made[-1]),
                            "_convert_if_zero": Builtin("_convert_if_zero", lambda e, v, atol=None: T("convert_if_zero", v)), "Operator": TypeObj("Operator")})
        if given == "user-order":
            arg = STup([sy[0], sy[2]], None, True)            # [k_y, k_x]
        elif given == "none":
            arg = STup([])
        else:
            arg = STup([sy[0], Sym("not_in_H")], None, True)
        try:
            res = eng.call(Closure(fn, Env(None, {}), "_sympy_to_BlockSeries"), [operator, arg], {"check_hermitian": False})
        except PyRaise as pr:
            eng.oblige("raises-only-ValueError-for-a-symbol-that-does-not-occur", z3.BoolVal(pr.exc.cls == "ValueError" and given == "foreign"), detail=pr.exc.cls)
            return
        eng.oblige("symbol-that-does-not-occur-is-rejected", z3.BoolVal(given != "foreign"))
        ok = len(made) == 2 and res is made[1]
        eng.oblige("creates-the-derivative-series-and-returns-the-operator-series", z3.BoolVal(ok))
        if not ok:
            return
        want = [sy[0], sy[2]] if given == "user-order" else None
        for rec, nm in ((made[0], "derivatives"), (made[1], "operator")):
            dn = rec.kwargs.get("dimension_names")
            items = eng.as_seq(dn).items if dn is not None else []
            if want is not None:
                eng.oblige(f"{nm}:dimension-names-are-the-supplied-symbols-in-the-supplied-order", z3.BoolVal(len(items) == 2 and items[0] is want[0] and items[1] is want[1]),
                           detail=repr(items))
                eng.oblige(f"{nm}:one-order-index-per-symbol", z3.BoolVal(rec.kwargs.get("n_infinite") == 2))
            else:
                eng.oblige(f"{nm}:all-free-symbols-are-perturbative", z3.BoolVal(len(items) == 3 and all(any(a is b for b in items) for a in sy)), detail=repr(items))
        d0 = made[0].kwargs.get("data")
        eng.oblige("derivatives-start-from-the-expanded-operator-at-order-zero", z3.BoolVal(isinstance(d0, dict) and len(d0) == 1 and list(d0.values())[0] is expanded
                                                                                             and all(v == 0 for v in list(d0)[0])), detail=repr(d0)[:200])
        if want is not None:
            # the evaluator pairs the k-th order index with the k-th supplied symbol
            ev = made[1].kwargs.get("eval")
            series = SDerivSeries()
            made[0].attrs  # noqa: B018  (derivative series object used below through the closure's environment)
            ev.env.vars["operator_derivatives"] = series if "operator_derivatives" in ev.env.vars else None
            if ev.env.vars.get("operator_derivatives") is None:
                p = ev.env
                while p is not None and "operator_derivatives" not in p.vars:
                    p = p.parent
                if p is None:
                    raise Unsupported("op_eval does not read operator_derivatives")
                p.vars["operator_derivatives"] = series
            n0, n1 = z3.Ints("n_first n_second")
            eng.assume(z3.And(n0 >= 0, n1 >= 0))
            out = eng.call(ev, [SI(n0), SI(n1)], {})
            mono = T("Mult", T("Mult", 1, T("Pow", want[0], SI(n0))), T("Pow", want[1], SI(n1)))
            expect = T("convert_if_zero", T("Mult", T(".subs", T("D", SI(n0), SI(n1)), {want[0]: 0, want[1]: 0}), mono))
            eng.oblige("k-th-order-index-counts-powers-of-the-k-th-supplied-symbol", term_eq(eng, out, expect), detail=f"got {out!r}"[:400])
    return run_unit(f"block_diagonalization:_sympy_to_BlockSeries[symbols {given}]", harness, functions=[(MODULE, "_sympy_to_BlockSeries")], timeout_ms=timeout_ms)
