"""Contract of linalg.ComplementProjector (C17): every method denotes the corresponding operation on the
dense matrix  P = 1 - R L^H  (R = vecs, L = left_vecs).

The method bodies are executed symbolically from the real class definition; numpy arrays are elements
of the free matrix algebra with conjugation and transposition (pyvc/matnf.py).
  __init__      : base-class initialiser called with shape (n, n) and dtype result_type(R, L); _hermitian iff L is
                  absent / the same object / array_equal; then L := R
  _apply(v)     = P v            _apply_left(v) = P^H v        (bound to _matmat resp. _rmatmat)
  _matvec / _rmatvec: P resp. P^H applied to a vector (N,), to a column (N, 1), and to every row of a batch (B, N) (scipy >= 1.18 hands such batches to these hooks)
  _adjoint()    denotes P^H      conjugate() denotes conj(P)    _transpose() denotes P^T
  every object reachable by <= 3 of these operations denotes the right matrix and partners are cached mutually
  P P = P  when  L^H R = 1
Assumed (A-SC): scipy.sparse.linalg.LinearOperator dispatches matvec/matmat/rmatvec/rmatmat/adjoint/transpose/dot and the
composite operators (_ProductLinearOperator, _SumLinearOperator, _AdjointLinearOperator, ...) to these hooks.
"""
from __future__ import annotations

import ast
import itertools

import z3

from pyvc import frontend
from pyvc.core import Closure, Env, STup, SI, SB, SExc, Model, Builtin, Namespace, TypeObj, PyRaise, Unsupported, wrap_bool
from pyvc.matnf import MNF, MAtom
from pyvc.unit import run_unit

MODULE = "linalg"


class MArr(Model):
    def __init__(self, nf, rows, cols, base=None, dtype="dt", ndim=2):
        self.nf, self.rows, self.cols, self.base, self.dtype, self.ndim = nf, rows, cols, base, dtype, ndim

    def m_getattr(self, eng, name):
        if name == "ndim":
            return self.ndim
        if name == "conj":
            return Builtin("ndarray.conj", lambda e: MArr(self.nf.conj(e.real_atoms), self.rows, self.cols, None, self.dtype))
        if name == "T":
            return MArr(self.nf.T(), self.cols, self.rows, None, self.dtype)
        if name == "shape":
            return STup([SI(self.rows)]) if self.ndim == 1 else STup([SI(self.rows), SI(self.cols)])
        if name == "dtype":
            return DT(self.dtype)
        raise Unsupported(f"ndarray.{name}")

    def m_binop(self, eng, op, other, reflected):
        if not isinstance(other, MArr):
            return NotImplemented
        l, r = (other, self) if reflected else (self, other)
        if isinstance(op, ast.MatMult):
            eng.oblige(f"shapes:inner-dimensions-agree@{eng.site()}", l.cols == r.rows)
            return MArr(l.nf * r.nf, l.rows, r.cols, ndim=r.ndim)
        if isinstance(op, (ast.Sub, ast.Add)):
            eng.oblige(f"shapes:elementwise-operands-agree@{eng.site()}", z3.And(l.rows == r.rows, l.cols == r.cols))
            return MArr(l.nf - r.nf if isinstance(op, ast.Sub) else l.nf + r.nf, l.rows, l.cols, ndim=l.ndim)
        return NotImplemented

    def m_is(self, eng, other):
        return other is self


class DT(Model):
    def __init__(self, tag):
        self.tag = tag


class SProj(Model):
    """An instance of ComplementProjector under construction / use."""

    def __init__(self, cls):
        self.cls = cls
        self.attrs = {}
        self.base_init = []

    def m_getattr(self, eng, name):
        if name in self.attrs:
            return self.attrs[name]
        if name == "__class__":
            return self.cls
        if name == "shape" and self.base_init:
            # set by scipy's LinearOperator.__init__ (A-SC) from the arguments of the one base-class initialisation
            args, kw = self.base_init[0]
            return kw.get("shape", args[1] if len(args) > 1 else None)
        m = self.cls.methods.get(name)
        if m is not None:
            return Builtin(f"bound {name}", lambda e, *a, **k: e.call(Closure(m, Env(None, {}), name), [self, *a], k))
        raise PyRaise(SExc("AttributeError", (name,)))

    def m_setattr(self, eng, name, value):
        self.attrs[name] = value

    def m_is(self, eng, other):
        return other is self


class SProjClass(Model):
    def __init__(self, node):
        self.node = node
        self.methods = {n.name: n for n in node.body if isinstance(n, ast.FunctionDef)}
        self.aliases = {}
        self.class_attrs = {}
        for st in node.body:
            if isinstance(st, ast.Assign):
                names = [t.id for t in st.targets if isinstance(t, ast.Name)]
                if isinstance(st.value, ast.Name):
                    for nm in names:
                        self.aliases[nm] = st.value.id
                elif isinstance(st.value, ast.Constant):
                    for nm in names:
                        self.class_attrs[nm] = st.value.value

    def m_call(self, eng, args, kwargs):
        obj = SProj(self)
        eng.created.append(obj)
        eng.call(Closure(self.methods["__init__"], Env(None, {"__class__": self, "__self__": obj}), "__init__"), [obj, *args], kwargs)
        return obj


def den(obj, real=()):
    """Matrix denoted by a projector object: 1 - vecs . left_vecs^H."""
    return MNF.one() - obj.attrs["_vecs"].nf * obj.attrs["_left_vecs"].nf.H(real)


def make_harness(variant):
    """variant: 'left-none' | 'left-same' | 'left-other'"""
    cls_node = frontend.find(MODULE, "ComplementProjector")

    def harness(eng):
        eng.real_atoms = set()
        eng.created = []
        n, k = z3.Ints("n k")
        eng.assume(z3.And(n >= 1, k >= 0))
        R = MArr(MNF.atom("R"), n, k, "R", "dtR")
        L = MArr(MNF.atom("L"), n, k, "L", "dtL")
        eq = z3.Bool("array_equal(L,R)")
        cplx = {"R": z3.Bool("iscomplex(R)"), "L": z3.Bool("iscomplex(L)")}
        cls = SProjClass(cls_node)

        def array_equal(e, a, b):
            return SB(eq)

        close = z3.Bool("allclose(L,R)")

        def allclose(e, a, b, *args, **kw):
            # a tolerance test is implied by exact equality and implies nothing: code that identifies L with R on its strength is refuted by L != R, allclose(L, R)
            e.assume(z3.Implies(eq, close))
            return SB(close)

        def swapaxes(e, x, a1, a2):
            if isinstance(x, MArr) and x.ndim == 2 and {a1, a2} == {-1, -2}:
                return MArr(x.nf.T(), x.cols, x.rows, None, x.dtype)
            raise Unsupported("np.swapaxes of something else")

        def result_type(e, a, b):
            return DT(("result_type", a.tag, b.tag))

        def iscomplexobj(e, x):
            base = getattr(x, "base", None)
            if isinstance(x, MArr) and base is None and len(x.nf.t) == 1:
                (w, c), = x.nf.t.items()
                if len(w) == 1 and c == 1:
                    base = w[0].name    # conj / transpose of an input array is complex iff the input is
            if isinstance(x, MArr) and base in cplx:
                if e.branch(cplx[base]):
                    return True
                e.real_atoms.add(base)
                return False
            raise Unsupported("np.iscomplexobj of a derived array")

        def isrealobj(e, x):
            return not iscomplexobj(e, x)

        class Super(Model):
            def m_getattr(self, e, name):
                if name == "__init__":
                    def base_init(e2, *a, **kw):
                        e2.current_self.base_init.append((a, kw))
                    return Builtin("LinearOperator.__init__", base_init)
                raise Unsupported(f"super().{name}")

        eng.globals.update({
            "np": Namespace("np", {"array_equal": Builtin("np.array_equal", array_equal), "allclose": Builtin("np.allclose", allclose), "result_type": Builtin("np.result_type", result_type),
                                   "iscomplexobj": Builtin("np.iscomplexobj", iscomplexobj), "isrealobj": Builtin("np.isrealobj", isrealobj),
                                   "swapaxes": Builtin("np.swapaxes", swapaxes)}),
            "super": Builtin("super", lambda e: Super()),
        })
        # ---- construction --------------------------------------------------------------
        orig_call = cls.m_call

        def ctor(args, kwargs):
            obj = SProj(cls)
            eng.created.append(obj)
            prev = getattr(eng, "current_self", None)
            eng.current_self = obj
            eng.call(Closure(cls.methods["__init__"], Env(None, {}), "__init__"), [obj, *args], kwargs)
            eng.current_self = prev
            return obj
        cls.m_call = lambda e, a, kw: ctor(a, kw)
        if variant == "left-none":
            P = ctor([R], {})
            herm_expected, Leff = z3.BoolVal(True), R
        elif variant == "left-same":
            P = ctor([R], {"left_vecs": R})
            herm_expected, Leff = z3.BoolVal(True), R
        else:
            P = ctor([R, L], {})
            herm_expected, Leff = eq, None
        a = P.attrs
        hv = a.get("_hermitian")
        hz = hv.e if isinstance(hv, SB) else z3.BoolVal(bool(hv))
        eng.oblige("init:_hermitian-iff-left-absent-same-or-equal", hz == herm_expected)
        is_h = eng.branch(hz)
        eng.oblige("init:_vecs-is-vecs", z3.BoolVal(a.get("_vecs") is R))
        eng.oblige("init:_left_vecs-is-vecs-if-hermitian-else-left", z3.BoolVal(a.get("_left_vecs") is (R if is_h else L)))
        eng.oblige("init:base-class-initialised-once", z3.BoolVal(len(P.base_init) == 1),
                   detail="scipy's LinearOperator.__init__ sets shape, dtype and the array namespace used by matvec/matmat/dot")
        if len(P.base_init) == 1:
            args, kw = P.base_init[0]
            shape = kw.get("shape", args[1] if len(args) > 1 else None)
            dtype = kw.get("dtype", args[0] if args else None)
            shp = eng.as_seq(shape).items if shape is not None else []
            eng.oblige("init:shape-is-(n,n)", z3.And(z3.BoolVal(len(shp) == 2), *(s.e == n for s in shp if isinstance(s, SI))))
            want_dt = ("result_type", "dtR", "dtR" if is_h else "dtL")
            eng.oblige("init:dtype-is-result_type(vecs,left_vecs)", z3.BoolVal(isinstance(dtype, DT) and dtype.tag == want_dt))
        eng.oblige("init:partner-slots", z3.BoolVal(a.get("_adjoint_operator") is (P if is_h else None) and a.get("_conjugate_operator") is None
                                                   and a.get("_transpose_operator") is None))
        # class-level bindings
        al = cls.aliases
        eng.oblige("class:_matmat-is-_apply", z3.BoolVal(al.get("_matmat") == "_apply"))
        eng.oblige("class:_rmatmat-is-_apply_left", z3.BoolVal(al.get("_rmatmat") == "_apply_left"))
        eng.oblige("class:__array_ufunc__-is-None", z3.BoolVal("__array_ufunc__" in cls.class_attrs and cls.class_attrs["__array_ufunc__"] is None),
                   detail="so that `ndarray @ P` defers to the operator's __rmatmul__")
        # ---- action on vectors / matrices ------------------------------------------------
        m = z3.Int("m")
        eng.assume(m >= 1)
        v = MArr(MNF.atom("v"), n, m, "v")
        D = den(P)
        r = eng.call(P.m_getattr(eng, "_apply"), [v], {})
        eng.oblige("_apply:denotes-P-v", z3.BoolVal(isinstance(r, MArr) and r.nf == D * v.nf), detail=f"got {getattr(r, 'nf', None)}, want {D * v.nf}")
        r = eng.call(P.m_getattr(eng, "_apply_left"), [v], {})
        eng.oblige("_apply_left:denotes-P^H-v", z3.BoolVal(isinstance(r, MArr) and r.nf == D.H() * v.nf),
                   detail=f"got {getattr(r, 'nf', None)}, want {D.H() * v.nf}")
        # ---- _matvec / _rmatvec: a vector (N,), a column (N, 1) [all that scipy < 1.18 passes] and a batch of row vectors (B, N) [scipy >= 1.18] ----------
        bsz = z3.Int("batch")
        eng.assume(z3.And(bsz >= 1, z3.Not(z3.And(bsz == 1, n == 1))))      # for 1 x 1 operands the two readings of a (1, 1) array coincide
        operands = {"vector": MArr(MNF.atom("x"), n, 1, "x", ndim=1), "column": MArr(MNF.atom("x"), n, 1, "x"), "rows": MArr(MNF.atom("X"), bsz, n, "X")}

        def hook(name):
            if name in cls.methods:
                return P.m_getattr(eng, name)
            target = al.get(name)
            return P.m_getattr(eng, target) if target in cls.methods else None
        for hname, dmat, what in (("_matvec", D, "P"), ("_rmatvec", D.H(), "P^H")):
            for kind, x in operands.items():
                h = hook(hname)
                if h is None:
                    eng.oblige(f"{hname}:defined", False)
                    continue
                r = eng.call(h, [x], {})
                want = dmat * x.nf if kind != "rows" else x.nf * dmat.T()
                okshape = isinstance(r, MArr) and eng.valid(z3.And(r.rows == x.rows, r.cols == x.cols))
                eng.oblige(f"{hname}[{kind}]:denotes-{what}-applied-to-" + ("every-row" if kind == "rows" else "the-vector"),
                           z3.BoolVal(isinstance(r, MArr) and r.nf == want and okshape), detail=f"got {getattr(r, 'nf', None)}, want {want}")
        # ---- orbit under adjoint / conjugate / transpose -----------------------------------
        ops = {"H": ("_adjoint", lambda x, real: x.H(real)), "C": ("conjugate", lambda x, real: x.conj(real)), "T": ("_transpose", lambda x, real: x.T())}
        partner_attr = {"H": "_adjoint_operator", "C": "_conjugate_operator", "T": "_transpose_operator"}
        for depth in (1, 2, 3):
            for word in itertools.product("HCT", repeat=depth):
                obj, want = P, den(P, eng.real_atoms)
                ok = True
                for o in word:
                    prev = obj
                    obj = eng.call(obj.m_getattr(eng, ops[o][0]), [], {})
                    if not isinstance(obj, SProj):
                        ok = False
                        break
                    want = ops[o][1](want, eng.real_atoms)
                    again = eng.call(prev.m_getattr(eng, ops[o][0]), [], {})
                    eng.oblige(f"cache:{''.join(word)}:{o}-is-memoised", z3.BoolVal(again is obj))
                    back = obj.attrs.get(partner_attr[o])
                    okb = isinstance(back, SProj) and den(back, eng.real_atoms).rewrite([], eng.real_atoms) == den(prev, eng.real_atoms).rewrite([], eng.real_atoms)
                    eng.oblige(f"cache:{''.join(word)}:{o}-partner-denotes-the-original", z3.BoolVal(okb),
                               detail="the cached partner of the result denotes the matrix of the object it was computed from (object identity is not required: "
                                      "several objects may denote the same matrix)")
                if not ok:
                    eng.oblige(f"orbit:{''.join(word)}-returns-projector", False)
                    continue
                got = den(obj, eng.real_atoms).rewrite([], eng.real_atoms)
                wantn = want.rewrite([], eng.real_atoms)
                eng.oblige(f"orbit:{''.join(word)}-denotes-the-transformed-matrix", z3.BoolVal(got == wantn), detail=f"got {got}, want {wantn}")
                hv2 = obj.attrs.get("_hermitian")
                if hv2 is True or (isinstance(hv2, SB) and eng.valid(hv2.e)):
                    eng.oblige(f"orbit:{''.join(word)}-hermitian-flag-implies-L-is-R", z3.BoolVal(obj.attrs["_left_vecs"] is obj.attrs["_vecs"]
                                                                                                 or obj.attrs["_left_vecs"].nf == obj.attrs["_vecs"].nf))
        # ---- idempotence under L^H R = 1 ----------------------------------------------------
        Lname = "R" if is_h else "L"
        rules = [((MAtom(Lname, True, True), MAtom("R")), MNF.one())]
        PP = (D * D).rewrite(rules)
        eng.oblige("idempotent-when-L^H-R=1", z3.BoolVal(PP == D), detail=f"P P = {PP}, P = {D}")

    return harness


def unit_projector(variant, timeout_ms=10000):
    return run_unit(f"linalg:ComplementProjector[{variant}]", make_harness(variant), functions=[(MODULE, "ComplementProjector")], timeout_ms=timeout_ms)
