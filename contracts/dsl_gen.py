"""Random generator of well-founded programs in the documented mini-language (C09, quantifier 'all generated well-founded programs').

Deterministic in (seed, k).  The programs are written to contracts/_generated/gen_<seed>.py (not committed) and are then treated exactly like the
hand-written corpus: translation validation of the compiler's output (contracts/algorithm_evals.py, names `gen:<seed>:<k>`) and native execution
against the direct interpreter (replay/dsl_battery.py).

Shape of a generated program (what keeps it well founded and inside the documented discipline of the sentinels):
  inputs  "A" (vanishes at zeroth order) and "B0" (used only as `start = "B0_0"` and under .adj / sums, never in a product; the name ends in a digit on purpose);
  series  S0 .. S{k-1}; Si may read Sj directly only for j < i (acyclic at equal order) and any series through a declared product,
          whose factors all vanish at zeroth order (start = 0 or start-less series built from "A"), so products reach strictly lower orders;
  start   0 | "B0_0" (only for series that are no product factor) | none (only for series that read nothing but inputs);  `start = 1` is not generated
          (the `one` sentinel may only meet products; covered by the hand-written corpus and the shipped algorithms);
  marker  none | hermitian | antihermitian at a random position;  clauses: 1-3 with condition none | diagonal | offdiagonal, optionally a final `lower` clause;
  flag expressions `zero if two_block_optimized else e`, `e if commuting_blocks[index[0]] else e` at the top of a clause;
  expressions: random trees of depth <= 3 over  series | series.adj | product | product.adj | zero | -e | e + e | e - e | e / k | k * e | e * k | f(e) | g(e) | f("series").
"""
from __future__ import annotations

import os
import random

HERE = os.path.dirname(os.path.abspath(__file__))
GEN_DIR = os.path.join(HERE, "_generated")


def _expr(rnd, leaves, depth, allow_calls=True):
    """returns source text of an expression"""
    if depth == 0 or rnd.random() < 0.25:
        leaf = rnd.choice(leaves)
        if leaf == "zero":
            return "zero"
        return f'"{leaf}"' + (".adj" if rnd.random() < 0.4 else "")
    kind = rnd.choice(["neg", "add", "sub", "div", "call", "callseries", "add", "sub", "scale"])
    if kind in ("call", "callseries") and not allow_calls:
        kind = "add"
    if kind == "neg":
        return f"-({_expr(rnd, leaves, depth - 1, allow_calls)})"
    if kind in ("add", "sub"):
        op = "+" if kind == "add" else "-"
        return f"({_expr(rnd, leaves, depth - 1, allow_calls)} {op} {_expr(rnd, leaves, depth - 1, allow_calls)})"
    if kind == "div":
        k = rnd.choice([2, 3, -2, 4, -5])
        return f"({_expr(rnd, leaves, depth - 1, allow_calls)}) / {k}"
    if kind == "scale":
        k = rnd.choice([2, 3, -2, -1])
        inner = _expr(rnd, leaves, depth - 1, allow_calls)
        return f"{k} * ({inner})" if rnd.random() < 0.5 else f"({inner}) * {k}"
    if kind == "call":
        return f"{rnd.choice('fg')}({_expr(rnd, leaves, depth - 1, allow_calls)})"
    names = [l for l in leaves if l != "zero" and "@" not in l]
    if not names:
        return f"{rnd.choice('fg')}({_expr(rnd, leaves, depth - 1, allow_calls)})"
    return f'{rnd.choice("fg")}("{rnd.choice(names)}")'


def program_source(seed, k):
    rnd = random.Random(f"dsl-{seed}-{k}")
    nser = rnd.randint(1, 3)
    names = [f"S{i}" for i in range(nser)]
    # products: pairs / triples of factors among A and the series that vanish at zeroth order
    factor_pool = ["A"] + names
    nprod = rnd.randint(0, 2)
    products = []
    for _ in range(nprod):
        fs = [rnd.choice(factor_pool) for _ in range(rnd.choice([2, 2, 3]))]
        if all(f == "A" for f in fs):
            fs[0] = names[0]
        nm = " @ ".join(fs)
        if nm not in products:
            products.append(nm)
    in_product = {f for p in products for f in p.split(" @ ")}
    lines = [f"def gen_{k}():"]
    for i, nm in enumerate(names):
        leaves = ["A", "A", "zero"] + names[:i] + products + (["B0"] if nm not in in_product or True else [])
        leaves = [l for l in leaves if l != "B0"] + (["B0"] if rnd.random() < 0.4 else [])
        reads_only_inputs = i == 0 and not products
        if nm not in in_product and rnd.random() < 0.25:
            start = '"B0_0"'
        elif reads_only_inputs and nm not in in_product and rnd.random() < 0.3:
            start = None
        else:
            start = "0"
        # a start-less series and a series reading "B0" must not be a product factor (zeroth order would not vanish)
        if nm in in_product:
            leaves = [l for l in leaves if l != "B0"]
        body = []
        if start is not None:
            body.append(f"start = {start}")
        marker = rnd.choice([None, None, "hermitian", "antihermitian"])
        nclauses = rnd.randint(1, 3)
        clauses = []
        for c in range(nclauses):
            cond = rnd.choice([None, None, "diagonal", "offdiagonal"])
            e = _expr(rnd, leaves, rnd.randint(1, 3))
            r = rnd.random()
            if r < 0.1:
                e = f"zero if two_block_optimized else {e}"
            elif r < 0.2:
                e = f"{e} if commuting_blocks[index[0]] else {_expr(rnd, leaves, 2)}"
            clauses.append((cond, e))
        if marker is None and rnd.random() < 0.2:
            clauses.append(("lower", _expr(rnd, leaves, 2)))
        pos = rnd.randint(0, len(clauses)) if marker else None
        if marker and any(c == "lower" for c, _ in clauses):
            marker = None
        for ci, (cond, e) in enumerate(clauses):
            if marker and pos == ci:
                body.append(marker)
            if cond is None:
                body.append(e)
            else:
                body.append(f"if {cond}:")
                body.append("    " + e)
        if marker and pos == len(clauses):
            body.append(marker)
        lines.append(f'    with "{nm}":')
        lines += ["        " + b for b in body]
        lines.append("")
    for p in products:
        lines.append(f'    with "{p}":')
        lines.append("        pass")
        lines.append("")
    outs = sorted(rnd.sample(names, rnd.randint(1, len(names))))
    lines.append("    return " + ", ".join(f'"{o}"' for o in outs))
    return "\n".join(lines) + "\n"


def module_path(seed, count):
    os.makedirs(GEN_DIR, exist_ok=True)
    path = os.path.join(GEN_DIR, f"gen_{seed}_{count}.py")
    src = "# ruff: noqa\n# generated by contracts/dsl_gen.py; never executed, only parsed\n\n" + "\n\n".join(program_source(seed, k) for k in range(count))
    if not os.path.exists(path) or open(path, encoding="utf8").read() != src:
        tmp = path + f".{os.getpid()}.tmp"
        with open(tmp, "w", encoding="utf8") as f:
            f.write(src)
        os.replace(tmp, path)
    return path


if __name__ == "__main__":
    import sys
    print(open(module_path(int(sys.argv[1]) if len(sys.argv) > 1 else 0, int(sys.argv[2]) if len(sys.argv) > 2 else 4)).read())
