"""Contract of the H_0 guards of block_diagonalization.block_diagonalize (C20): the statement
`for i in range(H.shape[0]): for j in range(H.shape[1]): ...` that rejects an unperturbed Hamiltonian with a
non-zero off-diagonal block, and the following `nonzero_blocks` / zero-diagonal guard (extracted mechanically:
the statements after the assignment of `zero_order` up to and including the `if not nonzero_blocks: raise` guard;
everything before and after is dropped and the slice is executed from a symbolic pre-state in which `use_implicit`
is either value).

  raises ValueError  iff  some zeroth-order block (i, j), i != j (i < j in Hermitian mode, where the lower block is the adjoint),
                          is a numeric value other than the `zero` sentinel - for EVERY pair of blocks, the implicit block included;
  symbolic (sympy) non-zero off-diagonal blocks only warn;
  raises ValueError  iff  all diagonal zeroth-order blocks are zero.
"""
from __future__ import annotations

import ast

import z3

from pyvc import frontend
from pyvc.core import Closure, Env, STup, SI, SB, Model, Builtin, Namespace, TypeObj, PyRaise, Unsupported, zi
from pyvc.models import ZERO
from pyvc.unit import run_unit
from contracts.formats import T, Val

MODULE = "block_diagonalization"


def fragment():
    fn = frontend.find(MODULE, "block_diagonalize")
    body = fn.body
    start = end = None
    for k, st in enumerate(body):
        if start is None and isinstance(st, ast.Assign) and any(isinstance(t, ast.Name) and t.id == "zero_order" for t in st.targets):
            start = k + 1
        if start is not None and k >= start and isinstance(st, ast.If) and "nonzero_blocks" in ast.unparse(st.test):
            end = k
            break
    if start is None or end is None:
        raise frontend.SourceError("H_0 guard fragment of block_diagonalize not found")
    return body[start:end + 1]


def unit_h0_guards(nb, hermitian, timeout_ms=20000):
    def harness(eng):
        frag = fragment()
        ninf = 1
        kind = {}
        defnz = {}
        blocks = {}

        class SymBlock(Val):
            def __init__(s2, name, ij):
                super().__init__(name, ("MatrixBase",))
                s2.ij = ij

            def m_getattr(s2, e, name):
                if name in ("is_zero_matrix", "is_zero"):
                    return False if e.branch(defnz[s2.ij]) else None
                return super().m_getattr(e, name)
        for i in range(nb):
            for j in range(nb):
                z = eng.fresh(f"block_{i}{j}_is_zero", "bool")
                sym = eng.fresh(f"block_{i}{j}_is_symbolic", "bool")
                kind[(i, j)] = (z, sym)
                defnz[(i, j)] = eng.fresh(f"block_{i}{j}_is_known_to_be_nonzero", "bool")     # sympy's three-valued is_zero_matrix is False
        reads = []
        warned = []

        class H(Model):
            def m_getattr(s, e, name):
                if name == "shape":
                    return STup([nb, nb])
                if name == "n_infinite":
                    return ninf
                raise Unsupported(f"H.{name}")

            def m_getitem(s, e, key):
                k = e.as_seq(key)
                i, j = k.items[0], k.items[1]
                if not (isinstance(i, int) and isinstance(j, int)):
                    raise Unsupported("symbolic block index")
                reads.append((i, j))
                if (i, j) not in blocks:
                    z, sym = kind[(i, j)]
                    if e.branch(z):
                        blocks[(i, j)] = ZERO
                    elif e.branch(sym):
                        blocks[(i, j)] = SymBlock(f"H0[{i},{j}]", (i, j))
                    else:
                        blocks[(i, j)] = Val(f"H0[{i},{j}]", ("ndarray",))
                return blocks[(i, j)]
        conv_calls = []

        def convert_if_zero(e, v, atol=None):
            # callee contract (own unit: formats / sylvester): the sentinel iff the value is zero within atol; the block kinds of this harness already are the classes
            # "zero within atol" (ZERO) and "not zero within atol" (numeric / symbolic values), so the conversion is the identity on them - what matters is that atol is passed
            conv_calls.append(atol)
            return v
        ATOL_ = T("atol")
        eng.globals.update({"zero": ZERO, "sympy": Namespace("sympy", {"MatrixBase": TypeObj("MatrixBase"), "Expr": TypeObj("Expr")}),
                            "warn": Builtin("warn", lambda e, *a, **k: warned.append(a)), "UserWarning": TypeObj("UserWarning"),
                            "_convert_if_zero": Builtin("_convert_if_zero", convert_if_zero)})
        use_implicit = bool(eng.branch(eng.fresh("use_implicit", "bool")))
        env = Env(None, {"H": H(), "hermitian": hermitian, "zero_order": STup([0]), "use_implicit": use_implicit, "atol": ATOL_})
        relevant = [(i, j) for i in range(nb) for j in range(nb) if i != j and not (hermitian and i > j)]
        offending = z3.Or(*[z3.And(z3.Not(kind[p][0]), z3.Or(z3.Not(kind[p][1]), defnz[p])) for p in relevant]) if relevant else z3.BoolVal(False)
        all_diag_zero = z3.And(*[kind[(i, i)][0] for i in range(nb)])
        try:
            for st in frag:
                eng.exec_stmt(st, env)
        except PyRaise as pr:
            eng.oblige("raises-only-ValueError", z3.BoolVal(pr.exc.cls == "ValueError"), detail=pr.exc.cls)
            eng.oblige("rejects-only-a-nonzero-off-diagonal-block-(numeric-or-symbolic-and-known-to-be-nonzero)-or-an-all-zero-diagonal", z3.Or(offending, all_diag_zero))
            return
        eng.oblige("nonzero-off-diagonal-block-of-H0-is-rejected-for-every-pair-of-blocks", z3.Not(offending),
                   detail="every pair (i, j), i != j (i < j in Hermitian mode), is inspected - the last (implicit) block included; numeric blocks and symbolic blocks that sympy knows to be non-zero")
        eng.oblige("all-zero-diagonal-is-rejected", z3.Not(all_diag_zero))
        eng.oblige("off-diagonal-blocks-compared-with-zero-within-the-callers-atol", z3.BoolVal(all(a is ATOL_ for a in conv_calls)), detail=f"{len(conv_calls)} conversions")
        eng.oblige("every-relevant-pair-was-read", z3.BoolVal(all(p in reads for p in relevant)), detail=f"read {sorted(set(reads))}, relevant {relevant}")
        nsym = [p for p in relevant if blocks.get(p) is not None and blocks[p] is not ZERO and "MatrixBase" in getattr(blocks[p], "kinds", ())]
        eng.oblige("undecided-symbolic-off-diagonal-block-warns", z3.BoolVal(len(warned) == len(nsym)), detail="one warning per symbolic block that sympy cannot decide (those known to be non-zero raise)")
    return run_unit(f"block_diagonalization:block_diagonalize/H0-guards[{nb} blocks,{'hermitian' if hermitian else 'general'}]", harness,
                    functions=[(MODULE, "block_diagonalize")], timeout_ms=timeout_ms, max_paths=20000)


# ------------------------------------------------------------------------------------------------
def norm_fragment():
    """The statements of block_diagonalize that normalise `fully_diagonalize` (from `if H.shape[0] == 1:` to the
    dict conversion of scalar expressions, i.e. up to the assignment of `zero_order`)."""
    fn = frontend.find(MODULE, "block_diagonalize")
    body = fn.body
    start = end = None
    for k, st in enumerate(body):
        if start is None and isinstance(st, ast.If) and ast.unparse(st.test).replace(" ", "") == "H.shape[0]==1":
            start = k
        if start is not None and isinstance(st, ast.Assign) and any(isinstance(t, ast.Name) and t.id == "zero_order" for t in st.targets):
            end = k
            break
    if start is None or end is None:
        raise frontend.SourceError("fully_diagonalize normalisation fragment of block_diagonalize not found")
    return body[start:end]


def unit_fully_diagonalize_normalisation(nb, given, timeout_ms=20000):
    """given in {'empty', 'list', 'ndarray', 'dict'}: what the caller passed as `fully_diagonalize`.
    Postcondition (meaning of the argument, from the docstring): an empty sequence means 'fully diagonalize block 0' for a single
    block and 'eliminate nothing inside blocks' otherwise; a list of block indices is kept; a bare array is the elimination mask
    of the single block (an error for several blocks); a dict is kept entry by entry - in particular a mask that eliminates nothing
    stays a mask (it does not turn into 'fully diagonalize')."""
    def harness(eng):
        frag = norm_fragment()
        masks = {b: Val(f"mask[{b}]", ("ndarray",)) for b in (0, nb - 1)}
        bare = Val("bare_mask", ("ndarray",))
        # whether an array mask has any True entry is up to the environment (a mask may eliminate nothing)
        any_true = eng.fresh("mask_has_a_true_entry", "bool")
        T_getattr = T.m_getattr

        def patched(self, e, name):
            if name == "any":
                return Builtin("any", lambda e2: SB(any_true))
            return T_getattr(self, e, name)
        if given == "empty":
            fd = STup([])
        elif given == "list":
            fd = STup([0])
        elif given == "ndarray":
            fd = bare
        else:
            fd = dict(masks)

        class H(Model):
            def m_getattr(s, e, name):
                if name == "shape":
                    return STup([nb, nb])
                if name == "n_infinite":
                    return 1
                raise Unsupported(f"H.{name}")
        eng.globals.update({"np": Namespace("np", {"ndarray": TypeObj("ndarray")}),
                            "sympy": Namespace("sympy", {"MatrixBase": TypeObj("MatrixBase"), "Expr": TypeObj("Expr"),
                                                         "Matrix": Builtin("Matrix", lambda e, x: T("sympy.Matrix", x))})})
        # a custom solver together with a non-empty `fully_diagonalize` was rejected by the guard at the top of block_diagonalize
        custom = bool(eng.branch(eng.fresh("custom_solve_sylvester", "bool"))) if given == "empty" else False
        env = Env(None, {"H": H(), "fully_diagonalize": fd, "hermitian": True, "custom_solve_sylvester": custom})
        T.m_getattr = patched
        try:
            try:
                for st in frag:
                    eng.exec_stmt(st, env)
            except PyRaise as pr:
                ok1 = pr.exc.cls == "ValueError" and given == "ndarray" and nb > 1
                ok2 = pr.exc.cls == "NotImplementedError" and custom and given == "empty" and nb == 1
                eng.oblige("raises-only-for-a-bare-array-with-several-blocks-or-a-custom-solver-with-a-single-block", z3.BoolVal(ok1 or ok2), detail=pr.exc.cls)
                return
        finally:
            T.m_getattr = T_getattr
        out = env.lookup("fully_diagonalize")
        if given == "ndarray":
            eng.oblige("bare-array-with-several-blocks-is-rejected", z3.BoolVal(nb == 1))
            ok = isinstance(out, dict) and list(out) == [0] and out[0] is bare
            eng.oblige("bare-array-becomes-the-mask-of-block-0", z3.BoolVal(ok), detail=repr(out)[:200])
        elif given == "dict":
            ok = isinstance(out, dict) and set(out) <= set(masks) and all(out[k] is masks[k] for k in out)
            missing = isinstance(out, dict) and set(out) != set(masks)
            # with several blocks a block whose mask eliminates nothing behaves like a block without mask (diag = identity, offdiag = 0),
            # so dropping such an entry is value-preserving; for a single block it would turn into 'fully diagonalize' and is not
            allowed = z3.And(z3.Not(any_true), z3.BoolVal(nb > 1)) if missing else z3.BoolVal(True)
            eng.oblige("dict-of-masks-is-kept-entry-by-entry", z3.And(z3.BoolVal(ok), allowed),
                       detail=f"a mask must stay the mask of its block (an entry may only be dropped if it eliminates nothing and there are several blocks); got {out!r}"[:300])
        elif given == "list":
            o = eng.as_seq(out) if not isinstance(out, dict) else None
            eng.oblige("list-of-block-indices-is-kept", z3.BoolVal(o is not None and o.items == [0]), detail=repr(out)[:200])
        else:
            o = eng.as_seq(out) if not isinstance(out, dict) else None
            want = [0] if nb == 1 else []
            eng.oblige("custom-solver-with-a-single-block-is-rejected", z3.BoolVal(not (custom and nb == 1)),
                       detail="a single block is fully diagonalized by default, which custom Sylvester solvers do not support")
            eng.oblige("empty-means-block-0-for-a-single-block-and-nothing-otherwise", z3.BoolVal(o is not None and o.items == want), detail=repr(out)[:200])
    return run_unit(f"block_diagonalization:block_diagonalize/fully_diagonalize-normalisation[{nb} blocks,{given}]", harness,
                    functions=[(MODULE, "block_diagonalize")], timeout_ms=timeout_ms)


# ------------------------------------------------------------------------------------------------
def unit_check_biorthonormality(nsub, kind="ndarray", timeout_ms=20000):
    """_check_biorthonormality: raises ValueError iff (hstack of all left vectors)^dagger @ (hstack of all right vectors) is not the identity of that
    size - i.e. L^dagger R = 1 over ALL supplied vectors, cross terms between subspaces included; vectors are taken in the order given; nothing is modified.
      kind = ndarray | sparse-array | sparse-matrix | mixed : compared with np.allclose within atol, sparse ones densified first;
      kind = sympy-mutable | sympy-immutable             : compared with sympy.Eq, rejected iff that is decided False (three-valued logic) -
                                                            for EVERY sympy matrix class, mutable or not."""
    fn = frontend.find(MODULE, "_check_biorthonormality")
    symbolic = kind.startswith("sympy")

    def harness(eng):
        kinds = {"ndarray": ("ndarray",), "sparse-array": ("sparray",), "sparse-matrix": ("spmatrix",),
                 "sympy-mutable": ("MatrixBase", "Matrix", "MutableDenseMatrix"), "sympy-immutable": ("MatrixBase", "ImmutableDenseMatrix", "ImmutableMatrix")}

        def kinds_of(b):
            if kind == "mixed":
                return kinds["ndarray"] if b % 2 == 0 else kinds["sparse-array"]
            return kinds[kind]
        rights = [Val(f"R{b}", kinds_of(b)) for b in range(nsub)]
        lefts = [Val(f"L{b}", kinds_of(b)) for b in range(nsub)]
        close = eng.fresh("overlap_is_close_to_identity", "bool")
        eq_false = eng.fresh("sympy_Eq_is_decided_False", "bool")
        seen = {}

        def is_sparse(x):
            return isinstance(x, Val) and any(k in ("sparray", "spmatrix") for k in x.kinds)

        def dense_of(x):
            return T(".toarray", x) if is_sparse(x) else x

        def hstack(e, seq):
            s = e.as_seq(seq)
            return T("hstack", *s.items)

        def allclose(e, a, b, atol=None):
            seen["allclose"] = (a, b, atol)
            return SB(close)

        class EqResult(T):
            def m_binop(self, e, op, other, reflected):
                if isinstance(op, ast.Eq) and other is False:
                    return SB(eq_false)
                return NotImplemented

        def sym_eq(e, a, b):
            seen["Eq"] = (a, b)
            return EqResult("Eq")

        class MatrixCls(TypeObj):
            def m_getattr(self, e, name):
                if name == "hstack":
                    return Builtin("Matrix.hstack", lambda e2, *xs: T("hstack", *xs))
                raise Unsupported(f"sympy.Matrix.{name}")
        ATOL = T("atol")
        T_getattr = T.m_getattr

        def patched(self, e, name):
            if name == "shape":
                return STup([T("rows", self), T("cols", self)])
            return T_getattr(self, e, name)
        eng.globals.update({"np": Namespace("np", {"ndarray": TypeObj("ndarray"), "hstack": Builtin("hstack", hstack), "allclose": Builtin("allclose", allclose),
                                                   "eye": Builtin("eye", lambda e, n: T("eye", n))}),
                            "sparse": Namespace("sparse", {"issparse": Builtin("issparse", lambda e, x: is_sparse(x)), "spmatrix": TypeObj("spmatrix"), "sparray": TypeObj("sparray")}),
                            "sympy": Namespace("sympy", {"MatrixBase": TypeObj("MatrixBase"), "Matrix": MatrixCls("Matrix"), "ImmutableMatrix": TypeObj("ImmutableMatrix"),
                                                         "MutableDenseMatrix": TypeObj("MutableDenseMatrix"), "ImmutableDenseMatrix": TypeObj("ImmutableDenseMatrix"),
                                                         "Eq": Builtin("sympy.Eq", sym_eq), "eye": Builtin("sympy.eye", lambda e, n: T("eye", n))}),
                            "Dagger": Builtin("Dagger", lambda e, x: T("Dagger", x))})
        T.m_getattr = patched
        try:
            try:
                eng.call(Closure(fn, Env(None, {}), "_check_biorthonormality"), [STup(list(rights)), STup(list(lefts))], {"atol": ATOL})
                raised = None
            except PyRaise as pr:
                raised = pr.exc.cls
        finally:
            T.m_getattr = T_getattr
        from contracts.direct import term_eq_py
        if symbolic:
            eng.oblige("raises-ValueError-iff-sympy-decides-the-overlap-differs-from-the-identity", z3.BoolVal(raised == "ValueError") == eq_false if raised in (None, "ValueError") else z3.BoolVal(False),
                       detail=f"raised {raised}; every sympy matrix class (mutable, immutable) is checked")
            ok = "Eq" in seen
            eng.oblige("overlap-compared-with-sympy-Eq", z3.BoolVal(ok), detail="the check must not be skipped for any sympy matrix class")
            if ok:
                a, b = seen["Eq"]
                eng.oblige("overlap-is-(all-left)^dagger-(all-right)-in-the-given-order", z3.BoolVal(term_eq_py(a, T("MatMult", T("Dagger", T("hstack", *lefts)), T("hstack", *rights)))), detail=repr(a)[:300])
                eng.oblige("compared-with-the-identity-of-the-number-of-vectors", z3.BoolVal(isinstance(b, T) and b.head == "eye" and term_eq_py(b.args[0], T("cols", T("hstack", *rights)))), detail=repr(b)[:200])
            return
        eng.oblige("raises-ValueError-iff-the-overlap-is-not-the-identity", z3.BoolVal(raised == "ValueError") == z3.Not(close) if raised in (None, "ValueError") else z3.BoolVal(False),
                   detail=f"raised {raised}")
        ok = "allclose" in seen
        eng.oblige("overlap-compared-with-allclose", z3.BoolVal(ok))
        if ok:
            a, b, atol = seen["allclose"]
            want_overlap = T("MatMult", T("Dagger", T("hstack", *[dense_of(x) for x in lefts])), T("hstack", *[dense_of(x) for x in rights]))
            eng.oblige("overlap-is-(all-left)^dagger-(all-right)-in-the-given-order", z3.BoolVal(term_eq_py(a, want_overlap)), detail=repr(a)[:300])
            eng.oblige("compared-with-the-identity-of-the-number-of-vectors",
                       z3.BoolVal(isinstance(b, T) and b.head == "eye" and term_eq_py(b.args[0], T("cols", T("hstack", *[dense_of(x) for x in rights])))), detail=repr(b)[:200])
            eng.oblige("tolerance-is-atol", z3.BoolVal(atol is ATOL))
    return run_unit(f"block_diagonalization:_check_biorthonormality[{nsub} subspaces,{kind}]", harness, functions=[(MODULE, "_check_biorthonormality")], timeout_ms=timeout_ms)


def unit_normalize_subspaces(timeout_ms=20000):
    """_normalize_subspace_eigenvectors: a plain basis V means (V, V); a pair (R, L) is kept in that order; shapes must agree."""
    fn = frontend.find(MODULE, "_normalize_subspace_eigenvectors")

    def harness(eng):
        same_rows = eng.fresh("same_ambient_dimension", "bool")
        same_cols = eng.fresh("same_number_of_vectors", "bool")
        pair_len_ok = bool(eng.branch(eng.fresh("pair_has_two_entries", "bool")))
        V = Val("V", ("ndarray",))
        R, L = Val("R", ("ndarray",)), Val("L", ("ndarray",))
        T_getattr = T.m_getattr

        def patched(self, e, name):
            if name == "shape":
                if self is L:
                    return STup([SI(eng.fresh("Lrows")) if not eng.branch(same_rows) else SI(rr), SI(eng.fresh("Lcols")) if not eng.branch(same_cols) else SI(rc)])
                return STup([SI(rr), SI(rc)])
            return T_getattr(self, e, name)
        rr, rc = eng.fresh("rows"), eng.fresh("cols")
        pair = STup([R, L]) if pair_len_ok else STup([R, L, Val("X", ("ndarray",))])
        T.m_getattr = patched
        try:
            try:
                res = eng.call(Closure(fn, Env(None, {}), "_normalize_subspace_eigenvectors"), [STup([V, pair])], {})
                raised = None
            except PyRaise as pr:
                raised = pr.exc.cls
        finally:
            T.m_getattr = T_getattr
        if raised is not None:
            eng.oblige("raises-only-ValueError-for-a-malformed-pair-or-mismatching-shapes", z3.And(z3.BoolVal(raised == "ValueError"), z3.Or(z3.BoolVal(not pair_len_ok), z3.Not(same_rows), z3.Not(same_cols))), detail=raised)
            return
        eng.oblige("malformed-pair-rejected", z3.BoolVal(pair_len_ok))
        r = eng.as_seq(res)
        rights, lefts = eng.as_seq(r.items[0]), eng.as_seq(r.items[1])
        eng.oblige("plain-basis-is-used-on-both-sides", z3.BoolVal(rights.items[0] is V and lefts.items[0] is V))
        eng.oblige("pair-is-(right,left)-in-that-order", z3.BoolVal(rights.items[1] is R and lefts.items[1] is L))
        eng.oblige("one-entry-per-subspace", z3.BoolVal(len(rights.items) == 2 and len(lefts.items) == 2))
    return run_unit("block_diagonalization:_normalize_subspace_eigenvectors", harness, functions=[(MODULE, "_normalize_subspace_eigenvectors")], timeout_ms=timeout_ms)


def unit_preprocess_sylvester(timeout_ms=10000):
    """_preprocess_sylvester(f).wrapped(Y, index): a legacy one-argument solver is used for the two off-diagonal blocks of a two-block problem only (ValueError for
    every other block pair, before the solver is called); a BlockSeries argument is read at the requested index; the zero sentinel is answered with zero without
    calling the solver; otherwise the solver's answer for exactly that value is returned."""
    outer = frontend.find(MODULE, "_preprocess_sylvester")
    inner = frontend.find(MODULE, "_preprocess_sylvester/wrapped")

    def harness(eng):
        calls, reads = [], []
        i, j = eng.fresh("i"), eng.fresh("j")
        eng.assume(z3.And(i >= 0, i <= 3, j >= 0, j <= 3))
        # the membership test `index[:2] not in {(0, 1), (1, 0)}` is over concrete tuples: enumerate the block pair
        pair = None
        for a in range(4):
            for b in range(4):
                if pair is None and eng.branch(z3.And(i == a, j == b)):
                    pair = (a, b)
        if pair is None:
            return
        index = STup([pair[0], pair[1], SI(eng.fresh("order"))])
        is_zero = eng.fresh("Y_is_zero", "bool")
        is_series = eng.fresh("Y_is_a_BlockSeries", "bool")
        elem = ZERO if eng.branch(is_zero) else Val("Y_value", ("ndarray",))

        class Series(Model):
            def m_isinstance(s, e, c):
                return c == "BlockSeries"

            def m_getitem(s, e, key):
                reads.append(key)
                return elem
        Y = Series() if eng.branch(is_series) else elem
        solver = Builtin("legacy_solver", lambda e, y: (calls.append(y), T("solution", y))[1])
        eng.globals.update({"zero": ZERO, "BlockSeries": TypeObj("BlockSeries")})
        env = Env(None, {"solve_sylvester": solver})
        try:
            res = eng.call(Closure(inner, env, "wrapped"), [Y, index], {})
        except PyRaise as pr:
            eng.oblige("raises-only-ValueError-for-a-block-pair-other-than-(0,1)-(1,0)", z3.BoolVal(pr.exc.cls == "ValueError" and pair not in ((0, 1), (1, 0)) and not calls), detail=f"{pair}: {pr.exc.cls}")
            return
        eng.oblige("accepts-only-the-two-offdiagonal-blocks-of-a-two-block-problem", z3.BoolVal(pair in ((0, 1), (1, 0))), detail=repr(pair))
        if isinstance(Y, Series):
            eng.oblige("series-argument-read-once-at-the-requested-index", z3.BoolVal(len(reads) == 1 and reads[0] is index))
        if elem is ZERO:
            eng.oblige("zero-answered-with-zero-without-calling-the-solver", z3.BoolVal(res is ZERO and not calls))
        else:
            eng.oblige("solver-called-once-with-the-value-and-its-answer-returned", z3.BoolVal(len(calls) == 1 and calls[0] is elem and isinstance(res, T) and res.args[0] is elem))
    return run_unit("block_diagonalization:_preprocess_sylvester/wrapped", harness, functions=[(MODULE, "_preprocess_sylvester"), (MODULE, "_preprocess_sylvester/wrapped")], timeout_ms=timeout_ms)


# ---- _convert_if_zero ------------------------------------------------------------------------------------

def unit_convert_if_zero(kind, timeout_ms=10000):
    """_convert_if_zero(value, atol): kind in dense | sparse | sympy | sentinel | scalar.
      * the zero sentinel for: a dense array / the stored entries of a sparse value (after conversion to CSR, which sums duplicates) ALL within the CALLER's atol of 0 - the decision is one
        tolerance test against 0 whose absolute tolerance IS the atol argument (numpy's own defaults, rtol = 1e-5 / atol = 1e-8, must not take its place: with the reference 0 only the
        absolute tolerance counts); a sympy matrix that is identically zero; a scalar equal to 0; the sentinel itself;
      * otherwise the value itself (the same object, not a converted copy)."""
    node = frontend.find(MODULE, "_convert_if_zero")

    def harness(eng):
        ATOL = T("atol")
        tests = []

        class Cond(Model):
            """the truth value of a tolerance test: decided by the environment, recorded"""
            def __init__(s, desc):
                s.desc = desc

            def m_truth(s, e):
                r = e.branch(e.fresh("entries_within_tolerance", "bool"))
                tests.append((s.desc, r))
                return r

        class Tok(T):
            METHODS = T.METHODS | {"max", "min", "any", "all"}

            def m_getattr(s, e, name):
                if name == "data":
                    return Tok("data", s)
                if name in s.METHODS:
                    return Builtin(name, lambda e_, *a, **kw: Tok("." + name, s, *a, *[Tok("kw", Tok(k), v) for k, v in sorted(kw.items())]))
                return super().m_getattr(e, name)

            def m_binop(s, e, op, other, reflected):
                if isinstance(op, (ast.LtE, ast.Lt, ast.GtE, ast.Gt)) and not reflected:
                    return Cond((type(op).__name__, s, other))
                if isinstance(op, ast.Eq) and kind == "scalar" and other == 0:
                    return Cond(("Eq0", s, other))
                return super().m_binop(e, op, other, reflected)

            def m_isinstance(s, e, clsname):
                return clsname in {"dense": ("ndarray",), "sparse": ("sparray", "spmatrix"), "sympy": ("MatrixBase",)}.get(kind, ())

        def allclose(e, a, b, *pos, **kw):
            # numpy signature: allclose(a, b, rtol=1e-05, atol=1e-08, equal_nan=False)
            rtol = kw.get("rtol", pos[0] if len(pos) > 0 else "default 1e-5")
            atol = kw.get("atol", pos[1] if len(pos) > 1 else "default 1e-8")
            return Cond(("allclose", a, b, rtol, atol))
        value = ZERO if kind == "sentinel" else Tok("value")
        izm = None
        if kind == "sympy":
            izm = eng.branch(eng.fresh("is_zero_matrix", "bool"))
            orig = Tok.m_getattr

            def ga(s, e, name):
                if name == "is_zero_matrix" and s is value:
                    return izm
                return orig(s, e, name)
            Tok.m_getattr = ga
        eng.globals.update({"np": Namespace("np", {"ndarray": TypeObj("ndarray"), "allclose": Builtin("np.allclose", allclose), "abs": Builtin("np.abs", lambda e, x: Tok("abs", x))}),
                            "sparse": Namespace("sparse", {"issparse": Builtin("issparse", lambda e, x: kind == "sparse" and x is value), "csr_array": Builtin("csr_array", lambda e, x: Tok("csr", x))}),
                            "sympy": Namespace("sympy", {"MatrixBase": TypeObj("MatrixBase")}), "zero": ZERO})
        res = eng.call(Closure(node, Env(None, {}), "_convert_if_zero"), [value, ATOL], {})
        if kind == "sentinel":
            return eng.oblige("sentinel-stays-the-sentinel", z3.BoolVal(res is ZERO))
        if kind == "sympy":
            return eng.oblige("sympy:sentinel-iff-identically-zero-else-the-value-itself", z3.BoolVal((res is ZERO) if izm else (res is value)))
        ok = len(tests) == 1
        eng.oblige("exactly-one-test-decides", z3.BoolVal(ok), detail=repr([t[0] for t in tests])[:300])
        if not ok:
            return
        desc, outcome = tests[0]
        eng.oblige("sentinel-iff-the-test-succeeds-else-the-value-itself", z3.BoolVal((res is ZERO) if outcome else (res is value)))
        if kind == "scalar":
            return eng.oblige("scalar:test-is-equality-with-0", z3.BoolVal(desc[0] == "Eq0" and desc[1] is value))

        def entries_ok(x):
            if kind == "dense":
                return x is value
            # stored entries of the CSR form (duplicates of COO input summed)
            return isinstance(x, Tok) and x.head == "data" and isinstance(x.args[0], Tok) and x.args[0].head == "csr" and x.args[0].args[0] is value
        if desc[0] == "allclose":
            _k, a, b, rtol, atol = desc
            eng.oblige("tolerance-test-is-on-the-entries-against-0", z3.BoolVal(entries_ok(a) and isinstance(b, int) and b == 0))
            eng.oblige("absolute-tolerance-of-the-test-is-the-callers-atol", z3.BoolVal(atol is ATOL),
                       detail=f"np.allclose(a, 0, rtol={rtol!r}, atol={atol!r}): against the reference 0 only atol counts; numpy's default 1e-8 would discard blocks with entries up to 1e-8")
        else:
            # max |entry| <= atol
            opn, lhs, rhs = desc
            good = opn == "LtE" and rhs is ATOL and isinstance(lhs, Tok) and lhs.head == ".max" and isinstance(lhs.args[0], Tok) and lhs.args[0].head == "abs" and entries_ok(lhs.args[0].args[0])
            eng.oblige("tolerance-test-is-max-abs-entry-<=-the-callers-atol", z3.BoolVal(bool(good)), detail=repr(desc)[:300])
    return run_unit(f"block_diagonalization:_convert_if_zero[{kind}]", harness, functions=[(MODULE, "_convert_if_zero")], timeout_ms=timeout_ms)
