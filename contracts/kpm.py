"""Contract of kpm.greens_function (C06 KPM clause, C16): loop-exit postcondition, for any number of iterations.

    on return:  EITHER  the returned `sol` satisfies  || (H @ sol - E * sol) + v ||_2 <= atol   (the residual computed by the code for exactly that `sol`)
                OR      a RuntimeWarning "did not converge" was issued (moment budget exhausted).
Proof rule for the `while residue > atol` loop (no invariant is needed because the residual is recomputed from `sol` inside the
same iteration): (1) the loop is entered (residue starts at +inf); (2) an ARBITRARY iteration is executed from a havocked state
(all variables assigned in the body fresh, `num_moments >= 10`, test true): it either breaks after warning, or ends with `residue`
equal to the norm of the residual of the new `sol`; (3) the loop is left normally only when the test is false in that post-state.
Precondition: max_moments >= 10 (so the first iteration cannot break before `sol` exists).  Convergence / accuracy of the Chebyshev
expansion itself is not decided (numerical analysis).  numpy operations are uninterpreted terms; `np.linalg.norm` returns a real.
"""
from __future__ import annotations

import ast

import z3

from pyvc import frontend
from pyvc.core import Closure, Env, STup, SI, SB, Model, Builtin, Namespace, TypeObj, PyRaise, Unsupported, PathInfeasible, zi, _Brk, _Cont
from pyvc.unit import run_unit
from contracts.formats import T
from contracts.direct import term_eq_py

MODULE = "kpm"


class Inf(Model):
    def m_binop(self, eng, op, other, reflected):
        if isinstance(op, ast.Gt) and not reflected:
            return True          # +inf > anything finite
        return NotImplemented


def unit_greens_function(timeout_ms=20000):
    fn = frontend.find(MODULE, "greens_function")

    def harness(eng):
        Hm, E, v = T("hamiltonian"), T("energy"), T("vector")
        atol = z3.Real("atol")
        maxm = z3.Int("max_moments")
        eng.assume(z3.And(atol >= 0, maxm >= 10))
        warned = []
        norms = []
        state = {"iterations": 0, "exit": None}
        T_getitem = getattr(T, "m_getitem", None)
        T_setitem = getattr(T, "m_setitem", None)
        T.m_getitem = lambda self, e, key: T("item", self, key)
        T.m_setitem = lambda self, e, key, val: None

        def norm(e, x):
            r = e.fresh("residual_norm", "real")
            e.assume(r >= 0)
            norms.append((x, r))
            return SI(r)

        class ZipFam(Model):
            def __init__(s, a, b):
                s.a, s.b = a, b

            def m_comprehension(s, e, ce, g, env):
                cenv = Env(env)
                cenv.is_comprehension = True
                e.assign(g.target, STup([T("item", s.a, T("k")), T("item", s.b, T("k"))]), cenv)
                return T("family", e.eval(ce.elt, cenv))

        def while_rule(e, s, env):
            # (1) entry
            if not e.truth(e.eval(s.test, env)):
                raise Unsupported("loop not entered")
            # (2) arbitrary iteration from a havocked state
            nm = e.fresh("num_moments")
            e.assume(nm >= 10)
            prev_res = e.fresh("residue_before", "real")
            e.assume(prev_res > atol)
            first = e.fresh("first_iteration", "bool")
            e.assume(z3.Implies(first, nm == 10))
            env.set("num_moments", SI(nm))
            env.set("residue", SI(prev_res))
            env.set("sol", T("sol_previous"))
            norms.clear()
            try:
                e.exec_block(s.body, env)
            except _Brk:
                state["exit"] = "break"
                state["first"] = first
                return
            except _Cont:
                raise Unsupported("continue in the KPM loop")
            # (3) normal exit only if the test is false now
            if e.truth(e.eval(s.test, env)):
                raise PathInfeasible()     # another (arbitrary) iteration follows: covered by the havocked iteration
            state["exit"] = "normal"
        eng.while_rule = while_rule
        eng.globals.update({
            "np": Namespace("np", {"inf": Inf(), "sqrt": Builtin("sqrt", lambda e, x: T("sqrt", x)), "sin": Builtin("sin", lambda e, x: T("sin", x)),
                                   "arange": Builtin("arange", lambda e, n: T("arange", n)), "arccos": Builtin("arccos", lambda e, x: T("arccos", x)),
                                   "linalg": Namespace("linalg", {"norm": Builtin("norm", norm)})}),
            "jackson_kernel": Builtin("jackson_kernel", lambda e, n: T("jackson_kernel", n)),
            "kpm_vectors": Builtin("kpm_vectors", lambda e, h, vec: T("kpm_vectors", h, vec)),
            "zip": Builtin("zip", lambda e, a, b: ZipFam(a, b)), "sum": Builtin("sum", lambda e, fam: T("sum", fam)),
            "warn": Builtin("warn", lambda e, *a, **k: warned.append(a)), "RuntimeWarning": TypeObj("RuntimeWarning"),
        })
        try:
            res = eng.call(Closure(fn, Env(None, {}), "greens_function"), [Hm, E, v, SI(atol), SI(maxm)], {})
        finally:
            if T_getitem is None:
                del T.m_getitem
            else:
                T.m_getitem = T_getitem
            if T_setitem is None:
                del T.m_setitem
            else:
                T.m_setitem = T_setitem
        if state["exit"] == "break":
            eng.oblige("gives-up-only-after-a-RuntimeWarning", z3.BoolVal(len(warned) == 1 and any(getattr(x, "name", None) == "RuntimeWarning" for x in warned[0])),
                       detail="the moment budget is exhausted: the caller is warned that the result did not converge")
            eng.oblige("gives-up-only-when-the-moment-budget-is-exceeded", z3.Not(state["first"]),
                       detail="with max_moments >= 10 the first iteration never gives up, so a solution exists when the loop is left")
            eng.oblige("returns-the-last-computed-solution", z3.BoolVal(isinstance(res, T) and res.head == "sol_previous"))
            return
        eng.oblige("no-warning-on-convergence", z3.BoolVal(not warned))
        ok = len(norms) == 1
        eng.oblige("residual-computed-once-per-iteration", z3.BoolVal(ok))
        if ok:
            arg, r = norms[0]
            want = T("Add", T("Sub", T("MatMult", Hm, res), T("Mult", E, res)), v)
            eng.oblige("residual-is-that-of-the-returned-solution", z3.BoolVal(term_eq_py(arg, want)), detail=f"norm of {arg!r}; returned {res!r}"[:400])
            eng.oblige("returned-solution-meets-the-requested-accuracy", r <= atol, detail="|| (H sol - E sol) + v || <= atol on return without warning")
    return run_unit("kpm:greens_function[loop exit]", harness, functions=[(MODULE, "greens_function")], timeout_ms=timeout_ms)
