"""Contract of kpm.greens_function (C06 KPM clause, C16): loop-exit postcondition, for any number of iterations.

    on return:  EITHER  the returned `sol` satisfies  || (H @ sol - E * sol) + v ||_2 <= atol   (the residual computed by the code for exactly that `sol`)
                OR      a RuntimeWarning "did not converge" was issued (moment budget exhausted).
Proof rule for the `while residue > atol` loop (no invariant is needed because the residual is recomputed from `sol` inside the
same iteration): (1) the loop is entered (residue starts at +inf); (2) an ARBITRARY iteration is executed from a havocked state
(all variables assigned in the body fresh, `num_moments >= 10`, test true): it either breaks after warning, or ends with `residue`
equal to the norm of the residual of the new `sol`; (3) the loop is left normally only when the test is false in that post-state.
Precondition: max_moments >= 10 (so the first iteration cannot break before `sol` exists).  Convergence / accuracy of the Chebyshev
expansion itself is not decided (numerical analysis).  numpy operations are uninterpreted terms; `np.linalg.norm` returns a real.
"""
from __future__ import annotations

import ast

import z3

from pyvc import frontend
from pyvc.core import Closure, Env, STup, SI, SB, Model, Builtin, Namespace, TypeObj, PyRaise, Unsupported, PathInfeasible, zi, _Brk, _Cont
from pyvc.unit import run_unit
from contracts.formats import T
from contracts.direct import term_eq_py

MODULE = "kpm"


class Inf(Model):
    def m_binop(self, eng, op, other, reflected):
        if isinstance(op, ast.Gt) and not reflected:
            return True          # +inf > anything finite
        return NotImplemented


def unit_greens_function(timeout_ms=20000):
    fn = frontend.find(MODULE, "greens_function")

    def harness(eng):
        Hm, E, v = T("hamiltonian"), T("energy"), T("vector")
        atol = z3.Real("atol")
        maxm = z3.Int("max_moments")
        eng.assume(z3.And(atol >= 0, maxm >= 1))
        warned = []
        norms = []
        state = {"iterations": 0, "exit": None}
        T_getitem = getattr(T, "m_getitem", None)
        T_setitem = getattr(T, "m_setitem", None)
        T.m_getitem = lambda self, e, key: T("item", self, key)
        T.m_setitem = lambda self, e, key, val: None

        def norm(e, x):
            r = e.fresh("residual_norm", "real")
            e.assume(r >= 0)
            norms.append((x, r))
            return SI(r)

        class ZipFam(Model):
            def __init__(s, a, b):
                s.a, s.b = a, b

            def m_comprehension(s, e, ce, g, env):
                cenv = Env(env)
                cenv.is_comprehension = True
                e.assign(g.target, STup([T("item", s.a, T("k")), T("item", s.b, T("k"))]), cenv)
                return T("family", e.eval(ce.elt, cenv))

        def while_rule(e, s, env):
            # (1) entry
            if not e.truth(e.eval(s.test, env)):
                raise Unsupported("loop not entered")
            # (2) arbitrary iteration from a havocked state
            nm0 = zi(env.lookup("num_moments"))          # the value the code starts with
            nm = e.fresh("num_moments")
            e.assume(nm >= nm0)
            prev_res = e.fresh("residue_before", "real")
            e.assume(prev_res > atol)
            first = e.fresh("first_iteration", "bool")
            e.assume(z3.Implies(first, nm == nm0))
            env.set("num_moments", SI(nm))
            env.set("residue", SI(prev_res))
            env.set("sol", T("sol_previous"))
            norms.clear()
            try:
                e.exec_block(s.body, env)
            except _Brk:
                state["exit"] = "break"
                state["first"] = first
                return
            except _Cont:
                raise Unsupported("continue in the KPM loop")
            # (3) normal exit only if the test is false now
            if e.truth(e.eval(s.test, env)):
                raise PathInfeasible()     # another (arbitrary) iteration follows: covered by the havocked iteration
            state["exit"] = "normal"
        eng.while_rule = while_rule
        eng.globals.update({
            "np": Namespace("np", {"inf": Inf(), "sqrt": Builtin("sqrt", lambda e, x: T("sqrt", x)), "sin": Builtin("sin", lambda e, x: T("sin", x)),
                                   "arange": Builtin("arange", lambda e, n: T("arange", n)), "arccos": Builtin("arccos", lambda e, x: T("arccos", x)),
                                   "linalg": Namespace("linalg", {"norm": Builtin("norm", norm)})}),
            "jackson_kernel": Builtin("jackson_kernel", lambda e, n: T("jackson_kernel", n)),
            "kpm_vectors": Builtin("kpm_vectors", lambda e, h, vec: T("kpm_vectors", h, vec)),
            "zip": Builtin("zip", lambda e, a, b: ZipFam(a, b)), "sum": Builtin("sum", lambda e, fam: T("sum", fam)),
            "warn": Builtin("warn", lambda e, *a, **k: warned.append(a)), "RuntimeWarning": TypeObj("RuntimeWarning"),
            "min": Builtin("min", lambda e, a, b: SI(z3.If(zi(a) <= zi(b), zi(a), zi(b)))),
        })
        try:
            res = eng.call(Closure(fn, Env(None, {}), "greens_function"), [Hm, E, v, SI(atol), SI(maxm)], {})
        finally:
            if T_getitem is None:
                del T.m_getitem
            else:
                T.m_getitem = T_getitem
            if T_setitem is None:
                del T.m_setitem
            else:
                T.m_setitem = T_setitem
        if state["exit"] == "break":
            eng.oblige("gives-up-only-after-a-RuntimeWarning", z3.BoolVal(len(warned) == 1 and any(getattr(x, "name", None) == "RuntimeWarning" for x in warned[0])),
                       detail="the moment budget is exhausted: the caller is warned that the result did not converge")
            eng.oblige("gives-up-only-when-the-moment-budget-is-exceeded", z3.Not(state["first"]),
                       detail="the first iteration never gives up (it starts with at most max_moments moments), so a solution exists when the loop is left")
            eng.oblige("returns-the-last-computed-solution", z3.BoolVal(isinstance(res, T) and res.head == "sol_previous"))
            return
        eng.oblige("no-warning-on-convergence", z3.BoolVal(not warned))
        ok = len(norms) == 1
        eng.oblige("residual-computed-once-per-iteration", z3.BoolVal(ok))
        if ok:
            arg, r = norms[0]
            want = T("Add", T("Sub", T("MatMult", Hm, res), T("Mult", E, res)), v)
            eng.oblige("residual-is-that-of-the-returned-solution", z3.BoolVal(term_eq_py(arg, want)), detail=f"norm of {arg!r}; returned {res!r}"[:400])
            eng.oblige("returned-solution-meets-the-requested-accuracy", r <= atol, detail="|| (H sol - E sol) + v || <= atol on return without warning")
    return run_unit("kpm:greens_function[loop exit]", harness, functions=[(MODULE, "greens_function")], timeout_ms=timeout_ms)


# ------------------------------------------------------------------------------------------------
def unit_solve_sylvester_KPM(nsub, with_aux, timeout_ms=20000, defaults=False):
    """block_diagonalization.solve_sylvester_KPM: how the KPM solver is assembled.
      * the complement projector used in front of the KPM Green's function removes ALL explicitly known vectors: the explicit subspaces
        and the auxiliary vectors (whose contribution is added back exactly by the explicit energy-denominator term);
      * energies of every explicit set are the diagonal of V^dagger h_0 V; the Hamiltonian is rescaled with the bounds of the explicit
        energies (auxiliary ones excluded) and the explicit energies are rescaled with the same (a, b);
      * row k of (Y @ P) / a is solved at the rescaled k-th energy of block index[0] with the requested atol / max_moments; the explicit part (the diagonal solver) gets
        `eigenvalue_atol` as its degeneracy tolerance - never the KPM accuracy `atol`;
      * the KPM part is used exactly for the implicit column block and is added to the explicit part; zero stays zero."""
    fn = frontend.find("block_diagonalization", "solve_sylvester_KPM")

    def harness(eng):
        h0 = T("h_0")
        vecs = [T(f"V{k}") for k in range(nsub)]
        aux = T("aux_vectors")
        opts = {"atol": T("opt_atol"), "max_moments": T("opt_max_moments"), "eps": T("opt_eps"), "eigenvalue_atol": T("opt_eigenvalue_atol")}
        if defaults:
            opts = {}            # every option left to its default (solver_options given as an empty dict or as None)
        if with_aux:
            opts["auxiliary_vectors"] = aux
        made = {}
        T_getattr = T.m_getattr

        def patched(self, e, name):
            if name == "diagonal":
                return Builtin("diagonal", lambda e2: T("diagonal-of", self))
            if name == "shape":
                return STup([T("rows", self), T("cols", self)])
            if name == "tocsr":
                return Builtin("tocsr", lambda e2: T("tocsr", self))
            return T_getattr(self, e, name)
        zero_aux = T("np.zeros((n,0))")

        def projector(e, v, *a):
            made["projector_arg"] = (v, a)
            return T("ComplementProjector", v)

        def rescale(e, h, eps=None, lower_bounds=None, bounds=None):
            made["rescale"] = (h, eps, lower_bounds, bounds)
            return STup([T("h_rescaled"), STup([T("a"), T("b")])])

        def ssd(e, eigs, vecs_implicit=None, atol=None):
            made["explicit"] = (eigs, vecs_implicit, atol)
            return Builtin("explicit_solver", lambda e2, Y, index: T("explicit", Y, *e2.as_seq(index).items[:2]))

        class ZipFam(Model):
            def __init__(s, a, b):
                s.a, s.b = a, b

            def m_comprehension(s, e, ce, g, env):
                cenv = Env(env)
                cenv.is_comprehension = True
                e.assign(g.target, STup([T("item", s.a, T("k")), T("item", s.b, T("k"))]), cenv)
                return T("family", e.eval(ce.elt, cenv))
        gf_calls = []

        def gf(e, h, energy, vector, atol=None, max_moments=None):
            gf_calls.append((h, energy, vector, atol, max_moments))
            return T("kpm_solution", energy, vector)
        from pyvc.models import ZERO
        eng.globals.update({
            "np": Namespace("np", {"zeros": Builtin("zeros", lambda e, shape, **k: zero_aux), "hstack": Builtin("hstack", lambda e, seq: T("hstack", *e.as_seq(seq).items)),
                                   "min": Builtin("min", lambda e, x: T("min", x)), "max": Builtin("max", lambda e, x: T("max", x)),
                                   "concatenate": Builtin("concatenate", lambda e, seq: T("concatenate", *e.as_seq(seq).items)),
                                   "vstack": Builtin("vstack", lambda e, f: T("vstack", f))}),
            "Dagger": Builtin("Dagger", lambda e, x: T("Dagger", x)), "ComplementProjector": Builtin("ComplementProjector", projector),
            "rescale": Builtin("rescale", rescale), "sparse": Namespace("sparse", {"issparse": Builtin("issparse", lambda e, x: True)}),
            "solve_sylvester_diagonal": Builtin("solve_sylvester_diagonal", ssd), "greens_function": Builtin("greens_function", gf),
            "zip": Builtin("zip", lambda e, a, b: ZipFam(a, b)), "zero": ZERO,
        })
        T.m_getattr = patched
        T_getitem = getattr(T, "m_getitem", None)
        T.m_getitem = lambda self, e, key: T("item", self, key)
        try:
            solver = eng.call(Closure(fn, Env(None, {}), "solve_sylvester_KPM"), [h0, STup(list(vecs))], {"solver_options": (opts if (opts or not defaults) else None)})
            all_vecs = vecs + [aux if with_aux else zero_aux]
            # --- set-up
            pa = made.get("projector_arg")
            def is_all(v):
                # without auxiliary vectors the empty (n, 0) array may or may not be stacked: the matrix is the same
                return term_eq_py(v, T("hstack", *all_vecs)) or (not with_aux and term_eq_py(v, T("hstack", *vecs)))
            eng.oblige("projector-removes-all-explicitly-known-vectors-incl-auxiliary", z3.BoolVal(pa is not None and not pa[1] and is_all(pa[0])),
                       detail=f"ComplementProjector argument: {pa!r}"[:300])
            ex = made.get("explicit")
            okx = ex is not None
            eng.oblige("explicit-part-is-the-diagonal-solver", z3.BoolVal(okx))
            if okx:
                eigs, vimp, atol_x = ex
                es = eng.as_seq(eigs).items
                want = [T("diagonal-of", T("MatMult", T("MatMult", T("Dagger", V), h0), V)) for V in all_vecs]
                eng.oblige("energies-are-diag(V^dagger-h_0-V)-for-every-set-of-known-vectors", z3.BoolVal(len(es) == len(want) and all(term_eq_py(a, b) for a, b in zip(es, want))), detail=repr(es)[:300])
                eng.oblige("auxiliary-vectors-are-the-implicit-basis-of-the-explicit-part", z3.BoolVal(vimp is all_vecs[-1]))
                if "eigenvalue_atol" in opts:
                    # which explicit energies count as equal is `eigenvalue_atol` - NOT the accuracy `atol` requested for the Green's function
                    eng.oblige("explicit-part-uses-the-eigenvalue-tolerance-not-the-KPM-accuracy", z3.BoolVal(atol_x is opts["eigenvalue_atol"]), detail=repr(atol_x))
                else:
                    eng.oblige("explicit-part-gets-a-numeric-default-tolerance", z3.BoolVal(isinstance(atol_x, (int, float)) and not isinstance(atol_x, bool) and 0 <= atol_x <= 1e-6),
                               detail=f"atol passed to solve_sylvester_diagonal: {atol_x!r} (None makes every explicit-explicit solve fail with a TypeError)")
            rs = made.get("rescale")
            okr = rs is not None and rs[0] is h0 and (rs[1] is opts["eps"] if "eps" in opts else isinstance(rs[1], float) and 0 < rs[1] < 1) and rs[3] is None
            eng.oblige("hamiltonian-rescaled-with-requested-eps", z3.BoolVal(okr))
            if okr:
                lb = eng.as_seq(rs[2]).items
                expl = [T("diagonal-of", T("MatMult", T("MatMult", T("Dagger", V), h0), V)) for V in vecs]
                wantlb = [T("min", T("concatenate", *expl)), T("max", T("concatenate", *expl))]
                eng.oblige("rescaling-bounds-cover-the-explicit-energies-only", z3.BoolVal(len(lb) == 2 and all(term_eq_py(a, b) for a, b in zip(lb, wantlb))), detail=repr(lb)[:300])
            # --- the returned solver
            i = eng.fresh("i")
            j = eng.fresh("j")
            eng.assume(z3.And(i >= 0, i <= nsub, j >= 0, j <= nsub, z3.Not(z3.And(i == nsub, j == nsub))))   # the implicit diagonal block is never the subject of a Sylvester equation
            ii = next(k for k in range(nsub + 1) if k == nsub or eng.branch(i == k))
            jj = next(k for k in range(nsub + 1) if k == nsub or eng.branch(j == k))
            if ii == nsub and jj == nsub:
                return
            Y = T("Y")
            r0 = eng.call(solver, [ZERO, STup([ii, jj, 1])], {})
            eng.oblige("zero-rhs-gives-zero", z3.BoolVal(r0 is ZERO))
            gf_calls.clear()
            if ii == nsub:
                # left-implicit orientation: the KPM solver has no Green's function for it - it must say so, never answer with the explicit part alone
                try:
                    r = eng.call(solver, [Y, STup([ii, jj, 1])], {})
                    eng.oblige("left-implicit-request-is-refused", False, detail=f"returned {r!r}"[:200])
                except PyRaise as pr:
                    eng.oblige("left-implicit-request-is-refused", z3.BoolVal(pr.exc.cls == "NotImplementedError"), detail=pr.exc.cls)
                return
            r = eng.call(solver, [Y, STup([ii, jj, 1])], {})
            if jj != nsub:
                eng.oblige("explicit-pair-uses-only-the-explicit-part", z3.BoolVal(term_eq_py(r, T("explicit", Y, ii, jj)) and not gf_calls), detail=repr(r)[:200])
                return
            okk = isinstance(r, T) and r.head == "Add" and term_eq_py(r.args[1], T("explicit", Y, ii, jj)) and isinstance(r.args[0], T) and r.args[0].head == "vstack"
            eng.oblige("implicit-column:KPM-part-plus-explicit-part", z3.BoolVal(okk), detail=repr(r)[:300])
            ok1 = len(gf_calls) == 1
            eng.oblige("implicit-column:rows-solved-by-the-KPM-greens-function", z3.BoolVal(ok1))
            if ok1:
                h, energy, vector, at, mm = gf_calls[0]
                eng.oblige("kpm:transposed-rescaled-hamiltonian", z3.BoolVal(term_eq_py(h, T("tocsr", T("attr:T", T("h_rescaled"))))), detail=repr(h))
                e_want = T("item", T("Div", T("Sub", T("diagonal-of", T("MatMult", T("MatMult", T("Dagger", vecs[ii]), h0), vecs[ii])), T("b")), T("a")), T("k"))
                eng.oblige("kpm:k-th-row-solved-at-the-k-th-rescaled-energy-of-the-row-block", z3.BoolVal(term_eq_py(energy, e_want)), detail=repr(energy)[:300])
                okv = isinstance(vector, T) and vector.head == "item" and term_eq_py(vector.args[1], T("k")) and isinstance(vector.args[0], T) and vector.args[0].head == "Div" \
                    and term_eq_py(vector.args[0].args[1], T("a")) and isinstance(vector.args[0].args[0], T) and vector.args[0].args[0].head == "MatMult" \
                    and vector.args[0].args[0].args[0] is Y and isinstance(vector.args[0].args[0].args[1], T) and vector.args[0].args[0].args[1].head == "ComplementProjector" \
                    and is_all(vector.args[0].args[0].args[1].args[0])
                eng.oblige("kpm:rows-of-(Y-P)/a-with-the-projector-over-all-known-vectors", z3.BoolVal(okv), detail=repr(vector)[:300])
                if "atol" in opts:
                    eng.oblige("kpm:requested-accuracy-and-moment-budget-forwarded", z3.BoolVal(at is opts["atol"] and mm is opts["max_moments"]))
                else:
                    eng.oblige("kpm:default-accuracy-and-moment-budget-are-numbers", z3.BoolVal(isinstance(at, float) and 0 < at < 1 and isinstance(mm, (int, float)) and mm >= 10), detail=f"{at!r} {mm!r}")
        finally:
            T.m_getattr = T_getattr
            if T_getitem is None:
                del T.m_getitem
            else:
                T.m_getitem = T_getitem
    return run_unit(f"block_diagonalization:solve_sylvester_KPM[{nsub} explicit subspaces{',auxiliary vectors' if with_aux else ''}{',default options' if defaults else ''}]", harness,
                    functions=[("block_diagonalization", "solve_sylvester_KPM"), ("block_diagonalization", "solve_sylvester_KPM/solve_sylvester"),
                               ("block_diagonalization", "solve_sylvester_KPM/solve_sylvester_kpm")], timeout_ms=timeout_ms)


# ==================================================================================================
# kpm.rescale: the affine map that brings the spectrum into (-1, 1)
#   returns ((h - b 1) / a, (a, b)) with a = |lmax - lmin| / (2 - eps), b = (lmax + lmin) / 2;
#   every eigenvalue lambda with lmin <= lambda <= lmax is mapped to (lambda - b) / a in [-1 + eps/2, 1 - eps/2];
#   computed bounds (sparse eigsh, assumed to bracket the spectrum) are only ever widened by `lower_bounds`; a spectrum consisting of one value is rejected;
#   the Hamiltonian must be a dense array or sparse.
# ==================================================================================================

class RealV(Model):
    """a real scalar with z3 semantics (arithmetic, comparisons)"""

    def __init__(self, e):
        self.e = e if isinstance(e, z3.ExprRef) else z3.RealVal(e)

    @staticmethod
    def of(x):
        if isinstance(x, RealV):
            return x.e
        if isinstance(x, bool):
            raise Unsupported("bool in real arithmetic")
        if isinstance(x, (int, float)):
            return z3.RealVal(repr(x) if isinstance(x, float) else x)
        if isinstance(x, SI):
            return z3.ToReal(x.e)
        raise Unsupported(f"real arithmetic with {x!r}")

    def m_binop(self, eng, op, other, reflected):
        if isinstance(other, T):
            return NotImplemented
        o = RealV.of(other)
        l, r = (o, self.e) if reflected else (self.e, o)
        nm = type(op).__name__
        if nm == "Add":
            return RealV(l + r)
        if nm == "Sub":
            return RealV(l - r)
        if nm == "Mult":
            return RealV(l * r)
        if nm == "Div":
            eng.oblige(f"no-division-by-zero@{eng.site()}", r != 0)
            return RealV(l / r)
        cmp = {"Lt": l < r, "LtE": l <= r, "Gt": l > r, "GtE": l >= r, "Eq": l == r, "NotEq": l != r}.get(nm)
        if cmp is not None:
            return SB(cmp)
        raise Unsupported(f"real {nm}")

    def m_unop(self, eng, op):
        if type(op).__name__ == "USub":
            return RealV(-self.e)
        raise Unsupported("unary op on a real")


def _rabs(e, x):
    v = RealV.of(x)
    return RealV(z3.If(v >= 0, v, -v))


def unit_rescale(kind, bounds_given, with_lower_bounds=False, timeout_ms=20000):
    """kind: 'dense' | 'sparse' | 'other'"""
    node = frontend.find(MODULE, "rescale")

    def harness(eng):
        eps = eng.fresh("eps", "real")
        eng.assume(z3.And(eps > 0, eps < 1))
        lo, hi = eng.fresh("lmin", "real"), eng.fresh("lmax", "real")      # supplied bounds or the answers of eigsh
        lam = eng.fresh("eigenvalue", "real")
        lb0, lb1 = eng.fresh("lower_bound_0", "real"), eng.fresh("lower_bound_1", "real")
        eng.assume(lb0 <= lb1)
        calls = []

        class H(T):
            def __init__(s):
                super().__init__("h")
                s.kinds = ("ndarray",) if kind == "dense" else (("sparse",) if kind == "sparse" else ("list",))
                s.shape = STup([SI(eng.fresh("n")), SI(eng.fresh("n2"))])

            def m_binop(s, e, op, other, reflected):
                return T(type(op).__name__, *((other, s) if reflected else (s, other)))
        h = H()

        class Scaled(T):
            """b * identity"""
            pass

        def eigsh(e, ham, k=None, which=None, return_eigenvectors=True, tol=None, **kw):
            calls.append((ham, k, which, return_eigenvectors, tol))
            v = {"LA": hi, "SA": lo}.get(which)
            if v is None:
                raise Unsupported(f"eigsh which={which}")
            return STup([RealV(v)])
        ident = T("identity")

        class Ident(T):
            def m_binop(s, e, op, other, reflected):
                if type(op).__name__ == "Mult" and isinstance(other, RealV):
                    return T("scaled_identity", other)
                return super().m_binop(e, op, other, reflected)

        class TT(T):
            def m_binop(s, e, op, other, reflected):
                if isinstance(other, RealV):
                    return TT(type(op).__name__, *((other, s) if reflected else (s, other)))
                return TT(type(op).__name__, *((other, s) if reflected else (s, other)))
        h.m_binop = lambda e, op, other, reflected: TT(type(op).__name__, *((other, h) if reflected else (h, other)))
        eng.globals.update({
            "np": Namespace("np", {"abs": Builtin("abs", _rabs), "ndarray": TypeObj("ndarray"), "eye": Builtin("eye", lambda e, m: Ident("identity"))}),
            "abs": Builtin("abs", _rabs),
            "min": Builtin("min", lambda e, a, b: RealV(z3.If(RealV.of(a) <= RealV.of(b), RealV.of(a), RealV.of(b)))),
            "max": Builtin("max", lambda e, a, b: RealV(z3.If(RealV.of(a) >= RealV.of(b), RealV.of(a), RealV.of(b)))),
            "sparse": Namespace("sparse", {"issparse": Builtin("issparse", lambda e, x: kind == "sparse"), "identity": Builtin("identity", lambda e, m, format=None: Ident("identity")),
                                           "csr_array": Builtin("csr_array", lambda e, x: x),
                                           "linalg": Namespace("linalg", {"eigsh": Builtin("eigsh", eigsh)})}),
        })
        kwargs = {"eps": RealV(eps)}
        if bounds_given:
            kwargs["bounds"] = STup([RealV(lo), RealV(hi)])
        if with_lower_bounds:
            kwargs["lower_bounds"] = STup([RealV(lb0), RealV(lb1)])
        if bounds_given:
            eng.assume(lo < hi)
        try:
            res = eng.call(Closure(node, Env(None, {}), "rescale"), [h], kwargs)
        except PyRaise as pr:
            if pr.exc.cls == "TypeError":
                return eng.oblige("only-dense-or-sparse-hamiltonians", z3.BoolVal(kind == "other"))
            eng.oblige("raises-ValueError-only-for-a-degenerate-spectrum", z3.And(z3.BoolVal(pr.exc.cls == "ValueError" and not bounds_given), hi - lo <= z3.If(hi + lo >= 0, hi + lo, -(hi + lo)) * (eps / 2) / 2),
                       detail=pr.exc.cls)
            return
        eng.oblige("other-types-are-rejected", z3.BoolVal(kind != "other"))
        r = eng.as_seq(res)
        ab = eng.as_seq(r.items[1])
        a, b = RealV.of(ab.items[0]), RealV.of(ab.items[1])
        # effective bounds
        if bounds_given:
            elo, ehi = lo, hi
        else:
            eng.oblige("bounds-computed-for-this-hamiltonian-largest-and-smallest-algebraic", z3.BoolVal(len(calls) == 2 and all(c[0] is h and c[1] == 1 and c[3] is False for c in calls)
                                                                                                 and {c[2] for c in calls} == {"LA", "SA"}))
            elo = z3.If(z3.And(z3.BoolVal(with_lower_bounds), lb0 < lo), lb0, lo)
            ehi = z3.If(z3.And(z3.BoolVal(with_lower_bounds), lb1 > hi), lb1, hi)
        eng.oblige_nra("a-is-the-bandwidth-over-2-minus-eps", a * (2 - eps) == z3.If(ehi >= elo, ehi - elo, elo - ehi))
        eng.oblige_nra("b-is-the-centre-of-the-band", 2 * b == ehi + elo)
        eng.oblige_nra("a-is-positive", a > 0)
        eng.oblige_nra("every-eigenvalue-inside-the-bounds-is-mapped-into-the-open-unit-interval",
                       z3.Implies(z3.And(elo <= lam, lam <= ehi), z3.And((lam - b) / a >= -1 + eps / 2, (lam - b) / a <= 1 - eps / 2)),
                       detail="(lambda - b) / a in [-1 + eps/2, 1 - eps/2] for lmin <= lambda <= lmax")
        if with_lower_bounds and not bounds_given:
            eng.oblige_nra("lower_bounds-only-widen-the-interval", z3.And(elo <= lo, ehi >= hi, elo <= lb0, ehi >= lb1))
        want = ("Div", ("Sub", "h", ("scaled_identity",)))
        got = r.items[0]
        ok = isinstance(got, T) and got.head == "Div" and isinstance(got.args[0], T) and got.args[0].head == "Sub" and got.args[0].args[0] is h \
            and isinstance(got.args[0].args[1], T) and got.args[0].args[1].head in ("scaled_identity", "Mult")
        eng.oblige("rescaled-hamiltonian-is-(h - b 1)/a", z3.BoolVal(ok), detail=repr(got)[:200])
        if ok:
            sub = got.args[0].args[1]
            bb = sub.args[0] if sub.head == "scaled_identity" else next((x for x in sub.args if isinstance(x, RealV)), None)
            eng.oblige_nra("shift-is-b-and-scale-is-a", z3.And(RealV.of(bb) == b, RealV.of(got.args[1]) == a) if isinstance(bb, RealV) and isinstance(got.args[1], RealV) else z3.BoolVal(False))
    return run_unit(f"kpm:rescale[{kind},{'bounds given' if bounds_given else 'bounds computed'}{',lower_bounds' if with_lower_bounds else ''}]", harness,
                    functions=[(MODULE, "rescale")], timeout_ms=timeout_ms)


# ------------------------------------------------------------------------------------------------
# kpm_vectors: the generator yields the Chebyshev vectors T_n(H) v, n = 0, 1, 2, ... (unbounded: loop invariant)
# ------------------------------------------------------------------------------------------------

def unit_kpm_vectors(timeout_ms=20000):
    """kpm.kpm_vectors(H, v) yields T_0(H) v, T_1(H) v, T_2(H) v, ... with the Chebyshev recurrence  T_0 = 1, T_1 = H, T_{n+1} = 2 H T_n - T_{n-1}  (ghost function Cheb, instantiated where needed).
    Vectors are elements of an uninterpreted sort with the operations the code uses (c H x, x - y); nothing about them is assumed except what the recurrence says.
    Invariant of the `while True` loop after k >= 2 values were produced:  alpha = Cheb(k - 1), alpha_prev = Cheb(k - 2).
    What is NOT modelled: Python's generator protocol itself (a `yield` is taken as 'append to the output sequence and go on')."""
    fn = frontend.find(MODULE, "kpm_vectors")

    def harness(eng):
        Vec = z3.DeclareSort("Vec")
        v0 = z3.Const("v", Vec)
        Happ = z3.Function("cH_times", z3.IntSort(), Vec, Vec)          # c * H @ x
        Sub = z3.Function("minus", Vec, Vec, Vec)
        Cheb = z3.Function("Cheb", z3.IntSort(), Vec)

        def cheb_axioms(n):
            """instances of the definition of Cheb at index n (n an integer term)"""
            return z3.And(Cheb(0) == v0, Cheb(1) == Happ(1, v0), z3.Implies(n >= 1, Cheb(n + 1) == Sub(Happ(2, Cheb(n)), Cheb(n - 1))))

        class VecM(Model):
            def __init__(s, t):
                s.t = t

            def m_binop(s, e, op, other, reflected):
                if isinstance(op, ast.Sub) and isinstance(other, VecM):
                    return VecM(Sub(other.t, s.t) if reflected else Sub(s.t, other.t))
                return NotImplemented

        class HM(Model):
            def __init__(s, c=1):
                s.c = c

            def m_binop(s, e, op, other, reflected):
                if isinstance(op, ast.Mult) and isinstance(other, int):
                    return HM(s.c * other)
                if isinstance(op, ast.MatMult) and not reflected and isinstance(other, VecM):
                    return VecM(Happ(s.c, other.t))
                return NotImplemented
        out = []

        def e_yield(e, env):
            val = eng.eval(e.value, env)
            out.append(val)
            return None
        eng.e_Yield = e_yield
        state = {}

        def while_rule(e, s, env):
            # entry: the invariant holds with k = number of values produced so far
            k0 = len(out)
            state["entry"] = (k0, env.lookup("alpha"), env.lookup("alpha_prev"))
            if not (isinstance(s.test, ast.Constant) and s.test.value is True):
                raise Unsupported("the loop of kpm_vectors is expected to be `while True`")
            # arbitrary iteration
            n = e.fresh("n")                       # alpha = Cheb(n), alpha_prev = Cheb(n - 1), n >= 1
            e.assume(n >= 1)
            e.assume(cheb_axioms(n))
            env.set("alpha", VecM(Cheb(n)))
            env.set("alpha_prev", VecM(Cheb(n - 1)))
            before = len(out)
            e.exec_block(s.body, env)
            state["iter"] = (n, out[before:], env.lookup("alpha"), env.lookup("alpha_prev"))
            del out[before:]
            # the loop never exits: nothing after it is reachable
        eng.while_rule = while_rule
        eng.assume(cheb_axioms(z3.IntVal(1)))
        eng.call(Closure(fn, Env(None, {}), "kpm_vectors"), [HM(), VecM(v0)], {})
        eng.oblige("first-two-values-are-T_0(H)v-and-T_1(H)v", z3.And(z3.BoolVal(len(out) == 2 and all(isinstance(x, VecM) for x in out)),
                                                                       *( [out[0].t == Cheb(0), out[1].t == Cheb(1)] if len(out) == 2 else [])))
        ok = "entry" in state and "iter" in state
        eng.oblige("loop-reached-and-one-arbitrary-iteration-executed", z3.BoolVal(ok))
        if not ok:
            return
        k0, a, ap = state["entry"]
        eng.oblige("invariant-holds-on-entry", z3.And(z3.BoolVal(k0 == 2 and isinstance(a, VecM) and isinstance(ap, VecM)), a.t == Cheb(1), ap.t == Cheb(0)))
        n, ys, a2, ap2 = state["iter"]
        eng.oblige("each-iteration-yields-exactly-one-value", z3.BoolVal(len(ys) == 1 and isinstance(ys[0], VecM)))
        if len(ys) == 1:
            eng.oblige("iteration-yields-the-next-Chebyshev-vector", ys[0].t == Cheb(n + 1), detail="T_{n+1}(H) v = 2 H T_n(H) v - T_{n-1}(H) v")
        eng.oblige("invariant-preserved", z3.And(z3.BoolVal(isinstance(a2, VecM) and isinstance(ap2, VecM)), a2.t == Cheb(n + 1), ap2.t == Cheb(n)))
    r = run_unit("kpm:kpm_vectors[Chebyshev recurrence, loop invariant]", harness, functions=[(MODULE, "kpm_vectors")], timeout_ms=timeout_ms)
    r.used_models.add("generator protocol: `yield` appends to the output sequence (not modelled: suspension / resumption)")
    return r
